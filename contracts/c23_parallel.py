"""C23 -- processes sharing an interface coordinate the dispatcher safely.

Rely/guarantee over ghost shared state.  The real functions are executed
symbolically for ONE participant; every file-system call is an atomic action
with an assumed contract (POSIX), and what the other participants may do in
between is the *rely*.  The obligations are
  - resource invariants: shared bytes are read and written only under the lock
    that protects them, and the invariant is re-established at every unlock
    (this participant's guarantee);
  - the clauses of the property as postconditions over the ghost state.

Part 1: the FMMU address bitmap (lock.FMMULock), file `/run/ebpf/<if>.fmmu`.
  ghost  fs.content   the bytes of the file
         fs.exists
         fs.g_live    the address numbers (1..511) of the *other* live participants
         g            an arbitrary address number: the clauses are proved for
                      every g, i.e. for every other participant
  resource invariant RI, protected by lockf over the whole file:
         len(content) in (0, 64); an empty file has no registered participant;
         every other live participant's bit is set
"""
import fcntl
import logging
import os
import random

import z3

from ebpfcat import lock as L
from ebpfcat.lock import FMMULock

from vc.pyvc import lib, ops
from vc.pyvc.api import REGISTRY, Contract, Loop, Raises, T, implies
from vc.pyvc.exec import Contract_, OutOfReach, PyRaise
from vc.pyvc.types import fresh
from vc.pyvc.values import BOOL, BYTES, INT, Obj, Sym, lift_bool, lift_bytes, lift_int, mk_bool, mkb


class FS:
    """ghost: the bitmap file"""


def bit(content, a):
    """bit number a of the bitmap (native definition, used by replays; the
    symbolic one is the model below)"""
    return (content[a // 8] >> (a % 8)) & 1 == 1


@lib.model(bit)
def _m_bit(ex, args, kw):
    content, a = args
    c, at = lift_bytes(content), lift_int(a)
    byte = z3.Select(ops.b_arr(c), at / 8)
    return mk_bool(z3.Or(*[z3.And(at % 8 == k, (byte / (1 << k)) % 2 == 1) for k in range(8)]))


def RI(fs, g):
    """the resource invariant, for the other participant with address number g"""
    return ((len(fs.content) == 0 or len(fs.content) == 64)
            and implies(g in fs.g_live, len(fs.content) == 64 and bit(fs.content, g)))


def window(addr):
    """the logical addresses of the process with address number addr"""
    return (addr * 4194304, (addr + 1) * 4194304)


# ------------------------------------------------------- atomic-action contracts
_SAVED = {}


def _clause(ex, expr, env, assume=False):
    """a spec expression of this module over ghost values, from model code"""
    from vc.pyvc.api import _as_term
    from vc.pyvc.exec import Env
    c = REGISTRY[ex.target]
    e = Env()
    e.vars.update(env)
    if assume:
        ex.assume(_as_term(c.assumed_clause(ex, expr, e)))
        return None
    return _as_term(c.eval_clause(ex, expr, e))


def _fs(ex):
    fs = ex.inputs.get("fs")
    if not isinstance(fs, Obj):
        raise OutOfReach("file-system call outside the C23 contracts")
    return fs


def m_makedirs(ex, args, kw):
    return None


def m_open(ex, args, kw):
    name, flags = args[0], args[1]
    fs = _fs(ex)
    if isinstance(flags, int) and flags & os.O_EXCL:
        if ex.fork(lift_bool(fs.fields["exists"]), "the bitmap file already exists"):
            raise PyRaise(ex.make_exc(FileExistsError))
        # O_CREAT|O_EXCL is atomic: the file appears, empty
        ex.assume(ops.b_len(lift_bytes(fs.fields["content"])) == 0)
        fs.fields["exists"] = True
        fs.fields["g_created_by_me"] = True
        return 9
    ex.check(f"{ex.target_short}.open.requires[the file exists]", lift_bool(fs.fields["exists"]),
             "os.open without O_CREAT of an existing file")
    return 9


def m_lockf(ex, args, kw):
    fd, cmd = args[0], args[1]
    fs = _fs(ex)
    ln = args[2] if len(args) > 2 else 0
    start = args[3] if len(args) > 3 else 0
    ex.check(f"{ex.target_short}.lockf.range[the whole bitmap]",
             mk_bool(z3.And(lift_int(ln) == 0, lift_int(start) == 0)),
             "the record lock covers the whole file")
    if isinstance(cmd, int) and cmd & fcntl.LOCK_UN:
        ex.check(f"{ex.target_short}.lockf.release.requires[lock held]", lift_bool(fs.fields["g_locked"]),
                 "unlock of a held lock")
        # this participant's guarantee: the invariant holds again, with the
        # other participants' bits as they were
        g = ex.inputs["g"]
        ex.check(f"{ex.target_short}.guarantee[the bitmap invariant is re-established at unlock]",
                 _clause(ex, "RI(fs, g)", {"fs": fs, "g": g}),
                 "RI(fs, g): the file has 64 bytes (or is still empty with nobody registered) and every other "
                 "live participant's bit is set")
        fs.fields["g_locked"] = False
        return None
    if not (isinstance(cmd, int) and cmd & fcntl.LOCK_EX) or (cmd & fcntl.LOCK_NB):
        raise OutOfReach(f"lockf command {cmd}")
    # blocking exclusive lock: when it returns no one else holds it; what the
    # others did to the file meanwhile satisfies their guarantee (rely)
    content = fresh(ex, T.Bytes, "bitmap_on_acquire")
    fs.fields["content"] = content
    fs.fields["g_locked"] = True
    g = ex.inputs["g"]
    _clause(ex, "RI(fs, g)", {"fs": fs, "g": g}, assume=True)
    me = ex.inputs.get("self")
    if isinstance(me, Obj) and "g_mine" in me.fields:
        # a registered participant: the others' guarantee keeps its bit as well
        _clause(ex, "len(fs.content) == 64 and bit(fs.content, mine)", {"fs": fs, "mine": me.fields["g_mine"]},
                assume=True)
    return None


def _need_lock(ex, what):
    fs = _fs(ex)
    ex.check(f"{ex.target_short}.resource_invariant[the bitmap is {what} only under the file lock]",
             lift_bool(fs.fields["g_locked"]),
             f"the bitmap file is {what} while this participant holds lockf over it (another participant may "
             f"hold the lock and be in the middle of its allocation otherwise)")
    return fs


def m_pread(ex, args, kw):
    fd, n, off = args
    fs = _need_lock(ex, "read")
    c = fs.fields["content"]
    return ops.bslice(c, off, Sym(lift_int(off) + lift_int(n), INT))


def _store(ex, fs, data, off):
    """content[off : off+len(data)] = data, zero filled when beyond the end"""
    c = lift_bytes(fs.fields["content"])
    d = lift_bytes(data)
    o = lift_int(off)
    n, m = ops.b_len(c), ops.b_len(d)
    k = z3.Int("k!st")
    arr = z3.Lambda([k], z3.If(z3.And(k >= o, k < o + m), z3.Select(ops.b_arr(d), k - o),
                               z3.If(k < n, z3.Select(ops.b_arr(c), k), 0)))
    fs.fields["content"] = Sym(mkb(arr, z3.If(o + m > n, o + m, n)), BYTES)
    return Sym(m, INT)


def m_pwrite(ex, args, kw):
    fd, data, off = args
    fs = _need_lock(ex, "written")
    return _store(ex, fs, data, off)


def m_write(ex, args, kw):
    fd, data = args
    fs = _need_lock(ex, "written")
    return _store(ex, fs, data, 0)         # the descriptor was just opened: position 0


def m_ftruncate(ex, args, kw):
    fd, n = args
    fs = _need_lock(ex, "written")
    c = lift_bytes(fs.fields["content"])
    nt = lift_int(n)
    k = z3.Int("k!tr")
    arr = z3.Lambda([k], z3.If(k < ops.b_len(c), z3.Select(ops.b_arr(c), k), 0))
    fs.fields["content"] = Sym(mkb(arr, nt), BYTES)
    return None


def m_close(ex, args, kw):
    return None


def m_randrange(ex, args, kw):
    lo, hi = (0, args[0]) if len(args) == 1 else args[:2]
    v = fresh(ex, T.Int, "randrange")
    ex.assume(z3.And(v.t >= lift_int(lo), v.t < lift_int(hi)))
    return v


def m_warn(ex, args, kw):
    return None


_MODELS = [(os.makedirs, m_makedirs), (os.open, m_open), (fcntl.lockf, m_lockf), (os.pread, m_pread),
           (os.pwrite, m_pwrite), (os.write, m_write), (os.ftruncate, m_ftruncate), (os.close, m_close),
           (random.randrange, m_randrange), (L.randrange, m_randrange), (logging.warn, m_warn),
           (logging.warning, m_warn)]


def install():
    for fn, m in _MODELS:
        _SAVED[id(fn)] = lib.MODELS.get(id(fn))
        lib.MODELS[id(fn)] = (fn, m)


def uninstall():
    for fn, m in _MODELS:
        old = _SAVED.pop(id(fn), None)
        if old is None:
            lib.MODELS.pop(id(fn), None)
        else:
            lib.MODELS[id(fn)] = old


FS_PARAMS = dict(exists=T.Bool, content=T.Bytes, g_live=T.IntSet(), g_locked=T.Const(False),
                 g_created_by_me=T.Const(False))

fmmu_init = Contract(
    FMMULock.__init__,
    params=dict(self=T.Obj(FMMULock), filename=T.Const("/run/ebpf/eth0.fmmu"), fs=T.Obj(FS, **FS_PARAMS),
                g=T.Range(1, 511)),
    requires={"others_keep_the_invariant": "implies(not fs.exists, not (g in fs.g_live))"},
    loops={1: Loop(invariant={"candidate_in_range": "1 <= addr and addr < 512",
                              "map_is_complete": "len(addrmap) == 64"},
                   modifies={"addr": T.Int})},
    ensures={
        "an_address_number_of_its_own":
            "1 <= self.base_addr // 4194304 and self.base_addr // 4194304 < 512 "
            "and self.base_addr % 4194304 == 0",
        "not_the_number_of_any_other_live_participant":
            "implies(g in fs.g_live, self.base_addr // 4194304 != g)",
        "registered_in_the_bitmap": "len(fs.content) == 64 and bit(fs.content, self.base_addr // 4194304)",
        "others_stay_registered": "implies(g in fs.g_live, bit(fs.content, g))",
        "lock_released": "not fs.g_locked",
    },
    modifies=None,
    canaries={"always_the_first_number": "self.base_addr == 4194304"})


def _registered(extra=""):
    return ("1 <= self.g_mine and self.g_mine < 512 and self.base_addr // 4194304 == self.g_mine "
            "and self.base_addr >= 0 and self.base_addr % 4096 == 0" + extra)


fmmu_next = Contract(
    FMMULock.get_next_addr,
    params=dict(self=T.Obj(FMMULock, base_addr=T.Int, g_mine=T.Int)),
    requires={"registered": _registered()},
    raises=[Raises(RuntimeError, when="(self.base_addr + 4096) // 4194304 != self.g_mine")],
    ensures={
        "stays_in_the_window_of_this_process":
            "window(self.g_mine)[0] <= result and result + 4096 <= window(self.g_mine)[1]",
        "a_fresh_packet_window": "result == old.self.base_addr + 4096 and self.base_addr == result",
        "still_registered": "self.base_addr // 4194304 == self.g_mine and self.base_addr % 4096 == 0",
    },
    modifies=["self.base_addr"],
    canaries={"window_of_the_next_process": "result >= window(self.g_mine)[1]"})

fmmu_remove = Contract(
    FMMULock.remove,
    params=dict(self=T.Obj(FMMULock, base_addr=T.Int, g_mine=T.Int, fd=T.Const(9)),
                fs=T.Obj(FS, **dict(FS_PARAMS, exists=T.Const(True))), g=T.Range(1, 511)),
    requires={"registered": _registered(), "another_participant": "g != self.g_mine"},
    ensures={
        "own_bit_cleared": "not bit(fs.content, self.g_mine)",
        "others_stay_registered": "implies(g in fs.g_live, bit(fs.content, g))",
        "lock_released": "not fs.g_locked",
    },
    modifies=None,
    canaries={"clears_a_neighbour": "implies(g in fs.g_live, not bit(fs.content, g))"})


ASSUMPTIONS = [
    "POSIX atomic actions: open(O_CREAT|O_EXCL) creates the file iff it does not exist; lockf(LOCK_EX) returns only "
    "when no other process holds a lock on the range; pread/pwrite/ftruncate act on the file contents as specified",
    "rely: every other participant reads and writes the bitmap only while holding the lock and re-establishes the "
    "invariant RI before unlocking (this is the guarantee proved here for the one participant, applied to all by "
    "symmetry: all participants run the same code)",
    "a participant that crashes keeps its address number marked (its window is lost, never shared); termination of "
    "the search for a free number (random retries) is not proved",
]
BOUNDS = []


def verify_rest(api, rep, tier):
    pass
