"""C23 -- processes sharing an interface coordinate the dispatcher safely.

Rely/guarantee over ghost shared state.  The real functions are executed
symbolically for ONE participant; every file-system call is an atomic action
with an assumed contract (POSIX), and what the other participants may do in
between is the *rely*.  The obligations are
  - resource invariants: shared bytes are read and written only under the lock
    that protects them, and the invariant is re-established at every unlock
    (this participant's guarantee);
  - the clauses of the property as postconditions over the ghost state.

Part 1: the FMMU address bitmap (lock.FMMULock), file `/run/ebpf/<if>.fmmu`.
  ghost  fs.content   the bytes of the file
         fs.exists
         fs.g_live    the address numbers (1..511) of the *other* live participants
         g            an arbitrary address number: the clauses are proved for
                      every g, i.e. for every other participant
  resource invariant RI, protected by lockf over the whole file:
         len(content) in (0, 64); an empty file has no registered participant;
         every other live participant's bit is set
"""
import fcntl
import logging
import os
import random

import z3

from ebpfcat import lock as L
from ebpfcat.lock import FMMULock

from vc.pyvc import lib, ops
from vc.pyvc.api import REGISTRY, Contract, Loop, Raises, T, implies
from vc.pyvc.exec import Contract_, OutOfReach, PyRaise
from vc.pyvc.types import fresh
from vc.pyvc.values import BOOL, BYTES, INT, Obj, Sym, lift_bool, lift_bytes, lift_int, mk_bool, mkb


class FS:
    """ghost: the bitmap file"""


def bit(content, a):
    """bit number a of the bitmap (native definition, used by replays; the
    symbolic one is the model below)"""
    return (content[a // 8] >> (a % 8)) & 1 == 1


@lib.model(bit)
def _m_bit(ex, args, kw):
    content, a = args
    c, at = lift_bytes(content), lift_int(a)
    byte = z3.Select(ops.b_arr(c), at / 8)
    return mk_bool(z3.Or(*[z3.And(at % 8 == k, (byte / (1 << k)) % 2 == 1) for k in range(8)]))


def RI(fs, g):
    """the resource invariant, for the other participant with address number g"""
    return ((len(fs.content) == 0 or len(fs.content) == 64)
            and implies(g in fs.g_live, len(fs.content) == 64 and bit(fs.content, g)))


def window(addr):
    """the logical addresses of the process with address number addr"""
    return (addr * 4194304, (addr + 1) * 4194304)


# ------------------------------------------------------- atomic-action contracts
_SAVED = {}


def _clause(ex, expr, env, assume=False):
    """a spec expression of this module over ghost values, from model code"""
    from vc.pyvc.api import _as_term
    from vc.pyvc.exec import Env
    c = REGISTRY[ex.target]
    e = Env()
    e.vars.update(env)
    if assume:
        ex.assume(_as_term(c.assumed_clause(ex, expr, e)))
        return None
    return _as_term(c.eval_clause(ex, expr, e))


def _fs(ex):
    fs = ex.inputs.get("fs")
    if not isinstance(fs, Obj):
        raise OutOfReach("file-system call outside the C23 contracts")
    return fs


def m_makedirs(ex, args, kw):
    return None


def m_open(ex, args, kw):
    name, flags = args[0], args[1]
    fs = _fs(ex)
    if isinstance(flags, int) and flags & os.O_EXCL:
        if ex.fork(lift_bool(fs.fields["exists"]), "the bitmap file already exists"):
            raise PyRaise(ex.make_exc(FileExistsError))
        # O_CREAT|O_EXCL is atomic: the file appears, empty
        ex.assume(ops.b_len(lift_bytes(fs.fields["content"])) == 0)
        fs.fields["exists"] = True
        fs.fields["g_created_by_me"] = True
        return 9
    ex.check(f"{ex.target_short}.open.requires[the file exists]", lift_bool(fs.fields["exists"]),
             "os.open without O_CREAT of an existing file")
    return 9


def m_lockf(ex, args, kw):
    fd, cmd = args[0], args[1]
    fs = _fs(ex)
    ln = args[2] if len(args) > 2 else 0
    start = args[3] if len(args) > 3 else 0
    ex.check(f"{ex.target_short}.lockf.range[the whole bitmap]",
             mk_bool(z3.And(lift_int(ln) == 0, lift_int(start) == 0)),
             "the record lock covers the whole file")
    if isinstance(cmd, int) and cmd & fcntl.LOCK_UN:
        ex.check(f"{ex.target_short}.lockf.release.requires[lock held]", lift_bool(fs.fields["g_locked"]),
                 "unlock of a held lock")
        # this participant's guarantee: the invariant holds again, with the
        # other participants' bits as they were
        g = ex.inputs["g"]
        ex.check(f"{ex.target_short}.guarantee[the bitmap invariant is re-established at unlock]",
                 _clause(ex, "RI(fs, g)", {"fs": fs, "g": g}),
                 "RI(fs, g): the file has 64 bytes (or is still empty with nobody registered) and every other "
                 "live participant's bit is set")
        fs.fields["g_locked"] = False
        return None
    if not (isinstance(cmd, int) and cmd & fcntl.LOCK_EX) or (cmd & fcntl.LOCK_NB):
        raise OutOfReach(f"lockf command {cmd}")
    # blocking exclusive lock: when it returns no one else holds it; what the
    # others did to the file meanwhile satisfies their guarantee (rely)
    content = fresh(ex, T.Bytes, "bitmap_on_acquire")
    fs.fields["content"] = content
    fs.fields["g_locked"] = True
    g = ex.inputs["g"]
    _clause(ex, "RI(fs, g)", {"fs": fs, "g": g}, assume=True)
    me = ex.inputs.get("self")
    if isinstance(me, Obj) and "g_mine" in me.fields:
        # a registered participant: the others' guarantee keeps its bit as well
        _clause(ex, "len(fs.content) == 64 and bit(fs.content, mine)", {"fs": fs, "mine": me.fields["g_mine"]},
                assume=True)
    return None


def m_flock(ex, args, kw):
    """BSD flock: a lock of another kind - on Linux it neither excludes nor is
    excluded by the POSIX record locks (lockf) the other participants take, so
    it does not establish the resource invariant"""
    _fs(ex)
    return None


def _need_lock(ex, what):
    fs = _fs(ex)
    ex.check(f"{ex.target_short}.resource_invariant[the bitmap is {what} only under the file lock]",
             lift_bool(fs.fields["g_locked"]),
             f"the bitmap file is {what} while this participant holds lockf over it (another participant may "
             f"hold the lock and be in the middle of its allocation otherwise)")
    return fs


def m_pread(ex, args, kw):
    fd, n, off = args
    fs = _need_lock(ex, "read")
    c = fs.fields["content"]
    return ops.bslice(c, off, Sym(lift_int(off) + lift_int(n), INT))


def _store(ex, fs, data, off):
    """content[off : off+len(data)] = data, zero filled when beyond the end"""
    c = lift_bytes(fs.fields["content"])
    d = lift_bytes(data)
    o = lift_int(off)
    n, m = ops.b_len(c), ops.b_len(d)
    k = z3.Int("k!st")
    arr = z3.Lambda([k], z3.If(z3.And(k >= o, k < o + m), z3.Select(ops.b_arr(d), k - o),
                               z3.If(k < n, z3.Select(ops.b_arr(c), k), 0)))
    fs.fields["content"] = Sym(mkb(arr, z3.If(o + m > n, o + m, n)), BYTES)
    return Sym(m, INT)


def m_pwrite(ex, args, kw):
    fd, data, off = args
    fs = _need_lock(ex, "written")
    return _store(ex, fs, data, off)


def m_write(ex, args, kw):
    fd, data = args
    fs = _need_lock(ex, "written")
    return _store(ex, fs, data, 0)         # the descriptor was just opened: position 0


def m_ftruncate(ex, args, kw):
    fd, n = args
    fs = _need_lock(ex, "written")
    c = lift_bytes(fs.fields["content"])
    nt = lift_int(n)
    k = z3.Int("k!tr")
    arr = z3.Lambda([k], z3.If(k < ops.b_len(c), z3.Select(ops.b_arr(c), k), 0))
    fs.fields["content"] = Sym(mkb(arr, nt), BYTES)
    return None


def m_close(ex, args, kw):
    return None


def m_randrange(ex, args, kw):
    lo, hi = (0, args[0]) if len(args) == 1 else args[:2]
    v = fresh(ex, T.Int, "randrange")
    ex.assume(z3.And(v.t >= lift_int(lo), v.t < lift_int(hi)))
    return v


def m_warn(ex, args, kw):
    return None


_MODELS = [(os.makedirs, m_makedirs), (os.open, m_open), (fcntl.lockf, m_lockf), (fcntl.flock, m_flock), (os.pread, m_pread),
           (os.pwrite, m_pwrite), (os.write, m_write), (os.ftruncate, m_ftruncate), (os.close, m_close),
           (random.randrange, m_randrange), (L.randrange, m_randrange), (logging.warn, m_warn),
           (logging.warning, m_warn)]


def install():
    for fn, m in _MODELS:
        _SAVED[id(fn)] = lib.MODELS.get(id(fn))
        lib.MODELS[id(fn)] = (fn, m)


def uninstall():
    for fn, m in _MODELS:
        old = _SAVED.pop(id(fn), None)
        if old is None:
            lib.MODELS.pop(id(fn), None)
        else:
            lib.MODELS[id(fn)] = old


FS_PARAMS = dict(exists=T.Bool, content=T.Bytes, g_live=T.IntSet(), g_locked=T.Const(False),
                 g_created_by_me=T.Const(False))

fmmu_init = Contract(
    FMMULock.__init__,
    params=dict(self=T.Obj(FMMULock), filename=T.Const("/run/ebpf/eth0.fmmu"), fs=T.Obj(FS, **FS_PARAMS),
                g=T.Range(1, 511)),
    requires={"others_keep_the_invariant": "implies(not fs.exists, not (g in fs.g_live))"},
    loops={1: Loop(invariant={"candidate_in_range": "1 <= addr and addr < 512",
                              "map_is_complete": "len(addrmap) == 64"},
                   modifies={"addr": T.Int})},
    ensures={
        "an_address_number_of_its_own":
            "1 <= self.base_addr // 4194304 and self.base_addr // 4194304 < 512 "
            "and self.base_addr % 4194304 == 0",
        "not_the_number_of_any_other_live_participant":
            "implies(g in fs.g_live, self.base_addr // 4194304 != g)",
        "registered_in_the_bitmap": "len(fs.content) == 64 and bit(fs.content, self.base_addr // 4194304)",
        "others_stay_registered": "implies(g in fs.g_live, bit(fs.content, g))",
        "lock_released": "not fs.g_locked",
    },
    modifies=None,
    canaries={"always_the_first_number": "self.base_addr == 4194304"})


def _registered(extra=""):
    return ("1 <= self.g_mine and self.g_mine < 512 and self.base_addr // 4194304 == self.g_mine "
            "and self.base_addr >= 0 and self.base_addr % 4096 == 0" + extra)


fmmu_next = Contract(
    FMMULock.get_next_addr,
    params=dict(self=T.Obj(FMMULock, base_addr=T.Int, g_mine=T.Int)),
    requires={"registered": _registered()},
    # the refusal leaves the object registered where it was: remove() later
    # clears the bit of base_addr's window, which must still be this process's
    raises=[Raises(RuntimeError, when="(self.base_addr + 4096) // 4194304 != self.g_mine",
                   ensures={"still_registered_after_the_refusal":
                            "self.base_addr // 4194304 == self.g_mine and self.base_addr % 4096 == 0"})],
    ensures={
        "stays_in_the_window_of_this_process":
            "window(self.g_mine)[0] <= result and result + 4096 <= window(self.g_mine)[1]",
        "a_fresh_packet_window": "result == old.self.base_addr + 4096 and self.base_addr == result",
        "still_registered": "self.base_addr // 4194304 == self.g_mine and self.base_addr % 4096 == 0",
    },
    modifies=["self.base_addr"],
    canaries={"window_of_the_next_process": "result >= window(self.g_mine)[1]"})

fmmu_remove = Contract(
    FMMULock.remove,
    params=dict(self=T.Obj(FMMULock, base_addr=T.Int, g_mine=T.Int, fd=T.Const(9)),
                fs=T.Obj(FS, **dict(FS_PARAMS, exists=T.Const(True))), g=T.Range(1, 511)),
    requires={"registered": _registered(), "another_participant": "g != self.g_mine"},
    ensures={
        "own_bit_cleared": "not bit(fs.content, self.g_mine)",
        "others_stay_registered": "implies(g in fs.g_live, bit(fs.content, g))",
        "lock_released": "not fs.g_locked",
    },
    modifies=None,
    canaries={"clears_a_neighbour": "implies(g in fs.g_live, not bit(fs.content, g))"})


# =============================================================================
# Part 2 and 3: ParallelEtherCat.get_ethertype and the start/stop protocol of
# ParallelEtherCat.run.
#
# Ghost shared state `w` (what all participants see):
#   w.dir      the lock directory /run/lock/ebpf.<if>.lock exists
#   w.others   number of OTHER participants with a lock file in it (registered)
#   w.taken    the ethertypes (lock-file names) of those
#   w.inst     another participant is the installer right now (between its
#              successful rename and its obj_pin)
#   w.pin      id of the program map pinned at /sys/fs/bpf/<if>/programs (0: none)
#   w.att      id of the program map the attached dispatcher uses (0: none attached)
#   w.me_reg / w.me_inst   this participant is registered / is the installer
# INV is the global invariant every participant must preserve with each of its
# atomic actions (guarantee); between any two actions of this participant the
# others may change the shared state in any way that keeps INV and the stable
# facts S1-S3 below (rely).
import shutil
import tempfile

import ebpfcat.ebpfcat as EC
from ebpfcat.ebpfcat import ParallelEtherCat


class World:
    """ghost: lock directory, pin and attached dispatcher"""


class GhostFile:
    """what open(path, 'x') returns"""

    def __enter__(self):
        return self

    def __exit__(self, a, b, c):
        return False

    def write(self, s):
        return None


def INV(w):
    return (w.others >= 0 and w.pin >= 0 and w.att >= 0
            and implies(w.others > 0, w.dir) and implies(w.me_reg, w.dir)
            and implies(w.inst, w.dir and w.others > 0 and not w.me_inst)
            and implies(not w.dir, w.pin == 0 and w.att == 0)
            and implies(w.dir and not w.inst and not w.me_inst, w.att != 0 and w.pin == w.att))


def _w(ex):
    w = ex.inputs.get("w")
    if not isinstance(w, Obj):
        raise OutOfReach("call outside the C23 start/stop contracts")
    return w


def interfere(ex, frame=None, node=None):
    """the rely: any number of atomic actions of the other participants"""
    w = _w(ex)
    f = w.fields
    old = {k: f[k] for k in ("dir", "others", "inst", "pin", "att")}
    f["dir"] = fresh(ex, T.Bool, "dir'")
    f["others"] = fresh(ex, T.Range(0, None), "others'")
    f["inst"] = fresh(ex, T.Bool, "inst'")
    f["pin"] = fresh(ex, T.Range(0, None), "pin'")
    f["att"] = fresh(ex, T.Range(0, None), "att'")
    f["taken"] = fresh(ex, T.IntSet(), "taken'")
    _clause(ex, "INV(w)", {"w": w}, assume=True)
    same = z3.And(lift_int(f["pin"]) == lift_int(old["pin"]), lift_int(f["att"]) == lift_int(old["att"]))
    if f["me_reg"]:
        # S1: a directory that holds my lock file is neither removed nor
        # replaced, so nobody else becomes the installer; my name stays mine
        ex.assume(lift_bool(f["dir"]))
        ex.assume(z3.Implies(lift_bool(f["inst"]), lift_bool(old["inst"])))
        if f["g_my_name"] is not None:
            ex.assume(z3.Not(z3.Select(f["taken"].arr, lift_int(f["g_my_name"]))))
    if f["me_inst"]:
        # S3: the installer alone changes the dispatcher
        ex.assume(z3.And(z3.Not(lift_bool(f["inst"])), same))
    elif f["me_reg"]:
        # S2: registered, no installer active: the dispatcher is left alone
        ex.assume(z3.Implies(z3.Not(lift_bool(old["inst"])), same))


def _guarantee(ex, what):
    """after one of this participant's actions on the shared state"""
    w = _w(ex)
    ex.check(f"{ex.target_short}.guarantee[the invariant of the shared state holds after {what}]",
             _clause(ex, "INV(w)", {"w": w}),
             "INV(w): nothing is installed while the lock directory does not exist; while it exists and nobody "
             "is installing, a dispatcher is attached and its program map is the pinned one")


def _dispatcher_action(ex, what):
    w = _w(ex)
    f = w.fields
    if f["me_inst"]:
        return
    ex.check(f"{ex.target_short}.guarantee[the dispatcher is changed only by the installer or while no "
             f"participant is registered]@{what}",
             mk_bool(z3.And(lift_int(f["others"]) == 0, z3.Not(lift_bool(f["inst"])))),
             f"{what}: no other participant is registered at this instant")


def _path(p):
    """(kind, symbolic name or None) of a path value"""
    from vc.pyvc.exec import OpaqueStr
    flat = p.flat() if isinstance(p, OpaqueStr) else [p]
    text = "".join(x if isinstance(x, str) else str(x) if isinstance(x, int) and not isinstance(x, bool) else "\0"
                   for x in flat)
    syms = [x for x in flat if isinstance(x, Sym)]
    if text.startswith("TMPDIR"):
        return ("tmpfile" if "/" in text else "tmpdir"), (syms[0] if syms else None)
    if text.startswith("/run/lock/ebpf.") and text.endswith(".lock") and "/" not in text[len("/run/lock/"):]:
        return "lockdir", None
    if text.startswith("/run/lock/ebpf.") and text.endswith(".lock"):
        return "lockfile", (syms[0] if syms else None)
    if text.startswith("/sys/fs/bpf/") and text.endswith("/programs"):
        return "pin", None
    if text.startswith("/sys/fs/bpf/"):
        return "bpfdir", None
    raise OutOfReach(f"path {text!r} outside the C23 contracts")


def m_getpid(ex, args, kw):
    return 4242


def m_mkdtemp(ex, args, kw):
    return "TMPDIR"


def m_exists(ex, args, kw):
    kind, name = _path(args[0])
    if kind == "tmpfile":
        return False
    if kind != "lockfile":
        raise OutOfReach(f"os.path.exists of a {kind}")
    interfere(ex)
    f = _w(ex).fields
    return mk_bool(z3.And(lift_bool(f["dir"]), z3.Select(f["taken"].arr, lift_int(name))))


def m_open_x(ex, args, kw):
    path, mode = args[0], args[1] if len(args) > 1 else "r"
    if mode not in ("x", "w"):
        raise OutOfReach(f"open mode {mode}")
    kind, name = _path(path)
    w = _w(ex)
    f = w.fields
    if kind == "tmpfile":
        f["g_tmp_name"] = name          # a private directory: the name is free
        return Obj(GhostFile, {}, "lf")
    if kind != "lockfile":
        raise OutOfReach(f"open('x') of a {kind}")
    interfere(ex)
    if ex.fork(z3.Not(lift_bool(f["dir"])), "the lock directory has gone"):
        raise PyRaise(ex.make_exc(FileNotFoundError))
    if mode == "x" and ex.fork(z3.Select(f["taken"].arr, lift_int(name)),
                               "another participant has a lock file of that name"):
        raise PyRaise(ex.make_exc(FileExistsError))
    # mode "w" opens (and truncates) an existing file of that name as well
    f["me_reg"] = True
    f["g_my_name"] = name
    _guarantee(ex, "creating the lock file")
    return Obj(GhostFile, {}, "lf")


def m_rename(ex, args, kw):
    src, dst = args
    if (_path(src)[0], _path(dst)[0]) != ("tmpdir", "lockdir"):
        raise OutOfReach("rename outside the contract")
    interfere(ex)
    w = _w(ex)
    f = w.fields
    # rename(2) over a directory succeeds iff the target does not exist or is empty
    ok = z3.Or(z3.Not(lift_bool(f["dir"])), lift_int(f["others"]) == 0)
    if not ex.fork(ok, "the lock directory does not exist or is empty"):
        raise PyRaise(ex.make_exc(OSError))
    ex.check(f"{ex.target_short}.at_most_one_installer[no other participant is installing when the rename succeeds]",
             mk_bool(z3.Not(lift_bool(f["inst"]))),
             "I1: a successful rename makes this participant the only installer")
    # the renamed directory must already hold this participant's lock file:
    # an empty lock directory can be renamed over by the next starter, who would
    # then be a second installer (and removed by a leaver's rmdir)
    ex.check(f"{ex.target_short}.at_most_one_installer[the renamed directory already holds this participant's "
             f"lock file]", z3.BoolVal(f["g_tmp_name"] is not None),
             "get_ethertype(tmpdir) comes before os.rename(tmpdir, lockdir): the lock directory is never empty "
             "while its installer works")
    f["dir"] = True
    f["me_reg"] = f["g_tmp_name"] is not None
    f["me_inst"] = True
    f["g_installer"] = True
    f["g_my_name"] = f["g_tmp_name"]
    f["taken"] = fresh(ex, T.IntSet(), "taken_empty")
    k = z3.Int("k!taken")
    ex.assume(z3.ForAll([k], z3.Not(z3.Select(f["taken"].arr, k))))
    return None


def m_rmtree(ex, args, kw):
    kind, _ = _path(args[0])
    if kind == "tmpdir":
        return None
    raise OutOfReach("shutil.rmtree of the lock directory (failure of connect/attach/pin is not under contract)")


def m_remove(ex, args, kw):
    kind, name = _path(args[0])
    w = _w(ex)
    f = w.fields
    interfere(ex)
    if kind == "pin":
        _dispatcher_action(ex, "os.remove(programs)")
        if ex.fork(lift_int(f["pin"]) == 0, "no pinned program map"):
            raise PyRaise(ex.make_exc(FileNotFoundError))
        f["pin"] = 0
        _guarantee(ex, "removing the pin")
        return None
    if kind == "lockfile":
        ex.check(f"{ex.target_short}.removes_its_own_lock_file",
                 mk_bool(z3.And(z3.BoolVal(bool(f["me_reg"])), lift_int(name) == lift_int(f["g_my_name"]))),
                 "the lock file removed is the one this participant created")
        f["me_reg"] = False
        _guarantee(ex, "removing the lock file")
        return None
    raise OutOfReach(f"os.remove of a {kind}")


def m_rmdir(ex, args, kw):
    if _path(args[0])[0] != "lockdir":
        raise OutOfReach("rmdir outside the contract")
    interfere(ex)
    w = _w(ex)
    f = w.fields
    ok = z3.And(lift_bool(f["dir"]), lift_int(f["others"]) == 0, z3.BoolVal(not f["me_reg"]))
    mode = ex.opt.get("last_leaver")
    if mode is True:
        ex.assume(ok)
    elif mode is False:
        ex.assume(z3.Not(ok))
    if not ex.fork(ok, "the lock directory is empty"):
        raise PyRaise(ex.make_exc(OSError))
    f["dir"] = False
    f["g_last"] = True
    _guarantee(ex, "removing the lock directory")
    return None


def m_create_map(ex, args, kw):
    w = _w(ex)
    m = fresh(ex, T.Range(1, None), "new_map")
    ex.assume(z3.And(m.t != lift_int(w.fields["pin"]), m.t != lift_int(w.fields["att"])))
    return m


def m_obj_get(ex, args, kw):
    if _path(args[0])[0] != "pin":
        raise OutOfReach("obj_get outside the contract")
    interfere(ex)
    f = _w(ex).fields
    if ex.fork(lift_int(f["pin"]) == 0, "nothing is pinned"):
        raise PyRaise(ex.make_exc(FileNotFoundError))
    # region predicate of a recorded finding: the table is fetched while
    # another participant is in the middle of its installation
    mode = ex.opt.get("join_during_install")
    if mode is True:
        ex.assume(lift_bool(f["inst"]))
    elif mode is False:
        ex.assume(z3.Not(lift_bool(f["inst"])))
    return f["pin"]


def m_obj_pin(ex, args, kw):
    if _path(args[0])[0] != "pin":
        raise OutOfReach("obj_pin outside the contract")
    interfere(ex)
    f = _w(ex).fields
    _dispatcher_action(ex, "obj_pin(programs)")
    if ex.fork(lift_int(f["pin"]) != 0, "a pin exists already"):
        raise PyRaise(ex.make_exc(FileExistsError))
    f["pin"] = args[1]
    f["me_inst"] = False                # the installer's window ends here
    _guarantee(ex, "pinning the program map (end of the installation)")
    return None


class Connect(Contract_):
    """EtherCat.connect: binds the socket to (interface, self.ethertype)"""
    inline = False
    loops = {}

    def apply(self, ex, args, kwargs, frame, node):
        me = args[0]
        _w(ex).fields["g_bound"] = me.fields.get("ethertype", getattr(me.cls, "ethertype", None))
        return None


class Attach(Contract_):
    inline = False
    loops = {}

    def apply(self, ex, args, kwargs, frame, node):
        interfere(ex)
        f = _w(ex).fields
        _dispatcher_action(ex, "attach")
        f["att"] = args[0].fields["programs"]
        _guarantee(ex, "attaching the dispatcher")
        return None


class Detach(Contract_):
    inline = False
    loops = {}

    def apply(self, ex, args, kwargs, frame, node):
        interfere(ex)
        f = _w(ex).fields
        _dispatcher_action(ex, "detach")
        f["att"] = 0
        _guarantee(ex, "detaching the dispatcher")
        return None


class Nop(Contract_):
    inline = False
    loops = {}

    def apply(self, ex, args, kwargs, frame, node):
        return None


class RemoveShared(Contract_):
    """LockFile.remove: deletes the mailbox lock file all participants share"""
    inline = False
    loops = {}

    def apply(self, ex, args, kwargs, frame, node):
        interfere(ex)
        _dispatcher_action(ex, "LockFile.remove")
        return None


_MODELS += [(os.path.exists, m_exists), (os.getpid, m_getpid), (tempfile.mkdtemp, m_mkdtemp), (open, m_open_x), (os.rename, m_rename), (shutil.rmtree, m_rmtree),
            (os.remove, m_remove), (os.rmdir, m_rmdir), (EC.create_map, m_create_map), (EC.obj_get, m_obj_get),
            (EC.obj_pin, m_obj_pin)]

_STUBS = {
    "ebpfcat.ethercat:EtherCat.connect": Connect(),
    "ebpfcat.xdp:XDP.attach": Attach(),
    "ebpfcat.xdp:XDP.detach": Detach(),
    "ebpfcat.ebpf:EBPF.close": Nop(),
    "ebpfcat.xdp:XDP.__init__": Nop(),
    "ebpfcat.lock:LockFile.__init__": Nop(),
    "ebpfcat.lock:FMMULock.__init__": Nop(),
    "ebpfcat.lock:FMMULock.remove": Nop(),
    "ebpfcat.lock:LockFile.remove": RemoveShared(),
}

W_PARAMS = dict(dir=T.Bool, others=T.Range(0, None), inst=T.Bool, pin=T.Range(0, None), att=T.Range(0, None),
                taken=T.IntSet(), me_reg=T.Const(False), me_inst=T.Const(False), g_my_name=T.Const(None),
                g_tmp_name=T.Const(None), g_bound=T.Const(None), g_installer=T.Const(False),
                g_last=T.Const(False))

PEC = dict(ethertype=T.Range(0, 0xffff), addr=T.Const(("eth0", 0x88A4)), sync_groups=T.Const({}),
           terminal_addr_range=T.Const((0, 100)))

def get_ethertype():
  return Contract(
    ParallelEtherCat.get_ethertype,
    params=dict(self=T.Obj(ParallelEtherCat, **PEC), lockdir=T.Const("/run/lock/ebpf.eth0.lock"),
                w=T.Obj(World, **W_PARAMS)),
    requires={"invariant": "INV(w)"},
    loops={1: Loop(invariant={"not_registered_yet": "not w.me_reg", "invariant": "INV(w)"},
                   modifies={"self.ethertype": T.Range(0, 0xffff), "lockfile": T.Int, "w.dir": T.Bool,
                             "w.others": T.Range(0, None), "w.inst": T.Bool, "w.pin": T.Range(0, None),
                             "w.att": T.Range(0, None), "w.taken": T.IntSet()})},
    raises=[Raises(FileNotFoundError, iff=False)],
    options={"inline": {"contracts.c23_parallel:GhostFile.__enter__", "contracts.c23_parallel:GhostFile.__exit__",
                        "contracts.c23_parallel:GhostFile.write"}},
    ensures={"an_ethertype_no_other_participant_has": "w.me_reg and not (self.ethertype in w.taken) "
                                                      "and w.g_my_name == self.ethertype"},
    modifies=None,
    canaries={"keeps_the_default_ethertype": "self.ethertype == old.self.ethertype"})


def get_ethertype_private():
  return Contract(
    ParallelEtherCat.get_ethertype, name="ParallelEtherCat.get_ethertype<private directory>",
    params=dict(self=T.Obj(ParallelEtherCat, **PEC), lockdir=T.Const("TMPDIR"), w=T.Obj(World, **W_PARAMS)),
    requires={"invariant": "INV(w)"},
    loops={},
    ensures={"keeps_its_ethertype_in_a_fresh_directory":
             "self.ethertype == old.self.ethertype and w.g_tmp_name == self.ethertype and not w.me_reg"},
    modifies=None,
    options={"inline": {"contracts.c23_parallel:GhostFile.__enter__", "contracts.c23_parallel:GhostFile.__exit__",
                        "contracts.c23_parallel:GhostFile.write"}})


class GetEthertype(Contract_):
    """get_ethertype by the two contracts proved above"""
    inline = False
    loops = {}

    def apply(self, ex, args, kwargs, frame, node):
        me, lockdir = args
        w = _w(ex)
        f = w.fields
        kind, _ = _path(lockdir)
        if kind == "tmpdir":
            f["g_tmp_name"] = me.fields["ethertype"]
            from vc.pyvc.exec import OpaqueStr
            return OpaqueStr([me.fields["ethertype"], ".lock"])
        if kind != "lockdir":
            raise OutOfReach("get_ethertype of another directory")
        ex.check(f"call[ParallelEtherCat.get_ethertype].requires[invariant]@{ex.target_short}",
                 _clause(ex, "INV(w)", {"w": w}), "INV(w)")
        interfere(ex)
        if ex.fork(z3.Not(lift_bool(f["dir"])), "the lock directory has gone"):
            raise PyRaise(ex.make_exc(FileNotFoundError))
        e = fresh(ex, T.Range(0, 0xffff), "ethertype'")
        me.fields["ethertype"] = e
        ex.assume(z3.Not(z3.Select(f["taken"].arr, e.t)))
        f["me_reg"] = True
        f["g_my_name"] = e
        from vc.pyvc.exec import OpaqueStr
        return OpaqueStr([e, ".lock"])


def run_contract(last_leaver, join_during_install=False):
    tag = "joins during an installation" if join_during_install else \
        "last to leave" if last_leaver else "others stay"
    return Contract(
        ParallelEtherCat.run, name=f"ParallelEtherCat.run<{tag}>",
        params=dict(self=T.Obj(ParallelEtherCat, **PEC), w=T.Obj(World, **W_PARAMS)),
        requires={"invariant": "INV(w)"},
        raises=[Raises(FileNotFoundError, iff=False)],
        cm=dict(
            enter={
                "registered_under_an_ethertype_of_its_own":
                    "w.me_reg and w.dir and not (self.ethertype in w.taken) and w.g_my_name == self.ethertype "
                    "and w.g_bound == self.ethertype",
                "dispatcher_installed_and_its_table_reachable":
                    "implies(not w.inst, w.att != 0 and w.pin == w.att and self.programs == w.att)",
            },
            between="interfere_spec(w)",
            exit={
                # `mid` is the state after the others acted while this participant was running
                "dispatcher_and_table_stay_reachable_while_running":
                    "implies(not mid.w.inst, mid.w.att != 0 and mid.w.pin == mid.w.att "
                    "and mid.self.programs == mid.w.att)",
                "deregistered": "not w.me_reg",
                "dispatcher_stays_for_the_others":
                    "implies(w.others > 0 and not w.inst, w.att != 0 and w.pin == w.att)",
            },
            exit_modes=("normal", "exception"),
        ),
        modifies=None,
        options={"rely": interfere, "last_leaver": last_leaver, "join_during_install": join_during_install,
                 },
        canaries={"always_the_installer": "w.g_installer"})


def interfere_spec(w):
    return None


@lib.model(interfere_spec)
def _m_interfere_spec(ex, args, kw):
    interfere(ex)
    return None


ASSUMPTIONS = [
    "POSIX atomic actions of the start/stop protocol: rename(2) of a directory succeeds iff the target does not exist "
    "or is an empty directory; rmdir succeeds iff the directory is empty; open(..., 'x') fails iff the name exists; "
    "BPF_OBJ_PIN fails if the path exists, BPF_OBJ_GET if it does not; attaching replaces the attached program",
    "rely of the start/stop protocol (contracts/c23_parallel.py, interfere): the other participants keep INV and "
    "(S1) neither remove nor replace a lock directory that holds this participant's lock file, (S2) leave the "
    "dispatcher alone while a participant is registered and nobody installs, (S3) do not touch it while this "
    "participant installs.  By symmetry this is the guarantee checked for the one participant; where the real code "
    "does not satisfy it the obligation fails (two recorded findings)",
    "failure of connect / attach / obj_pin during the installation (the shutil.rmtree(lockdir) path) and crashes of "
    "participants are not under contract",
    "POSIX atomic actions: open(O_CREAT|O_EXCL) creates the file iff it does not exist; lockf(LOCK_EX) returns only "
    "when no other process holds a lock on the range; pread/pwrite/ftruncate act on the file contents as specified",
    "rely: every other participant reads and writes the bitmap only while holding the lock and re-establishes the "
    "invariant RI before unlocking (this is the guarantee proved here for the one participant, applied to all by "
    "symmetry: all participants run the same code)",
    "a participant that crashes keeps its address number marked (its window is lost, never shared); termination of "
    "the search for a free number (random retries) is not proved",
]
BOUNDS = ["the number of participants is unbounded (the others are the rely); every obligation concerns the "
          "actions of one participant between arbitrary actions of the others"]


def install_stubs():
    _STUBS["ebpfcat.ebpfcat:ParallelEtherCat.get_ethertype"] = GetEthertype()
    for k, v in _STUBS.items():
        _SAVED["stub:" + k] = REGISTRY.get(k)
        REGISTRY[k] = v


def uninstall_stubs():
    for k in _STUBS:
        old = _SAVED.pop("stub:" + k, None)
        if old is None:
            REGISTRY.pop(k, None)
        else:
            REGISTRY[k] = old
