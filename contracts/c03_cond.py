"""C03 -- conditional blocks run exactly the branch the condition selects.

Stage A programs: `with cond [as Else]: m_body = 1  [with Else: m_else = 1]
m_after = 1`, plus nested and sequenced constructs, over condition trees of
depth <= 2.  Markers are one-byte locals; the spec (vc/dsl.py Cmp/Truth/Bits/
Not/Junction .spec) is written from the property: body iff the condition is
true, Else iff false, execution always continues, whenever the compared values
fit the narrowest width involved.
"""
from vc.dsl import Bin, Bits, Cmp, Const, Junction, Loc, Not, Reg, Truth


def operands(tier):
    base = [Reg("r", 2), Reg("sr", 3), Loc("q"), Loc("I"), Loc("i"), Loc("B"), Loc("b"),
            Const(5), Const(-3)]
    if tier != "quick":
        base += [Loc("Q"), Loc("H"), Loc("h"), Const((1 << 40) + 7)]
    return base


def atoms(tier):
    out = []
    ops = operands(tier)
    for op in Cmp.OPS:
        for l in ops:
            for r in ops:
                if isinstance(l, Const) and isinstance(r, Const):
                    continue
                out.append(Cmp(op, l, r))
    # fixed-point operands against integer and fixed-point ones
    fx = [Reg("x", 4), Loc("x"), Const(2.5), Const(-0.5)]
    others = [Reg("r", 2), Reg("sr", 3), Reg("w", 5), Reg("sw", 5), Loc("q"), Loc("i"), Loc("I"), Const(5),
              Const(-3)] + fx
    for op in Cmp.OPS:
        for f in fx:
            for o in others:
                for l, r in ((f, o), (o, f)):
                    if isinstance(l, Const) and isinstance(r, Const) or l is r:
                        continue
                    out.append(Cmp(op, l, r))
    out += [Truth(Bin("&", Loc("B"), Const(0x10))), Truth(Bin("&", Loc("I"), Const(0x8001))),
            Truth(Bin("&", Reg("r", 2), Loc("Q"))), Truth(Loc("I")), Truth(Reg("sr", 3)),
            Bits(3, 1, "f_bit"), Bits(3, 1, "f_bit", negated=True), Bits(2, 3, "f_multi"),
            Bits(2, 3, "f_multi", equals=5)]
    return out


def combos():
    a = Cmp("<", Reg("sr", 3), Loc("q"))
    b = Cmp("==", Loc("I"), Const(5))
    c = Bits(3, 1, "f_bit")
    d = Truth(Bin("&", Loc("B"), Const(0x10)))
    e = Cmp(">=", Loc("b"), Const(-3))
    J = Junction
    return [J(True, a, b), J(False, a, b), Not(a), Not(b), J(True, a, c), J(False, c, d), J(True, d, e),
            J(False, J(True, a, b), c), J(True, J(False, a, b), e), Not(J(True, a, b)), Not(J(False, a, c)),
            J(True, a, Not(b)), J(False, Not(c), d), J(True, J(True, a, b), J(False, c, e)),
            J(False, J(True, a, c), J(True, b, d)), J(True, Not(d), Not(e)), J(True, c, d), J(False, d, c),
            Not(d), Not(Not(a)), J(True, Not(c), a), J(False, e, Not(d))]


def programs(tier):
    """[(label, kind, conds)]  kind in simple / else / nested / sequence"""
    out = []
    for c in atoms(tier) + combos():
        out.append(("if", [c]))
        out.append(("ifelse", [c]))
        out.append(("ifelse_empty", [c]))     # an Else block whose body generates no code
    cs = combos()
    a, b, c = Cmp("<", Reg("sr", 3), Loc("q")), Cmp("==", Loc("I"), Const(5)), Bits(3, 1, "f_bit")
    for x, y in [(a, b), (b, c), (c, a), (cs[0], c), (a, cs[5])]:
        out.append(("nested", [x, y]))
        out.append(("sequence", [x, y]))
        out.append(("nested_empty", [x, y]))
    return out


def build(kind, conds):
    from ebpfcat.ebpf import EBPF, LocalVar
    ns = {"license": "GPL"}
    names = {}
    for c in conds:
        for a in c.atoms():
            if isinstance(a, (Loc, Bits)) and a.name not in names:
                names[a.name] = a.fmt
    for m in range(6):
        names[f"m{m}"] = "B"
    for n, f in names.items():
        ns[n] = LocalVar(f)

    def program(self):
        self.owners |= {2, 3, 4, 5}
        if kind == "if":
            with conds[0].dsl(self):
                self.m0 = 1
            self.m2 = 1
        elif kind == "ifelse":
            with conds[0].dsl(self) as Else:
                self.m0 = 1
            with Else:
                self.m1 = 1
            self.m2 = 1
        elif kind == "ifelse_empty":
            with conds[0].dsl(self) as Else:
                self.m0 = 1
            with Else:
                pass
            self.m2 = 1
        elif kind == "nested_empty":
            with conds[0].dsl(self) as Else:
                self.m0 = 1
                with conds[1].dsl(self) as E2:
                    self.m3 = 1
                with E2:
                    pass
                self.m5 = 1
            with Else:
                self.m1 = 1
            self.m2 = 1
        elif kind == "nested":
            with conds[0].dsl(self) as Else:
                self.m0 = 1
                with conds[1].dsl(self) as E2:
                    self.m3 = 1
                with E2:
                    self.m4 = 1
                self.m5 = 1
            with Else:
                self.m1 = 1
            self.m2 = 1
        else:
            with conds[0].dsl(self):
                self.m0 = 1
            with conds[1].dsl(self) as E2:
                self.m3 = 1
            with E2:
                self.m4 = 1
            self.m2 = 1
        self.r0 = 0
        self.exit()
    ns["program"] = program
    P = type("P", (EBPF,), ns)
    p = P()
    code = p.assemble()
    return code, {n: getattr(P, n).relative_addr for n in names}


def expected(kind, truths):
    """marker index -> z3 Bool 'is set'"""
    import z3
    t0 = truths[0]
    T, F = z3.BoolVal(True), z3.BoolVal(False)
    if kind == "if":
        return {0: t0, 1: F, 2: T, 3: F, 4: F, 5: F}
    if kind == "ifelse":
        return {0: t0, 1: z3.Not(t0), 2: T, 3: F, 4: F, 5: F}
    if kind == "ifelse_empty":
        return {0: t0, 1: F, 2: T, 3: F, 4: F, 5: F}
    t1 = truths[1]
    if kind == "nested_empty":
        return {0: t0, 1: z3.Not(t0), 2: T, 3: z3.And(t0, t1), 4: F, 5: t0}
    if kind == "nested":
        return {0: t0, 1: z3.Not(t0), 2: T, 3: z3.And(t0, t1), 4: z3.And(t0, z3.Not(t1)), 5: t0}
    return {0: t0, 1: F, 2: T, 3: t1, 4: z3.Not(t1), 5: F}
