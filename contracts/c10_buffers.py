"""C10 -- user-space map calls never overrun Python buffers.

A pure precondition-at-call-site proof.  Ghost registry of the kernel's maps
(uninterpreted functions over file descriptors, filled by the postcondition of
bpf.create_map):  KS(fd) key size, VS(fd) value size, PC(fd) 1 for per-CPU
kinds else 0.  POSSIBLE is the machine's number of possible CPUs, about which
nothing is known but POSSIBLE >= 1.

bpf.bpf (the syscall wrapper) is the environment.  Its contract, from the
kernel ABI of BPF_MAP_LOOKUP_ELEM / UPDATE / DELETE / GET_NEXT_KEY /
LOOKUP_AND_DELETE:  the kernel reads KS(fd) bytes at the key pointer, and
reads/writes need(fd) = VS(fd) (or roundup8(VS) * POSSIBLE for per-CPU maps)
bytes at the value pointer, writes KS(fd) bytes at the next-key pointer.
Pointers are ghost objects that remember the length of the Python buffer they
were taken from (addrof / addressof(c_char.from_buffer(..))).

Layer 1: bpf._lookup_elem / update_elem / delete_elem / get_next_key are
proved against `requires` on the buffers they are given.
Layer 2: every caller in the package is proved to meet these `requires`, from
the class invariants that say which map a descriptor's fd refers to
(established by HashMap.init / Dict.init / create_map, proved here too).
"""
import ctypes
import struct

import z3

import ebpfcat.bpf as B
from ebpfcat.arraymap import PerCPUArrayMap, PerCPUReader
from ebpfcat.bpf import MapType
from ebpfcat.hashmap import Dict, HashGlobalVar, HashGlobalVarDesc, HashMap, TheDict

from vc.pyvc import lib
from vc.pyvc.api import REGISTRY, Contract, Loop, Raises, T, implies
from vc.pyvc.exec import Contract_, OutOfReach, PyRaise
from vc.pyvc.types import fresh
from vc.pyvc.values import INT, Obj, Sym, is_byteslike, lift_int, mk_bool

KS_F = z3.Function("key_size", z3.IntSort(), z3.IntSort())
VS_F = z3.Function("value_size", z3.IntSort(), z3.IntSort())
PC_F = z3.Function("per_cpu", z3.IntSort(), z3.IntSort())
POSSIBLE_T = z3.Int("possible_cpus")


# spec functions (native stand-ins are never called natively)
def KS(fd):
    return 0


def VS(fd):
    return 0


def PC(fd):
    return 0


def POSSIBLE():
    return 1


@lib.model(KS)
def _m_ks(ex, args, kw):
    return Sym(KS_F(lift_int(args[0])), INT)


@lib.model(VS)
def _m_vs(ex, args, kw):
    return Sym(VS_F(lift_int(args[0])), INT)


@lib.model(PC)
def _m_pc(ex, args, kw):
    return Sym(PC_F(lift_int(args[0])), INT)


@lib.model(POSSIBLE)
def _m_possible(ex, args, kw):
    ex.assume(POSSIBLE_T >= 1)
    return Sym(POSSIBLE_T, INT)


def need(fd):
    """bytes the kernel transfers at the value pointer of map fd"""
    return (VS(fd) + 7) // 8 * 8 * POSSIBLE() if PC(fd) == 1 else VS(fd)


def buflen(b):
    """length of a buffer argument: an int asks for a fresh buffer of that size"""
    return b if isinstance(b, int) else len(b)


# ------------------------------------------------------------ pointer ghosts
class Ptr:
    """address of a Python buffer, with the buffer's length"""


def _ptr(ex, buf):
    from vc.pyvc import ops
    from vc.pyvc.values import MutBytes
    if isinstance(buf, (bytes, bytearray)):
        n = len(buf)
    elif isinstance(buf, MutBytes) or is_byteslike(buf):
        n = Sym(ops.b_len(buf.t), INT)
    else:
        raise OutOfReach(f"address of {buf!r}")
    return Obj(Ptr, {"n": n}, ex.fresh_name("ptr"))


class Addrof(Contract_):
    inline = False
    loops = {}

    def apply(self, ex, args, kwargs, frame, node):
        return _ptr(ex, args[0])


@lib.model(ctypes.addressof)
def _m_addressof(ex, args, kw):
    return args[0]


class CChar:
    pass


@lib.model(ctypes.c_char.from_buffer)
def _m_from_buffer(ex, args, kw):
    return _ptr(ex, args[0])


class Syscall(Contract_):
    """bpf.bpf(cmd, fmt, *args): obligations of the kernel ABI"""
    inline = False
    loops = {}

    def apply(self, ex, args, kwargs, frame, node):
        cmd, fmt = args[0], args[1]
        rest = args[2:]
        where = ex.target_short

        def ptr_ok(p, size_term, what):
            if isinstance(p, int) and p == 0:
                return
            if not (isinstance(p, Obj) and p.cls is Ptr):
                raise OutOfReach(f"bpf(): {what} is not a buffer address: {p!r}")
            ex.check(f"{where}.bpf[{what} buffer covers what the kernel transfers]",
                     lift_int(p.fields["n"]) >= size_term,
                     f"len({what} buffer) >= {what} size of the map")
        if cmd in (1, 2, 21):          # lookup / update / lookup_and_delete
            fd, key, value, flags = rest
            f = lift_int(fd)
            ptr_ok(key, KS_F(f), "key")
            ex.assume(POSSIBLE_T >= 1)
            nd = z3.If(PC_F(f) == 1, (VS_F(f) + 7) / 8 * 8 * POSSIBLE_T, VS_F(f))
            ptr_ok(value, nd, "value")
        elif cmd == 3:                 # delete
            fd, key = rest
            ptr_ok(key, KS_F(lift_int(fd)), "key")
        elif cmd == 4:                 # get_next_key
            fd, key, nxt = rest
            ptr_ok(key, KS_F(lift_int(fd)), "key")
            ptr_ok(nxt, KS_F(lift_int(fd)), "next key")
        elif cmd == 0:                 # create
            mt, ks, vs, n, attrs = rest
            fdv = fresh(ex, T.Range(3, 1 << 20), "new_fd")
            f = fdv.t
            ex.assume(KS_F(f) == lift_int(ks))
            ex.assume(VS_F(f) == lift_int(vs))
            percpu = z3.Or(lift_int(mt) == MapType.PERCPU_HASH.value,
                           lift_int(mt) == MapType.PERCPU_ARRAY.value,
                           lift_int(mt) == MapType.LRU_PERCPU_HASH.value)
            ex.assume(PC_F(f) == z3.If(percpu, 1, 0))
            return (fdv, ())
        else:
            raise OutOfReach(f"bpf command {cmd}")
        k = ex.choose(3, "bpf(): ok / ENOENT / other error")
        if k == 0:
            return (0, ())
        e = ex.make_exc(OSError)
        e.fields["errno"] = 2 if k == 1 else 7
        raise PyRaise(e)


def install_layer1():
    REGISTRY["ebpfcat.bpf:bpf"] = Syscall()
    REGISTRY["ebpfcat.bpf:addrof"] = Addrof()


ANY_EXC = [Raises(KeyError, when=None), Raises(OSError, when=None), Raises(IndexError, when=None),
           Raises(StopIteration, when=None)]

lookup = Contract(
    B._lookup_elem,
    params=dict(cmd=T.OneOf(T.Const(1), T.Const(21)), fd=T.Range(0, 1 << 20), key=T.Bytes,
                fmt=T.OneOf(T.Range(0, None), T.Const("<I"), T.Const("B"), T.Const("H"), T.Const("I"),
                            T.Const("q"), T.Const("Q"), T.Const("i"))),
    requires={"key_buffer": "len(key) >= KS(fd)",
              "value_buffer": "(fmt if isinstance(fmt, int) else struct.calcsize(fmt)) >= need(fd)"},
    ensures={}, raises=ANY_EXC, modifies=None)

update = Contract(
    B.update_elem,
    params=dict(fd=T.Range(0, 1 << 20), key=T.Bytes, value=T.Bytes),
    requires={"key_buffer": "len(key) >= KS(fd)", "value_buffer": "len(value) >= need(fd)"},
    ensures={}, raises=ANY_EXC, modifies=None)

delete = Contract(
    B.delete_elem,
    params=dict(fd=T.Range(0, 1 << 20), key=T.Bytes),
    requires={"key_buffer": "len(key) >= KS(fd)"},
    ensures={}, raises=ANY_EXC, modifies=None)

next_key = Contract(
    B.get_next_key,
    params=dict(fd=T.Range(0, 1 << 20), key=T.OneOf(T.Range(0, None), T.Bytes)),
    requires={"key_buffer": "buflen(key) >= KS(fd)"},
    ensures={"returns_a_key_sized_buffer": "len(result) == buflen(key)"},
    raises=ANY_EXC, modifies=None, result=T.ByteArray(),
    canaries={"returns_an_empty_buffer": "len(result) == 0"})

create = Contract(
    B.create_map,
    params=dict(map_type=T.Enum(MapType), key_size=T.Range(1, None), value_size=T.Range(1, None),
                max_entries=T.Range(1, None)),
    ensures={"registry": "KS(result) == key_size and VS(result) == value_size and "
                         "PC(result) == (1 if map_type in (MapType.PERCPU_HASH, MapType.PERCPU_ARRAY, "
                         "MapType.LRU_PERCPU_HASH) else 0)"},
    modifies=None, result=T.Range(3, 1 << 20),
    canaries={"sizes_swapped": "KS(result) == value_size"})

lookup_elem = Contract(
    B.lookup_elem, params=dict(args=T.Tuple(T.Range(0, 1 << 20), T.Bytes, T.Range(0, None))),
    requires={"key_buffer": "len(args[1]) >= KS(args[0])",
              "value_buffer": "(args[2] if isinstance(args[2], int) else struct.calcsize(args[2])) >= need(args[0])"},
    ensures={"value_buffer_returned": "implies(isinstance(args[2], int), len(result) == args[2])"},
    raises=ANY_EXC, modifies=None, result=T.ByteArray(),
    options={"inline": {"ebpfcat.bpf:_lookup_elem"}})

lookup_and_delete_elem = Contract(
    B.lookup_and_delete_elem, params=dict(args=T.Tuple(T.Range(0, 1 << 20), T.Bytes, T.Range(0, None))),
    requires={"key_buffer": "len(args[1]) >= KS(args[0])",
              "value_buffer": "(args[2] if isinstance(args[2], int) else struct.calcsize(args[2])) >= need(args[0])"},
    ensures={}, raises=ANY_EXC, modifies=None, result=T.ByteArray(),
    options={"inline": {"ebpfcat.bpf:_lookup_elem"}})

LAYER1 = [lookup, update, delete, next_key, create, lookup_elem, lookup_and_delete_elem]


# ======================================================================
#                      Layer 2: the callers in the package
# ======================================================================
from ebpfcat.ebpf import EBPF, Member, Structure  # noqa: E402
from ebpfcat.ebpfcat import FastEtherCat, FastSyncGroup  # noqa: E402


import random  # noqa: E402


@lib.model(random.randrange)
def _m_randrange(ex, args, kw):
    v = fresh(ex, T.Int, "randrange")
    lo, hi = (0, args[0]) if len(args) == 1 else (args[0], args[1])
    ex.assume(z3.And(v.t >= lift_int(lo), v.t < lift_int(hi)))
    return v


def install_layer2():
    """callers see the Layer-1 functions through their contracts"""
    for c in LAYER1:
        REGISTRY[c.qualname] = c
    REGISTRY["ebpfcat.bpf:addrof"] = Addrof()
    REGISTRY["ebpfcat.arraymap:possible_cpus"] = PossibleCpus()


class ProgModel:
    """a loaded EBPF program object: only `loaded` and __dict__ are used"""


FMTS = ["B", "H", "I", "i", "q", "Q"]


def hash_map_inv(fd):
    """established by HashMap.init: hash variables live in a map with one-byte
    keys and eight-byte values"""
    return KS(fd) == 1 and VS(fd) == 8 and PC(fd) == 0


# helpers of the descriptor class itself are executed from their source
HELPERS = {"inline": {"ebpfcat.hashmap:HashGlobalVarDesc.key"}}


def hashvar_params(fmt):
    return dict(self=T.Obj(HashGlobalVarDesc, count=T.Range(1, 255), fmt=T.Const(fmt), name=T.Const("a"),
                           default=T.Const(0)),
                instance=T.Obj(ProgModel, loaded=T.Const(True),
                               a=T.Obj(HashGlobalVar, fd=T.Range(0, 1 << 20))))


def hashvar_get(fmt):
    p = hashvar_params(fmt)
    p["owner"] = T.Const(None)
    return Contract(HashGlobalVarDesc.__get__, name=f"HashGlobalVarDesc.__get__<{fmt}>", params=p,
                    requires={"class_invariant": "hash_map_inv(instance.a.fd)"},
                    ensures={}, raises=ANY_EXC, modifies=None, options=HELPERS)


def hashvar_set(fmt):
    p = hashvar_params(fmt)
    p["ebpf"] = p.pop("instance")
    p["value"] = T.Range(0, 100)
    return Contract(HashGlobalVarDesc.__set__, name=f"HashGlobalVarDesc.__set__<{fmt}>", params=p,
                    requires={"class_invariant": "hash_map_inv(ebpf.a.fd)"},
                    ensures={}, raises=ANY_EXC, modifies=None, options=HELPERS)


class Key4(Structure):
    a = Member("I")


class Key6(Structure):
    a = Member("I")
    b = Member("H")


class Val8(Structure):
    v = Member("q")


class Val16(Structure):
    v = Member("q")
    w = Member("I")
    x = Member("H")
    y = Member("B")


class Key12(Structure):
    a = Member("q")
    b = Member("I")


class Val2(Structure):
    v = Member("H")


# the third pair has a key larger than its value: sizes must not be confused
STRUCTS = [(Key4, Val8), (Key6, Val16), (Key12, Val2)]


def dict_inv(d):
    """established by Dict.init / TheDict.__init__"""
    return (KS(d.fd) == d.key.stack and VS(d.fd) == d.value.stack and PC(d.fd) == 0
            and d.key.stack >= 1 and d.value.stack >= 1)


def thedict(K, V):
    """a TheDict as its real __init__ leaves it: the fields the contracts
    speak about are symbolic; any further plain attribute the real constructor
    computes (a cached size, a flag) is taken from a real instance"""
    import types
    ht = types.SimpleNamespace(Key=K, Value=V, key_offset=0, value_offset=0)
    proto = TheDict(ht, None, 5)
    extra = {k: T.Const(v) for k, v in vars(proto).items()
             if k not in ("fd", "key", "value", "ebpf") and isinstance(v, (int, str, bytes, bool, float, type(None)))}
    return T.Obj(TheDict, fd=T.Range(0, 1 << 20),
                 key=T.Obj(K, data=T.Const(None), addr_offset=T.Int),
                 value=T.Obj(V, data=T.Const(None), addr_offset=T.Int), **extra)


def struct_inv(s):
    return len(s.data) == s.stack


def dict_contracts(K, V):
    tag = f"{K.__name__},{V.__name__}"
    key = T.Obj(K, data=T.ByteArray())
    val = T.Obj(V, data=T.ByteArray())
    inv = {"dict": "dict_inv(self)", "key_structure": "struct_inv(key)"}
    out = [
        Contract(TheDict.__setitem__, name=f"TheDict.__setitem__<{tag}>",
                 params=dict(self=thedict(K, V), key=key, value=val),
                 requires=dict(inv, value_structure="struct_inv(value)"), raises=ANY_EXC +
                 [Raises(AssertionError, when=None)], modifies=None),
        Contract(TheDict.__getitem__, name=f"TheDict.__getitem__<{tag}>",
                 params=dict(self=thedict(K, V), key=key), requires=inv,
                 raises=ANY_EXC + [Raises(AssertionError, when=None)], modifies=None),
        Contract(TheDict.pop, name=f"TheDict.pop<{tag}>",
                 params=dict(self=thedict(K, V), key=key), requires=inv,
                 raises=ANY_EXC + [Raises(AssertionError, when=None)], modifies=None),
        Contract(TheDict.__delitem__, name=f"TheDict.__delitem__<{tag}>",
                 params=dict(self=thedict(K, V), key=key), requires=inv,
                 raises=ANY_EXC + [Raises(AssertionError, when=None)], modifies=None),
        Contract(TheDict.__iter__, name=f"TheDict.__iter__<{tag}>",
                 params=dict(self=thedict(K, V)), requires={"dict": "dict_inv(self)"},
                 loops={1: Loop(invariant={"cursor_is_a_key_sized_buffer": "len(current) == self.key.stack"},
                                modifies={"current": T.ByteArray(), "ret": T.Obj(K, data=T.ByteArray())})},
                 raises=ANY_EXC, modifies=None, options={"generator": True}),
    ]
    for c in out:
        c.options.setdefault("inline", set()).add("ebpfcat.ebpf:Structure.__init__")
    return out


class DictProg:
    """stands for the EBPF program object Dict.init attaches the TheDict to"""


def dict_init(K, V):
    return Contract(
        Dict.init, name=f"Dict.init<{K.__name__},{V.__name__}>",
        params=dict(self=T.Obj(Dict, Key=T.Const(K), Value=T.Const(V), mapType=T.Const(MapType.HASH),
                               size=T.Range(1, None), name=T.Const("table"), key_offset=T.Int,
                               value_offset=T.Int),
                    ebpf=T.Obj(DictProg), fd=T.Const(None)),
        ensures={"establishes_the_dict_invariant": "dict_inv(ebpf.table)"},
        modifies=None,
        options={"inline": {"ebpfcat.ebpf:Structure.__init__", "ebpfcat.hashmap:TheDict.__init__"}})


class HMProg:
    """program object with two hash variables (real descriptors of a real HashMap)"""
    loaded = False
    hm = HashMap()
    a = hm.globalVar("I")
    b = hm.globalVar("q", 5)


HMProg.a.__set_name__(HMProg, "a")
HMProg.b.__set_name__(HMProg, "b")

hashmap_init = Contract(
    HashMap.init,
    params=dict(self=T.Const(HMProg.hm), ebpf=T.Obj(HMProg), fd=T.Const(None)),
    ensures={"establishes_the_hash_map_invariant":
             "hash_map_inv(ebpf.__dict__['a'].fd) and hash_map_inv(ebpf.__dict__['b'].fd)"},
    modifies=None,
    options={"inline": {"ebpfcat.hashmap:HashGlobalVarDesc.__get__", "ebpfcat.hashmap:HashGlobalVar.__init__"}})


# ---- per-CPU maps: how many values the kernel copies
import os  # noqa: E402

import ebpfcat.arraymap as AM  # noqa: E402


class PossibleCpus(Contract_):
    """assumed contract of arraymap.possible_cpus (sysfs): the file
    /sys/devices/system/cpu/possible lists every possible CPU, so the number
    derived from its highest id is at least the number of possible CPUs"""
    inline = False
    loops = {}

    def apply(self, ex, args, kwargs, frame, node):
        v = fresh(ex, T.Range(1, None), "possible_from_sysfs")
        ex.assume(POSSIBLE_T >= 1)
        ex.assume(v.t >= POSSIBLE_T)
        return v


@lib.model(os.cpu_count)
def _m_cpu_count(ex, args, kw):
    """online CPUs: at least one, no relation to the possible CPUs"""
    return fresh(ex, T.Range(1, None), "online_cpus")


@lib.model(os.sched_getaffinity)
def _m_affinity(ex, args, kw):
    """CPUs this process may run on: a non-empty set, unrelated to possible"""
    n = fresh(ex, T.Range(1, None), "affinity_cpus")
    return AffinitySet(n)


class AffinitySet:
    def __init__(self, n):
        self.n = n


@lib.model(len)
def _m_len_affinity(ex, args, kw):
    if isinstance(args[0], AffinitySet):
        return args[0].n
    return lib.m_len(ex, args, kw)


class ProgStub:
    """the program object the reader is attached to"""


percpu_create = Contract(
    PerCPUArrayMap.create_map,
    params=dict(self=T.Obj(PerCPUArrayMap, size=T.Range(8, None), name=T.Const("percpu")),
                ebpf=T.Obj(ProgStub), fd=T.Const(None)),
    requires={"layout_from_collect": "self.size % 8 == 0"},
    ensures={
        "one_value_per_possible_cpu": "self.cpu_no >= POSSIBLE()",
        "reader_refers_to_the_map_created":
            "KS(ebpf.percpu.fd) == 4 and VS(ebpf.percpu.fd) == self.size and PC(ebpf.percpu.fd) == 1 "
            "and ebpf.percpu.map is self",
    },
    modifies=None,
    options={"inline": {"ebpfcat.arraymap:PerCPUReader.__init__"}},
    canaries={"a_single_value": "self.cpu_no == 1"})


percpu_read = Contract(
    PerCPUReader.read,
    params=dict(self=T.Obj(PerCPUReader, fd=T.Range(0, 1 << 20), data=T.Const(None),
                           map=T.Obj(PerCPUArrayMap, size=T.Range(8, None), cpu_no=T.Range(1, None)))),
    requires={"map_created_by_create_map":
              "KS(self.fd) == 4 and VS(self.fd) == self.map.size and PC(self.fd) == 1",
              "layout_from_collect": "self.map.size % 8 == 0",
              "one_value_per_possible_cpu": "self.map.cpu_no >= POSSIBLE()"},
    ensures={}, raises=ANY_EXC, modifies=None)


def register_params():
    return dict(self=T.Obj(FastEtherCat, programs=T.Range(0, 1 << 20), sync_groups=T.Map(T.Int)),
                sg=T.Obj(FastSyncGroup, file_descriptor=T.Range(0, 2**31 - 1), id=T.Int))


register = Contract(
    FastEtherCat.register_sync_group,
    params=register_params(),
    requires={"program_table_created_by_connect":
              "KS(self.programs) == 4 and VS(self.programs) == 4 and PC(self.programs) == 0"},
    loops={1: Loop(invariant={}, modifies={"index": T.Int, "key": T.Bytes, "ret": T.Int})},
    raises=ANY_EXC, modifies=None, options={"generator": True})


# ---- a hash map with more variables than one key byte can number: whatever
# key width HashMap.init creates the map with, every variable's accessor hands
# the kernel a key buffer at least that wide (or refuses before the call)
class HMBig:
    loaded = False
    hm = HashMap()


for _i in range(300):
    _d = HMBig.hm.globalVar("I")
    setattr(HMBig, f"v{_i + 1}", _d)
    _d.__set_name__(HMBig, f"v{_i + 1}")


def init_then_get(prog, which):
    """what EBPF.load does with the map, then user-side accesses"""
    HMBig.hm.init(prog, None)
    prog.loaded = True
    d = HMBig.__dict__["v1"] if which == 0 else HMBig.__dict__["v255"] if which == 1 else HMBig.__dict__["v300"]
    d.__set__(prog, 7)
    return d.__get__(prog, None)


from struct import error as _struct_error  # noqa: E402


def hashmap_big():
    return Contract(
        init_then_get, name="HashMap.init then HashGlobalVarDesc.__set__/__get__<300 variables>",
        params=dict(prog=T.Obj(HMBig), which=T.OneOf(T.Const(0), T.Const(1), T.Const(2))),
        # a variable whose number no key can hold is refused by struct (no kernel call is made)
        ensures={}, raises=ANY_EXC + [Raises(_struct_error, when=None)], modifies=None,
        options={"inline": {"ebpfcat.hashmap:HashMap.init", "ebpfcat.hashmap:HashGlobalVarDesc.__get__",
                            "ebpfcat.hashmap:HashGlobalVarDesc.__set__", "ebpfcat.hashmap:HashGlobalVar.__init__",
                            "ebpfcat.hashmap:HashGlobalVarDesc.key"}})
