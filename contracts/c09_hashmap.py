"""C09 -- hash-map variables and Dict entries agree between Python and program.

Kernel hash map = ghost finite map from key bytes to value bytes with the
documented behaviour of BPF_MAP_UPDATE_ELEM / LOOKUP_ELEM (assumed contract):
lookup returns the bytes the last update of that key stored, KeyError/ENOENT if
there was none.  The same ghost map is what bpfvc's helper contracts use on the
program side (one region per key).

Python side (pyvc, real source of hashmap.py / ebpf.py):
  HashMap.globalVar        hands out distinct one-byte keys
  HashMap.load             every variable's cell holds its declared default
  HashGlobalVarDesc.__set__ / __get__   (lemmas over both)  a value written is
      read back unchanged; writing one variable leaves another one's cell alone
  Member.__get__ / __set__ (Python side of a Structure) read and write exactly
      data[relative_addr : +size]; Member.fmt_addr gives the program the same
      relative address (+ the structure's place on the stack)
Program side (bpfvc, props/c09.py): generated programs read / write the cell of
the variable's key with the variable's format; Dict.update stores the value
structure under the key structure with every member at the offset and format
the Python side uses; a lookup runs the body with the stored members when the
key is present and the Else block otherwise.
"""
import struct

import z3

import ebpfcat.bpf as B
from ebpfcat.ebpf import Member, Structure
from ebpfcat.hashmap import HashGlobalVar, HashGlobalVarDesc, HashMap

from vc.pyvc import lib, ops
from vc.pyvc.api import REGISTRY, Contract, Raises, T, implies
from vc.pyvc.exec import Contract_, OutOfReach, PyRaise
from vc.pyvc.types import fresh
from vc.pyvc.values import BYTES, MutBytes, Obj, PDict, Sym, is_byteslike, lift_bytes


# ------------------------------------------------------- the ghost kernel map
def cells(ex):
    return ex.inputs["prog"].fields["g_cells"]


def key_of(ex, key):
    if isinstance(key, (bytes, bytearray)) and len(key) == 1:
        return key[0]
    raise OutOfReach(f"hash variable key {key!r} is not one concrete byte")


class Update(Contract_):
    inline = False
    loops = {}

    def apply(self, ex, args, kwargs, frame, node):
        fd, key, value = args[:3]
        from vc.pyvc.values import snapshot
        cells(ex).d[key_of(ex, key)] = value if isinstance(value, (bytes, Sym)) else Sym(lift_bytes(value), BYTES)
        return 0


class Lookup(Contract_):
    inline = False
    loops = {}

    def apply(self, ex, args, kwargs, frame, node):
        fd, key, fmt = args
        k = key_of(ex, key)
        if k not in cells(ex).d:
            raise PyRaise(ex.make_exc(KeyError))
        v = cells(ex).d[k]
        t = lift_bytes(v)
        if isinstance(fmt, str):
            # bpf._lookup_elem with a format: a buffer of calcsize(fmt) bytes,
            # then unpack(fmt, buffer)[0]
            import struct
            n = struct.calcsize(fmt)
            ex.check(f"{ex.target_short}.lookup[value buffer covers the cell]", ops.b_len(t) <= n,
                     "the buffer handed to the kernel is as large as the stored value")
            return lib.do_unpack(ex, fmt, Sym(t, BYTES), 0, exact=True)[0]
        if not isinstance(fmt, int):
            raise OutOfReach("lookup with a symbolic format")
        ex.check(f"{ex.target_short}.lookup[value buffer covers the cell]", ops.b_len(t) <= fmt,
                 "the buffer handed to the kernel is as large as the stored value")
        return MutBytes(t)


def install():
    REGISTRY["ebpfcat.bpf:update_elem"] = Update()
    REGISTRY["ebpfcat.bpf:lookup_elem"] = Lookup()


# -------------------------------------------------------------- hash variables
class Prog:
    """a loaded program with two hash variables (real descriptors)"""
    loaded = True
    hm = HashMap()
    a = hm.globalVar("I", 5)
    b = hm.globalVar("q", -7)
    c = hm.globalVar("i", -3)


Prog.a.__set_name__(Prog, "a")
Prog.b.__set_name__(Prog, "b")
Prog.c.__set_name__(Prog, "c")

PROG = T.Obj(Prog, a=T.Obj(HashGlobalVar, fd=T.Const(9)), b=T.Obj(HashGlobalVar, fd=T.Const(9)),
             c=T.Obj(HashGlobalVar, fd=T.Const(9)))


def set_then_cell(prog, name, v):
    """Python writes the variable; the result is what the kernel map holds"""
    setattr(prog, name, v)
    return prog.g_cells[getattr(Prog, name).count]


def set_then_get(prog, name, v):
    """Python writes the variable, Python reads it back"""
    setattr(prog, name, v)
    return getattr(prog, name)


def set_other_then_get(prog, v, w):
    """write a, write b, read a"""
    prog.a = v
    prog.b = w
    return prog.a


def load_then_get(prog):
    """HashMap.load, then read both variables"""
    Prog.hm.load(prog)
    return prog.a, prog.b


def program_wrote_then_get(prog, name, cell):
    """the PROGRAM stored `cell` (any 8 bytes: its arithmetic is 64 bits wide
    and runs over the edge of a narrow format); Python reads the variable"""
    prog.g_cells[getattr(Prog, name).count] = cell
    return getattr(prog, name)


def lemmas():
    setup = lambda ex, inputs: inputs.vars["prog"].fields.__setitem__("g_cells", PDict())
    inl = {"inline": {"ebpfcat.hashmap:HashGlobalVarDesc.__get__", "ebpfcat.hashmap:HashGlobalVarDesc.__set__",
                      "ebpfcat.hashmap:HashMap.load"}}
    return [
        Contract(set_then_get, name="hash variable a ('I'): write then read", setup=setup,
                 params=dict(prog=PROG, name=T.Const("a"), v=T.Range(0, 2**32 - 1)),
                 ensures={"read_back_unchanged": "result == v"}, modifies=None, options=inl,
                 canaries={"always_zero": "result == 0"}),
        Contract(set_then_get, name="hash variable b ('q'): write then read", setup=setup,
                 params=dict(prog=PROG, name=T.Const("b"), v=T.Range(-2**63, 2**63 - 1)),
                 ensures={"read_back_unchanged": "result == v"}, modifies=None, options=inl),
        Contract(set_other_then_get, name="hash variables are independent cells", setup=setup,
                 params=dict(prog=PROG, v=T.Range(0, 2**32 - 1), w=T.Range(-2**63, 2**63 - 1)),
                 ensures={"writing_b_leaves_a": "result == v"}, modifies=None, options=inl),
        Contract(load_then_get, name="HashMap.load applies the declared defaults", setup=setup,
                 params=dict(prog=PROG),
                 ensures={"defaults_after_loading": "result == (5, -7)"}, modifies=None, options=inl),
        # what the program reads from a narrow variable are the low bytes of
        # the cell in the variable's own format: Python reads the same value,
        # whatever the upper bytes hold
        Contract(program_wrote_then_get, name="hash variable a ('I'): Python reads what the program reads", setup=setup,
                 params=dict(prog=PROG, name=T.Const("a"), cell=T.Bytes),
                 requires={"a_64_bit_cell": "len(cell) == 8"},
                 ensures={"the_low_bytes_in_the_variable_s_format": "result == le_value(cell, 0, 'I')"},
                 modifies=None, options=inl),
        Contract(program_wrote_then_get, name="hash variable c ('i'): Python reads what the program reads", setup=setup,
                 params=dict(prog=PROG, name=T.Const("c"), cell=T.Bytes),
                 requires={"a_64_bit_cell": "len(cell) == 8"},
                 ensures={"the_low_bytes_in_the_variable_s_format": "result == le_value(cell, 0, 'i')"},
                 modifies=None, options=inl),
        # a 64-bit cell: the program copies whole cells between variables of
        # different widths, so a narrow variable's cell holds the value
        # extended to 64 bits (sign extended for a signed format)
        Contract(set_then_cell, name="hash variable c ('i'): the cell holds the value as 64 bits", setup=setup,
                 params=dict(prog=PROG, name=T.Const("c"), v=T.Range(-2**31, 2**31 - 1)),
                 ensures={"a_64_bit_cell_holding_the_value": "len(result) == 8 and le_value(result, 0, 'q') == v"},
                 modifies=None, options=inl,
                 canaries={"upper_half_zero": "le_value(result, 4, 'i') == 0"}),
        Contract(set_then_cell, name="hash variable a ('I'): the cell holds the value as 64 bits", setup=setup,
                 params=dict(prog=PROG, name=T.Const("a"), v=T.Range(0, 2**32 - 1)),
                 ensures={"a_64_bit_cell_holding_the_value": "len(result) == 8 and le_value(result, 0, 'Q') == v"},
                 modifies=None, options=inl),
    ]


global_var = Contract(
    HashMap.globalVar,
    params=dict(self=T.Obj(HashMap, count=T.Range(0, 254)), fmt=T.Const("I"), default=T.Const(0)),
    setup=lambda ex, inputs: inputs.vars["self"].fields.__setitem__(
        "vars", __import__("vc.pyvc.values", fromlist=["PList"]).PList([])),
    ensures={"fresh_key": "result.count == old.self.count + 1 and self.count == result.count",
             "a_one_byte_key": "1 <= result.count and result.count <= 255",
             "remembered_for_loading": "len(self.vars) == 1 and self.vars[0] is result"},
    modifies=["self.count", "self.vars"],
    options={"inline": {"ebpfcat.hashmap:HashGlobalVarDesc.__init__"}})


# ------------------------------------------------- structures (Dict key/value)
FMTS = {"B": 1, "H": 2, "I": 4, "Q": 8, "b": 1, "h": 2, "i": 4, "q": 8}


def le_value(F, s, fmt):
    n = FMTS[fmt]
    v = sum(F[s + k] * 256 ** k for k in range(n))
    if fmt.islower():
        return v - 256 ** n if v >= 256 ** n // 2 else v
    return v


def same_outside(F, G, s, n):
    return len(F) == len(G) and all(implies(j < s or j >= s + n, F[j] == G[j]) for j in range(len(F)))


class StructModel:
    """a Structure instance on the Python side: `data` holds the bytes"""


def member_params(fmt):
    return dict(self=T.Obj(Member, fmt=T.Const(fmt), relative_addr=T.Range(0, 4096), name=T.Const("m"),
                           fixed=T.Const(False)),
                instance=T.Obj(StructModel, data=T.ByteArray()))


def member_get(fmt):
    p = member_params(fmt)
    p["owner"] = T.Const(None)
    return Contract(Member.__get__, name=f"Member.__get__<{fmt}>", params=p,
                    requires={"inside": f"self.relative_addr + {FMTS[fmt]} <= len(instance.data)"},
                    ensures={"reads_its_own_bytes":
                             f"result == le_value(old.instance.data, self.relative_addr, '{fmt}')"},
                    modifies=[], canaries={"reads_offset_zero": f"result == le_value(old.instance.data, 0, '{fmt}')"})


def member_set(fmt):
    p = member_params(fmt)
    n = FMTS[fmt]
    lo, hi = (-(256 ** n // 2), 256 ** n // 2 - 1) if fmt.islower() else (0, 256 ** n - 1)
    p["value"] = T.Range(lo, hi)
    return Contract(Member.__set__, name=f"Member.__set__<{fmt}>", params=p,
                    requires={"inside": f"self.relative_addr + {n} <= len(instance.data)"},
                    ensures={"stores_the_value": f"le_value(instance.data, self.relative_addr, '{fmt}') == value",
                             "writes_only_its_own_bytes":
                                 f"same_outside(instance.data, old.instance.data, self.relative_addr, {n})"},
                    modifies=["instance.data"])


class ProgStruct:
    """a Structure instance on the program side: no data, a place on the stack"""
    data = None


member_fmt_addr = Contract(
    Member.fmt_addr,
    params=dict(self=T.Obj(Member, fmt=T.Const("I"), relative_addr=T.Range(0, 4096)),
                instance=T.Obj(ProgStruct, addr_offset=T.Range(-512, 0))),
    ensures={"program_uses_the_python_offset_within_the_structure":
             "result == (self.fmt, instance.addr_offset + self.relative_addr)"},
    modifies=[], options={"inline": {"ebpfcat.ebpf:LocalVar.fmt_addr"}})
