"""C30 -- SyncGroup.update_devices: working counters of a slow sync group.

`packet.counters` (position of each datagram's working counter -> expected
count, filled by SterilePacket.append, see C11/C18) is given as a ghost list
of (position, expected) pairs of length 0..3 -- bounded in the number of
datagrams; positions, expected counts, frame contents and the error counter
are unbounded.  Devices are under their own contracts (C19, C27): the device
list is empty here.
"""
from ebpfcat.ebpfcat import SyncGroup

from vc.pyvc.api import Contract, T, implies


class Counters:
    """stands for the dict packet.counters"""

    def items(self):
        return self.pairs


class PacketModel:
    pass


def u16(F, p):
    return F[p] + 256 * F[p + 1]


def positions_ok(pairs, n):
    """working counter words lie inside the frame and do not overlap"""
    return (all(0 <= k and k + 1 < n and 0 <= c and c <= 65535 for k, c in pairs)
            and all(implies(a < b, pairs[a][0] + 1 < pairs[b][0] or pairs[b][0] + 1 < pairs[a][0])
                    for a in range(len(pairs)) for b in range(len(pairs))))


def is_wkc(pairs, j):
    return any(j == k or j == k + 1 for k, c in pairs)


def group(n):
    return T.Obj(SyncGroup, current_data=T.ByteArray(), wkc_errors=T.Range(0, None),
                 devices=T.FixedList(T.Int, 0), name=T.Const("group"),
                 packet=T.Obj(PacketModel, counters=T.Obj(
                     Counters, pairs=T.FixedList(T.Tuple(T.Int, T.Int), n))))


def contract(n):
    return Contract(
        SyncGroup.update_devices,
        name=f"SyncGroup.update_devices<{n} datagrams>",
        params=dict(self=group(n), data=T.Bytes),
        requires={"frame": "len(self.current_data) == len(data)",
                  "counters": "positions_ok(self.packet.counters.pairs, len(data))"},
        ensures={
            "one_error_per_wrong_counter":
                "self.wkc_errors == old.self.wkc_errors + "
                "sum(1 if u16(data, k) != c else 0 for k, c in self.packet.counters.pairs)",
            "every_counter_cleared":
                "all(result[k] == 0 and result[k + 1] == 0 for k, c in self.packet.counters.pairs)",
            "response_visible_and_resent":
                "len(result) == len(data) and all(implies(not is_wkc(self.packet.counters.pairs, j), "
                "result[j] == data[j]) for j in range(len(data)))",
            "returns_the_group_frame": "result is self.current_data",
        },
        modifies=["self.current_data", "self.wkc_errors"],
        canaries={"errors_never_counted": "self.wkc_errors == old.self.wkc_errors"} if n else {},
    )


CONTRACTS = [contract(n) for n in range(4)]
