"""C07 -- packet variables access exactly their declared bytes and byte order.

Stage A: every program below is built with the real DSL (xdp.XDP,
xdp.PacketVar, ebpf.LocalVar) and its assembled bytes are proved against
struct.pack/unpack semantics for all packets (contents and length) and all
source values.  Bounded in: the formats x byte orders x access kinds x
offsets enumerated here.
"""
FORMATS = "BHIQbhiq"
ORDERS = ["", "<", ">", "!"]


def programs(tier):
    """[(label, kind, fmt, offset p, guard k)]"""
    out = []
    offs = [(14, 40), (0, 7)] if tier == "quick" else [(14, 40), (0, 7), (1, 30), (33, 40)]
    for code in FORMATS:
        for order in ORDERS:
            fmt = order + code
            n = {"B": 1, "H": 2, "I": 4, "Q": 8}[code.upper()]
            for p, k in offs:
                if p + n > k + 1:
                    k = p + n - 1          # the access just fits the guard
                for kind in ("read", "write", "update"):
                    out.append((f"{kind} {fmt or code} @{p} guard>{k}", kind, fmt, p, k))
    # explicit length guards (`with self.packetSize > k`, `>= k + 1`): the same
    # guard semantics - the body runs exactly on packets longer than k bytes
    for form in ("gt", "ge"):
        for fmt, p, k in (("B", 19, 19), ("H", 31, 32), ("<I", 60, 63)):
            out.append((f"read {fmt} @{p} guard>{k} ({form})", "read:" + form, fmt, p, k))
    # one packet variable assigned to another (no arithmetic in between):
    # narrowing, equal and widening widths, same and mixed byte orders
    pairs = [("H", "I"), ("I", "Q"), ("B", "H"), ("I", "I"), ("Q", "I"), ("h", "i"), ("i", "q")]
    for order in ORDERS:
        for d, src in pairs:
            out.append((f"copy {order}{d} @14 <- {order}{src} @24 guard>40", f"copy:{order}{src}", order + d, 14, 40))
    for d, src in ((">H", "<I"), ("<H", ">I"), ("!I", "Q"), ("H", "!Q")):
        out.append((f"copy {d} @14 <- {src} @24 guard>40", f"copy:{src}", d, 14, 40))
    return out


def build(kind, fmt, p, k):
    from ebpfcat.ebpf import LocalVar
    from ebpfcat.xdp import XDP, PacketVar, XDPExitCode

    kind, _, form = kind.partition(":")
    if kind == "copy":
        class C(XDP):
            minimumPacketSize = k
            license = "GPL"
            pv = PacketVar(p, fmt)
            sv = PacketVar(24, form)
            lv = LocalVar("q")

            def program(self):
                self.pv = self.sv
                self.exit(XDPExitCode.TX)
        return C().assemble(), C.lv.relative_addr
    if form:
        class G(XDP):
            license = "GPL"
            pv = PacketVar(p, fmt)
            lv = LocalVar("q")

            def program(self):
                guard = (self.packetSize > k) if form == "gt" else (self.packetSize >= k + 1)
                with guard:
                    self.lv = self.pv
                    self.exit(XDPExitCode.TX)
                self.exit(XDPExitCode.PASS)
        prog = G()
        return prog.assemble(), G.lv.relative_addr

    class P(XDP):
        minimumPacketSize = k
        license = "GPL"
        pv = PacketVar(p, fmt)
        lv = LocalVar("q")           # 8-byte local: source / destination

        def program(self):
            if kind == "read":
                self.lv = self.pv
            elif kind == "write":
                self.pv = self.lv
            else:
                self.pv = self.pv + 3
            self.exit(XDPExitCode.TX)
    prog = P()
    code = prog.assemble()
    return code, P.lv.relative_addr
