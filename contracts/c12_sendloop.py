"""C12 (O1/O2/O6) -- EtherCat.sendloop: every dequeued request is put into a
frame at the window it is told, frames are handed to process_packet with
exactly their own requests, and a request that can never fit must not stall
the loop.

Ghost modelling: futures are integer ids; the queue is the environment
(`get` returns an arbitrary well-typed request, `empty` any boolean).
"""
import asyncio

import z3

from ebpfcat.ethercat import ECCmd, EtherCat, Packet

from contracts.c11_packet import DGRAM, PACKET, packet_inv
from vc.pyvc import lib
from vc.pyvc.api import REGISTRY, Contract, Loop, T, implies
from vc.pyvc.exec import Contract_
from vc.pyvc.types import fresh
from vc.pyvc.values import Obj, PList, Sym, lift_int


class QueueModel:
    pass


from contracts.c12_requests import FutureModel

FUT = T.Obj(FutureModel, id=T.Int, state=T.OneOf(T.Const(0), T.Const(1)), value=T.Const(b""),
            exc=T.Const(None))
REQUEST = T.Tuple(T.Enum(ECCmd), T.Bytes, T.Range(0, 255), T.Range(-32768, 65535),
                  T.Range(0, 65535), FUT)


class QueueGet(Contract_):
    inline = False
    loops = {}

    def apply(self, ex, args, kwargs, frame, node):
        # "each request is sent once": the loop must not block on an empty
        # queue while requests it has already taken wait in an unsent frame
        q = args[0]
        dgrams = frame.env.lookup("dgrams") if frame.env.has("dgrams") else None
        if dgrams is not None:
            from vc.pyvc.values import lift_bool
            n = dgrams.length if hasattr(dgrams, "length") else z3.IntVal(len(dgrams.items))
            known = q.fields.get("g_nonempty", False)
            ex.check("sendloop.get.requires[no batched request is left waiting on an empty queue]",
                     z3.Or(n == 0, lift_bool(known)),
                     "when the loop waits for the next request, the frame under construction is empty or the "
                     "queue is known to hold a request (so the wait returns at once and the batch goes on)")
        q.fields["g_nonempty"] = False
        q.fields["g_empty_now"] = False       # other tasks may have queued requests meanwhile
        return fresh(ex, REQUEST, "request")


class QueueEmpty(Contract_):
    inline = False
    loops = {}

    def apply(self, ex, args, kwargs, frame, node):
        r = fresh(ex, T.Bool, "queue_empty")
        from vc.pyvc.values import mk_bool, lift_bool
        args[0].fields["g_nonempty"] = mk_bool(z3.Not(lift_bool(r)))
        args[0].fields["g_empty_now"] = r      # holds until the next await
        return r


class QueuePut(Contract_):
    """"in submission order": the queue is first-in first-out and the loop is
    its only consumer, so a request the loop has taken may go back only onto
    an EMPTY queue (otherwise it is overtaken by those waiting behind it)"""
    inline = False
    loops = {}

    def apply(self, ex, args, kwargs, frame, node):
        from vc.pyvc.values import lift_bool
        q = args[0]
        ex.check("sendloop.submission_order[a taken request goes back only onto an empty queue]",
                 lift_bool(q.fields.get("g_empty_now", False)),
                 "send_queue.put / put_nowait inside the send loop: the queue is known to be empty (empty() "
                 "returned True and no await happened since)")
        q.fields["g_nonempty"] = True
        q.fields["g_empty_now"] = False
        return None


class NewPacket(Contract_):
    """Packet.__init__ with its ghost offsets (C11's representation)"""
    inline = False
    loops = {}

    def apply(self, ex, args, kwargs, frame, node):
        p = args[0]
        p.fields["data"] = fresh(ex, T.List(DGRAM), "packet.data")
        ex.assume(p.fields["data"].length == 0)
        p.fields["size"] = 16
        g = fresh(ex, T.List(T.Int), "packet.goff")
        ex.assume(g.length == 1)
        ex.assume(z3.Select(g.arrays["v"], 0) == 16)
        p.fields["goff"] = g
        return None


class Ship(Contract_):
    """the call process_packet(dgrams, packet): obligations O2"""
    inline = False
    loops = {}

    def apply(self, ex, args, kwargs, frame, node):
        ec, dgrams, packet = args
        c = REGISTRY["ebpfcat.ethercat:EtherCat.sendloop"]
        env = frame.env
        for k, e in SHIP.items():
            ex.check(f"sendloop.ship[{k}]", c.eval_clause(ex, e, env), e)
        return None


SHIP = {
    "frame_well_formed": "packet_inv(packet)",
    "exactly_its_own_requests": "len(dgrams) == len(packet.data)",
    "own_windows": "windows_match(dgrams, packet)",
}


def windows_match(dgrams, packet):
    return all(dgrams[j][0] == packet.goff[j] + 10 and dgrams[j][1] == packet.goff[j + 1] - 2
               for j in range(len(dgrams)))


def fits_empty_frame(dgram):
    return 16 + len(dgram[1]) + 12 <= 1500


@lib.model(asyncio.ensure_future)
def _m_ensure_future(ex, args, kw):
    return None


def install():
    REGISTRY["contracts.c12_sendloop:QueueModel.get"] = QueueGet()
    REGISTRY["contracts.c12_sendloop:QueueModel.empty"] = QueueEmpty()
    REGISTRY["contracts.c12_sendloop:QueueModel.put_nowait"] = QueuePut()
    REGISTRY["contracts.c12_sendloop:QueueModel.put"] = QueuePut()
    REGISTRY["ebpfcat.ethercat:Packet.__init__"] = NewPacket()
    REGISTRY["ebpfcat.ethercat:EtherCat.process_packet"] = Ship()


class _Q(QueueModel):
    def get(self):
        pass

    def empty(self):
        pass

    def put_nowait(self, item):
        pass

    def put(self, item):
        pass


# give the queue model real method objects so that attribute lookup works
QueueModel.get = _Q.get
QueueModel.empty = _Q.empty
QueueModel.put_nowait = _Q.put_nowait
QueueModel.put = _Q.put
QueueModel.put_nowait.__qualname__ = "QueueModel.put_nowait"
QueueModel.put.__qualname__ = "QueueModel.put"
QueueModel.get.__qualname__ = "QueueModel.get"
QueueModel.empty.__qualname__ = "QueueModel.empty"

sendloop = Contract(
    EtherCat.sendloop,
    params=dict(self=T.Obj(EtherCat, send_queue=T.Obj(QueueModel, g_nonempty=T.Const(False), g_empty_now=T.Const(False)))),
    loops={1: Loop(
        invariant={
            "frame_well_formed": "packet_inv(packet)",
            "exactly_its_own_requests": "len(dgrams) == len(packet.data)",
            "own_windows": "windows_match(dgrams, packet)",
            "an_unsent_request_faces_an_empty_frame":
                "(len(dgrams) == 0 and packet.size == 16) if not sent else True",
            "a_batch_waits_only_for_a_request_that_is_there":
                "implies(sent and len(dgrams) > 0, self.send_queue.g_nonempty)",
        },
        body_post={
            # O6: an iteration that did not take a new request from the queue
            # (pre.sent false: no await happened) must dispose of the pending
            # one -- put it into the frame or fail it -- and not spin
            "no_iteration_without_progress": "pre.sent or sent",
        },
        modifies={"self.send_queue.g_nonempty": T.Bool, "self.send_queue.g_empty_now": T.Bool,
                  "dgrams": T.List(T.Tuple(T.Int, T.Int, T.Int)), "packet": PACKET,
                  "sent": T.Bool, "dgram": T.Tuple(T.Enum(ECCmd), T.Bytes, T.Range(0, 255),
                                                   T.Range(-32768, 65535), T.Range(0, 65535)),
                  "future": FUT, "lastsize": T.Int, "start": T.Int, "stop": T.Int})},
    ensures={},
    raises=[],
    modifies=None,
)


# The invariant above is written for a loop that keeps a request which did not
# fit the frame in its locals across iterations and marks that with the flag
# `sent`.  A loop WITHOUT such a flag has no state of that kind: every request
# it takes is placed, failed or handed back within the iteration.  Its
# invariant is the flag-free part of the one above (O6, progress of an
# iteration that takes no request, has no counterpart and is not claimed for
# that shape).  Which of the two applies is read off the real source.
FLAGLESS = Loop(
    invariant={
        "frame_well_formed": "packet_inv(packet)",
        "exactly_its_own_requests": "len(dgrams) == len(packet.data)",
        "own_windows": "windows_match(dgrams, packet)",
        "a_batch_waits_only_for_a_request_that_is_there":
            "implies(len(dgrams) > 0, self.send_queue.g_nonempty)",
    },
    modifies={k: v for k, v in sendloop.loops[1].modifies.items() if k not in ("sent", "lastsize")})


def _assigned_names(fn):
    import ast
    import inspect
    import textwrap
    tree = ast.parse(textwrap.dedent(inspect.getsource(fn)))
    return {n.id for n in ast.walk(tree) if isinstance(n, ast.Name) and isinstance(n.ctx, ast.Store)}


if "sent" not in _assigned_names(EtherCat.sendloop):
    sendloop.loops = {1: FLAGLESS}
