"""C24 -- cancelling a sync group releases its resources and ends cancelled.

Under contract (real source, ebpfcat/ebpfcat.py):
  SyncGroupBase.run, SyncGroupBase.map_fmmu, FastSyncGroup.run,
  FastEtherCat.register_sync_group, ProcessSyncGroup.wait_for_process.

`CancelledError` is an exceptional exit of every `await` (pyvc option
`cancellation`, one cancellation per run: a second cancellation while the
clean-up runs, or a first one that arrives after the clean-up of a normal
shutdown has started, is outside the property).  The exceptional postcondition, from
the property, for a cancellation at any await:
  * the coroutine ends with CancelledError (no other exception type),
  * every terminal to which OPERATIONAL was (possibly) written has afterwards
    been written SAFE-OPERATIONAL,
  * every FMMU mapping that was entered has been left,
  * fast group: its entry in the program table is deleted and it is no longer
    in sync_groups; process group: the child has been told to stop and the
    task ends only after the child's pidfd became readable.

Assumed contracts (environment):
  Terminal.set_state / to_operational  coroutines whose bus write happens at
      some point while they are awaited (ghost: per terminal 0 = never asked
      OPERATIONAL, 1 = OPERATIONAL may have been written last, 2 = SAFE-OP
      written after it); Terminal.map_fmmu by its C20 contract (leaving frees
      the slot, also when cancelled).
  asyncio.gather(*coros)  awaits all children; if the awaiting task is
      cancelled, the children are cancelled and any subset of them may already
      have performed its write.
  asyncio.wait_for(fut, t)  returns the result or raises TimeoutError.
  contextlib.AsyncExitStack  leaves the entered managers in reverse order on
      every kind of exit.
"""
import asyncio
import contextlib
import random
import time

import z3

from ebpfcat.ebpfcat import (FastEtherCat, FastSyncGroup, ProcessSyncGroup, SterilePacket, SyncGroup,
                             SyncGroupBase)
from ebpfcat.ethercat import EtherCat, EtherCatError, MachineState, SyncManager, Terminal

from vc.pyvc import lib
from vc.pyvc.api import REGISTRY, Contract, Loop, Raises, T, implies
from vc.pyvc.exec import Contract_, OutOfReach, PyRaise
from vc.pyvc.types import fresh
from vc.pyvc.values import Obj, PDict, PList, Sym, lift_bool, lift_int


# ----------------------------------------------------------- ghost helpers
class Coro:
    """a coroutine object of a stubbed coroutine function: its effect happens
    when it is awaited (or run by gather)"""

    def __init__(self, effect, what):
        self.effect, self.what = effect, what


class Gather:
    def __init__(self, coros):
        self.coros = coros


class FutureModel:
    """a roundtrip_packet future"""

    def cancel(self):
        return True


def cancelled_already(ex):
    return "cancelled_at" in ex.ghost


def asked(ex):
    return ex.inputs["self"].fields["g_asked"]


class SetState(Contract_):
    inline = False
    loops = {}

    def apply(self, ex, args, kwargs, frame, node):
        t, state = args[0], args[1]

        def effect():
            a = asked(ex)
            if state is MachineState.OPERATIONAL:
                a.d[t] = 1
            elif a.d.get(t, 0) == 1:
                a.d[t] = 2
        return Coro(effect, f"set_state({state})")


class ToOperational(Contract_):
    inline = False
    loops = {}

    def apply(self, ex, args, kwargs, frame, node):
        t = args[0]
        target = args[1] if len(args) > 1 else kwargs.get("target", MachineState.OPERATIONAL)

        def effect():
            if target is MachineState.OPERATIONAL:
                asked(ex).d[t] = 1
        return Coro(effect, f"to_operational({target})")


class FmmuCM:
    """Terminal.map_fmmu(...) by its C20 contract: entering takes a slot (the
    bus write may fail), leaving frees it -- on normal, exceptional and
    cancelled exits alike"""

    def __init__(self, group, terminal, write):
        self.group = group
        self.terminal = terminal
        self.write = write

    async def __aenter__(self):
        # the enter half awaits one bus write: it may fail or be cancelled
        # there, and in both cases the slot is freed again (C20)
        if bus_write_fails():
            raise EtherCatError("datagram was not processed")
        cancelled_during_the_bus_write()
        self.group.g_open = self.group.g_open + 1
        return 0

    async def __aexit__(self, et, e, tb):
        self.group.g_open = self.group.g_open - 1
        return False


def cancelled_during_the_bus_write():
    return None


@lib.model(cancelled_during_the_bus_write)
def _m_cdbw(ex, args, kw):
    if ex.opt.get("cancellation") and not cancelled_already(ex) and \
            ex.choose(2, "cancelled while entering an FMMU mapping") == 1:
        ex.ghost["cancelled_at"] = ("map_fmmu enter", 0)
        ex.raise_builtin(asyncio.CancelledError)
    return None


def bus_write_fails():
    return False


@lib.model(bus_write_fails)
def _m_bwf(ex, args, kw):
    return ex.choose(2, "FMMU register write fails?") == 1


class MapFmmu(Contract_):
    inline = False
    loops = {}

    def apply(self, ex, args, kwargs, frame, node):
        t, logical, write = args
        o = Obj(FmmuCM, {"group": ex.inputs["self"], "terminal": t, "write": write},
                ex.fresh_name("fmmu_cm"))
        return o


class StackModel:
    """contextlib.AsyncExitStack"""

    def __init__(self):
        self.cms = []

    async def __aenter__(self):
        return self

    async def enter_async_context(self, cm):
        r = await cm.__aenter__()
        self.cms.append(cm)
        return r

    async def __aexit__(self, et, e, tb):
        for cm in self.cms[::-1]:
            await cm.__aexit__(et, e, tb)
        return False


@lib.model(contextlib.AsyncExitStack)
def _m_stack(ex, args, kw):
    return Obj(StackModel, {"cms": PList([])}, ex.fresh_name("exit_stack"))


@lib.model(asyncio.gather)
def _m_gather(ex, args, kw):
    for a in args:
        if not isinstance(a, Coro):
            raise OutOfReach(f"gather of {a!r}")
    return Gather(list(args))


@lib.model(asyncio.wait_for)
def _m_wait_for(ex, args, kw):
    return ("wait_for", args[0])


@lib.model(time.monotonic)
def _m_monotonic(ex, args, kw):
    return fresh(ex, T.Real, "now")


@lib.model(random.randrange)
def _m_randrange(ex, args, kw):
    v = fresh(ex, T.Int, "randrange")
    lo, hi = (0, args[0]) if len(args) == 1 else (args[0], args[1])
    ex.assume(z3.And(v.t >= lift_int(lo), v.t < lift_int(hi)))
    return v


def await_hook(ex, v, frame, node):
    """what `await v` does for the stubbed awaitables"""
    if isinstance(v, Coro):
        v.effect()
        return None
    if isinstance(v, Gather):
        if v.coros and all(c.what == f"set_state({MachineState.SAFE_OPERATIONAL})" for c in v.coros):
            # the clean-up itself: a cancellation that arrives once it has
            # started is outside the property (like a second cancellation)
            ex.ghost.setdefault("cancelled_at", ("clean-up started", node.lineno))
        if ex.opt.get("cancellation") and not cancelled_already(ex) and v.coros and \
                ex.choose(2, f"cancelled while gathering (line {node.lineno})") == 1:
            # the children are cancelled; any subset already did its bus write
            for c in v.coros:
                if ex.choose(2, f"child {c.what} already wrote?") == 1:
                    c.effect()
            ex.ghost["cancelled_at"] = ("gather", node.lineno)
            ex.raise_builtin(asyncio.CancelledError)
        for c in v.coros:
            c.effect()
        return None
    if isinstance(v, tuple) and len(v) == 2 and v[0] == "wait_for":
        if ex.opt.get("stopped_at_the_first_wait"):
            # the group's owner clears the flag while the loop waits (what
            # ProcessSyncGroup.wait_for_process does on cancellation)
            ex.inputs["self"].fields["running"] = False
        if ex.opt.get("track_frames"):
            # C30's bounded variant: the group is stopped after three cycles
            ex.ghost["cycles"] = ex.ghost.get("cycles", 0) + 1
            if ex.ghost["cycles"] >= 3:
                ex.inputs["self"].fields["running"] = False
        if ex.choose(2, "wait_for: response / timeout") == 1:
            ex.raise_builtin(TimeoutError)
        return fresh(ex, T.Bytes, "response")
    if isinstance(v, Obj) and v.cls is FutureModel:
        return fresh(ex, T.Bytes, "response")
    return NotImplemented


class RoundtripPacket(Contract_):
    inline = False
    loops = {}

    def apply(self, ex, args, kwargs, frame, node):
        g = ex.inputs.get("self")
        nxt = g.fields.get("g_next") if isinstance(g, Obj) else None
        if isinstance(g, Obj) and ex.opt.get("track_frames") and nxt is None and len(args) > 1:
            g.fields["g_next"] = args[1]        # the first frame of the run: the assembled one
        elif nxt is not None and len(args) > 1:
            from vc.pyvc import ops
            from vc.pyvc.values import lift_bool
            same = ops.values_equal(ex, args[1], nxt)
            ex.check(f"{ex.target_short}.sends[the frame the last update_devices returned]",
                     same if isinstance(same, bool) else lift_bool(same),
                     "what goes onto the bus - also when a frame is resent after a timeout - is the assembled "
                     "frame at first and afterwards the frame returned by the last update_devices (the outputs "
                     "the devices set, cleared working counters)")
        return Obj(FutureModel, {}, ex.fresh_name("future"))


class UpdateDevices(Contract_):
    """update_devices by its C30 / C21 contract: returns the next frame"""
    inline = False
    loops = {}

    def apply(self, ex, args, kwargs, frame, node):
        f = fresh(ex, T.Bytes, "next_frame")
        g = ex.inputs.get("self")
        if isinstance(g, Obj) and ex.opt.get("track_frames"):
            g.fields["g_next"] = f
        return f


def install():
    REGISTRY["ebpfcat.ethercat:Terminal.set_state"] = SetState()
    REGISTRY["ebpfcat.ethercat:Terminal.to_operational"] = ToOperational()
    REGISTRY["ebpfcat.ethercat:Terminal.map_fmmu"] = MapFmmu()
    REGISTRY["ebpfcat.ethercat:EtherCat.roundtrip_packet"] = RoundtripPacket()
    REGISTRY["ebpfcat.ebpfcat:SyncGroup.update_devices"] = UpdateDevices()
    REGISTRY["ebpfcat.ebpfcat:FastSyncGroup.update_devices"] = UpdateDevices()
    REGISTRY["ebpfcat.ebpfcat:SterilePacket.sterile"] = Sterile()
    REGISTRY["ebpfcat.ebpf:EBPF.load"] = Nop()
    REGISTRY["ebpfcat.ebpf:EBPF.close"] = Nop()
    REGISTRY["ebpfcat.bpf:lookup_elem"] = LookupElem()
    REGISTRY["ebpfcat.bpf:update_elem"] = UpdateElem()
    REGISTRY["ebpfcat.bpf:delete_elem"] = DeleteElem()
    REGISTRY[register.qualname] = register


# ----------------------------------------------------------------- contracts
def released(g):
    """every terminal that may have been asked OPERATIONAL was asked back"""
    return all(v != 1 for v in g.g_asked.values()) and g.g_open == 0


def group_params(cls, n, **extra):
    p = dict(self=T.Obj(cls, ec=T.Obj(EtherCat, ethertype=T.Const(0x88A4)),
                        asm_packet=T.Bytes, packet_index=T.Range(0, 2**31 - 1),
                        wkc_errors=T.Int, missed_counter=T.Range(0, None),
                        cycletime=T.Real, name=T.Const("group"), g_open=T.Const(0),
                        running=T.Bool, **extra))
    for i in range(n):
        p[f"t{i}"] = T.Obj(Terminal, name=T.Const(f"t{i}"), position=T.Const(i))
        p[f"rw{i}"] = T.Bool
        p[f"out{i}"] = T.Opt(T.Range(0, 2**32 - 1))
        p[f"in{i}"] = T.Opt(T.Range(0, 2**32 - 1))
    return p


def group_setup(n):
    def setup(ex, inputs):
        g = inputs.vars["self"]
        terms, maps = PDict(), PDict()
        for i in range(n):
            t = inputs.vars[f"t{i}"]
            terms.d[t] = inputs.vars[f"rw{i}"]
            bases = PDict()
            if inputs.vars[f"out{i}"] is not None:
                bases.d[SyncManager.OUT] = inputs.vars[f"out{i}"]
            if inputs.vars[f"in{i}"] is not None:
                bases.d[SyncManager.IN] = inputs.vars[f"in{i}"]
            maps.d[t] = bases
        g.fields["terminals"] = terms
        g.fields["fmmu_maps"] = maps
        g.fields["g_asked"] = PDict()
        # C30: the frame that goes out next - the assembled one at first, then
        # what the last update_devices returned
    return setup


RUN_LOOP = Loop(invariant={},
                modifies={"data": T.Bytes, "future": T.Obj(FutureModel), "newtime": T.Real,
                          "lasttime": T.Real, "self.missed_counter": T.Range(0, None)})


def run_frames_contract():
    """C30: which frame goes onto the bus in each cycle of the slow group's run,
    for the first three cycles with every combination of responses and
    timeouts (the loop is unrolled, so the clause does not depend on the names
    of the locals)"""
    c = Contract(
        SyncGroupBase.run, name="SyncGroupBase.run<frames of the first three cycles>",
        params=group_params(SyncGroup, 1), setup=group_setup(1),
        loops={},
        ensures={}, raises=[Raises(EtherCatError, when=None)],
        modifies=None,
        options={"track_frames": True, "unroll_limit": 6, "cancellation": False, "await": await_hook,
                 "inline": {"ebpfcat.ebpfcat:SyncGroupBase.map_fmmu"}})
    return c


def run_stop_contract():
    """a group stopped through its flag `running` (the stop path of process
    based groups): however the bus behaves from then on - responses, or every
    frame timing out - the cycle loop ends within two more iterations and the
    terminals are asked back.  The loop is unrolled; a feasible path into a
    third iteration after the flag was cleared refutes the clause."""
    p = group_params(SyncGroup, 1)
    p["self"].fields["running"] = T.Const(True)
    return Contract(
        SyncGroupBase.run, name="SyncGroupBase.run<stopped by its flag>",
        params=p, setup=group_setup(1),
        loops={},
        ensures={"asked_back_and_fmmus_freed": "released(self)"},
        raises=[Raises(EtherCatError, when=None)],
        modifies=None,
        options={"stopped_at_the_first_wait": True, "unroll_limit": 3, "unroll_is_obligation": True,
                 "cancellation": False, "await": await_hook,
                 "inline": {"ebpfcat.ebpfcat:SyncGroupBase.map_fmmu"}})


def run_contract(cls, n):
    return Contract(
        SyncGroupBase.run,
        name=f"SyncGroupBase.run<{cls.__name__},{n} terminals>",
        params=group_params(cls, n), setup=group_setup(n),
        loops={"while1": RUN_LOOP},
        ensures={"never_ends_by_itself_with_resources_held": "released(self)"},
        raises=[Raises(asyncio.CancelledError, when=None,
                       ensures={"asked_back_and_fmmus_freed": "released(self)"}),
                Raises(EtherCatError, when=None,
                       ensures={"fmmus_freed_on_a_bus_error": "self.g_open == 0"})],
        modifies=None,
        options={"cancellation": True, "await": await_hook,
                 "inline": {"ebpfcat.ebpfcat:SyncGroupBase.map_fmmu"}},
        canaries={"nobody_was_ever_asked_operational":
                  "all(v == 0 for v in self.g_asked.values())"} if n else {},
    )


# ------------------------------------------------ fast groups: program table
class Nop(Contract_):
    inline = False
    loops = {}

    def apply(self, ex, args, kwargs, frame, node):
        return None


class Sterile(Contract_):
    inline = False
    loops = {}

    def apply(self, ex, args, kwargs, frame, node):
        return fresh(ex, T.Bytes, "sterile_frame")


class LookupElem(Contract_):
    """bpf.lookup_elem on the program table: found / not found / another
    error.  As bpf._lookup_elem is written (its source is under contract in
    C10): the kernel's ENOENT reaches the caller as KeyError, every other
    errno as the OSError itself."""
    inline = False
    loops = {}

    def apply(self, ex, args, kwargs, frame, node):
        k = ex.choose(3, "program table slot: free / taken / bpf error")
        if k == 1:
            return fresh(ex, T.Range(0, 2**32 - 1), "prog_fd")
        if k == 0:
            raise PyRaise(ex.make_exc(KeyError))
        e = ex.make_exc(OSError)
        e.fields["errno"] = 13
        raise PyRaise(e)


class UpdateElem(Contract_):
    inline = False
    loops = {}

    def apply(self, ex, args, kwargs, frame, node):
        ec = ex.inputs["self"].fields["ec"]
        if ex.choose(2, "program table write: done / refused by the kernel") == 1:
            # bpf.update_elem as written (C10): E2BIG becomes IndexError, any
            # other errno stays the OSError; nothing is entered
            e = ex.make_exc(OSError)
            e.fields["errno"] = 9
            raise PyRaise(e)
        ex.check(f"{ex.target_short}.register_sync_group[one table entry per group]",
                 ec.fields["g_registered"] is None, "the group is entered into the program table once")
        ec.fields["g_registered"] = args[1]
        return 0


class DeleteElem(Contract_):
    inline = False
    loops = {}

    def apply(self, ex, args, kwargs, frame, node):
        ec = ex.inputs["self"].fields["ec"]
        reg = ec.fields["g_registered"]
        from vc.pyvc import ops
        ex.check(f"{ex.target_short}.register_sync_group[unregisters exactly its own entry]",
                 False if reg is None else ops.values_equal(ex, reg, args[1]),
                 "the key deleted from the program table is the key the group was registered under")
        ec.fields["g_registered"] = None
        return 0


register = Contract(
    FastEtherCat.register_sync_group,
    params=dict(self=T.Obj(FastEtherCat), sg=T.Obj(FastSyncGroup)),
    loops={1: Loop(invariant={"nothing_registered_yet": "self.g_registered is None"},
                   modifies={"index": T.Int, "key": T.Bytes, "ret": T.Int})},
    inline=True,
)


def plain_set(ex, obj, name, raw, value):
    """map variables of the group (wkc_errors) as plain fields: their own
    behaviour is C08"""
    obj.fields[name] = value
    return True


def plain_get(ex, obj, name, raw):
    return obj.fields[name] if name in obj.fields else NotImplemented


def fast_params(n):
    p = group_params(FastSyncGroup, n, packet=T.Obj(SterilePacket), current_data=T.Const(None),
                     file_descriptor=T.Range(0, 2**31 - 1), id=T.Int)
    p["self"].fields["ec"] = T.Obj(FastEtherCat, ethertype=T.Const(0x88A4), programs=T.Const(9),
                                   sync_groups=T.Map(T.Int), g_registered=T.Const(None))
    return p


def unregistered(g):
    return g.ec.g_registered is None and released(g)


def fast_run_contract(n):
    return Contract(
        FastSyncGroup.run,
        name=f"FastSyncGroup.run<{n} terminals>",
        params=fast_params(n), setup=group_setup(n),
        ensures={"unregistered_and_released": "unregistered(self)"},
        raises=[Raises(asyncio.CancelledError, when=None,
                       ensures={"program_unregistered_terminals_asked_back_fmmus_freed": "unregistered(self)",
                                "no_longer_listed": "self.packet_index not in self.ec.sync_groups"}),
                Raises(EtherCatError, when=None, ensures={"unregistered": "unregistered(self)"}),
                Raises(OSError, when=None, ensures={"nothing_registered": "self.ec.g_registered is None"})],
        modifies=None,
        options={"cancellation": True, "await": await_hook,
                 "descriptor_set": plain_set, "descriptor_get": plain_get,
                 "inline": {"ebpfcat.ebpfcat:SyncGroupBase.map_fmmu", "ebpfcat.ebpfcat:SyncGroupBase.run"}},
        canaries={"never_registered": "self.packet_index not in old.self.ec.sync_groups and False"} if False else {},
    )


# -------------------------------------------- process groups: the child
class LoopModel:
    """the event loop as wait_for_process uses it"""

    def create_future(self):
        return PidFuture()

    def add_reader(self, fd, callback, *args):
        return None

    def remove_reader(self, fd):
        return None


class PidFuture:
    """future completed when the child's pidfd becomes readable"""

    def set_result(self, value):
        return None


class ValueModel:
    """multiprocessing.Value"""


class ProcModel:
    pass


@lib.model(asyncio.get_event_loop)
def _m_loop(ex, args, kw):
    return Obj(LoopModel, {}, "loop")


import os as _os  # noqa: E402


@lib.model(_os.pidfd_open)
def _m_pidfd(ex, args, kw):
    return 11


def await_hook_process(ex, v, frame, node):
    if isinstance(v, Obj) and v.cls is PidFuture:
        g = ex.inputs["self"]
        if ex.opt.get("cancellation") and not cancelled_already(ex) and \
                ex.choose(2, "cancelled while the child is still running") == 1:
            ex.ghost["cancelled_at"] = ("waiting for the child", node.lineno)
            ex.raise_builtin(asyncio.CancelledError)
        g.fields["g_child_exited"] = True        # the pidfd became readable
        return None
    return await_hook(ex, v, frame, node)


wait_for_process = Contract(
    ProcessSyncGroup.wait_for_process,
    params=dict(self=T.Obj(ProcessSyncGroup, process=T.Obj(ProcModel, pid=T.Range(1, 4194304)),
                           runningValue=T.Obj(ValueModel, value=T.Const(True)),
                           g_child_exited=T.Const(False))),
    ensures={"ends_only_after_the_child": "self.g_child_exited"},
    raises=[Raises(asyncio.CancelledError, when=None,
                   ensures={"child_told_to_stop": "self.runningValue.value == False",
                            "ends_only_after_the_child": "self.g_child_exited"})],
    modifies=None,
    options={"cancellation": True, "await": await_hook_process, "unroll_limit": 4},
    canaries={"returns_before_the_child_ends": "not self.g_child_exited"},
)


# the loop specification of SyncGroupBase.run is looked up through the registry
# also when run() is inlined into FastSyncGroup.run
BASE_RUN = run_contract(SyncGroup, 0)


# ---- the Python side of a fast group's cycle (stood for by the stub
# UpdateDevices above): which frame becomes the group's current data and what
# goes back onto the bus.  Index byte: EtherXDP.INDEX0 - ethernet header = 3.
def fast_update_devices():
    def setup(ex, inputs):
        inputs.vars["self"].fields["devices"] = PList([])
    return Contract(
        FastSyncGroup.update_devices,
        name="FastSyncGroup.update_devices<no devices>",
        params=dict(self=T.Obj(FastSyncGroup, current_data=T.Opt(T.Bytes), asm_packet=T.Bytes), data=T.Bytes),
        setup=setup,
        requires={"a_frame_with_its_identification_datagram": "len(data) > 3"},
        ensures={
            "the_assembled_frame_goes_back_onto_the_bus": "result is self.asm_packet",
            "a_processed_frame_becomes_the_current_data":
                "(self.current_data is data) if data[3] % 2 == 1 else (self.current_data is old.self.current_data)",
        },
        raises=[],
        modifies=["self.current_data"],
        canaries={"every_frame_becomes_current": "self.current_data is data"})
