"""C18 -- sync groups give each terminal disjoint, exactly-sized process data.

Functions under contract (real source, /repo/ebpfcat/ebpfcat.py and
terminals.py):
  SterilePacket.append / append_writer / append_fmmu
  EBPFTerminal.allocate, terminals.AerotechBase.allocate
  SyncGroupBase.allocate
  EtherCat.get_fmmu_addr
`Packet.append` is used through its C11 contract (window, size, ghost
offsets `goff`).

The top-level clauses of SyncGroupBase.allocate are written from the property:
for every terminal and direction with a non-empty process image there is one
datagram of the cyclic frame that transports it,
  * direct addressing: a FPRD / FPWR datagram addressed to the terminal's
    station address and process-data offset whose data window *is* the region,
  * FMMU addressing: the group's LRD / LWR datagram; the region lies inside
    its data window and the logical address configured for the terminal
    (fmmu_maps) is the datagram's logical address plus the region's offset in
    the window;
regions are pairwise disjoint; the logical read and write windows of one group
do not overlap and stay inside the group's 0x1000 window; a group that does not
fit into one frame is rejected (normal return implies the frame invariant).
"""
from ebpfcat.ebpfcat import (BaseType, EBPFTerminal, SterilePacket,
                             SyncGroupBase)
from ebpfcat.ethercat import ECCmd, EtherCat, Packet, SyncManager
from ebpfcat.terminals import AerotechBase

from contracts.c11_packet import DGRAM, packet_inv
from vc.pyvc.api import Contract, Loop, Raises, T, implies

ONFLY = T.Tuple(T.Int, T.Int, T.Enum(ECCmd))


def spacket(**over):
    f = dict(data=T.List(DGRAM), size=T.Int, goff=T.List(T.Int),
             on_the_fly=T.List(ONFLY),
             fmmu_in_size=T.Range(0, None), fmmu_out_size=T.Range(0, None),
             fmmu_in_count=T.Range(0, None), fmmu_out_count=T.Range(0, None),
             counters=T.Map(T.Int), next_logical_addr=T.Int)
    f.update(over)
    return T.Obj(SterilePacket, **f)


SPACKET = spacket()


# ------------------------------------------------------------ spec functions
def window(p, j):
    """data window of datagram j: what Packet.append reported for it"""
    return (p.goff[j] + 10, p.goff[j + 1] - 2)


def counters_inv(p):
    """every datagram's working-counter position carries an expected count"""
    return all((p.goff[j + 1] - 2) in p.counters for j in range(len(p.data)))


def mode_fmmu(t, sm):
    """addressing mode of a terminal's direction, from its configuration"""
    if isinstance(t, AerotechBase):
        return sm is SyncManager.IN
    return t.use_fmmu


def region_size(t, sm):
    if isinstance(t, AerotechBase):
        return t.in_size if sm is SyncManager.IN else t.out_size
    return t.pdo_in_sz if sm is SyncManager.IN else t.pdo_out_sz


def has_region(t, rw, sm):
    """does the terminal take part in this direction of the cyclic frame?"""
    if sm is SyncManager.IN:
        return t.pdo_in_sz != 0
    return rw and t.pdo_out_sz != 0


def transported_by(g, t, sm, j):
    """datagram j of the group's frame transports region (t, sm)"""
    p = g.packet
    d = p.data[j]
    a = g.pdo_assign[t][sm]
    n = region_size(t, sm)
    w0 = p.goff[j] + 10
    w1 = p.goff[j + 1] - 2
    if mode_fmmu(t, sm):
        return (d[0] is (ECCmd.LRD if sm is SyncManager.IN else ECCmd.LWR)
                and len(d) == 5
                and w0 <= a and a + n <= w1
                and sm in g.fmmu_maps[t]
                and g.fmmu_maps[t][sm] - d[4] == a - w0)
    return (d[0] is (ECCmd.FPRD if sm is SyncManager.IN else ECCmd.FPWR)
            and len(d) == 6 and d[4] == t.position
            and d[5] == (t.pdo_in_off if sm is SyncManager.IN else t.pdo_out_off)
            and a == w0 and a + n == w1
            and sm not in g.fmmu_maps[t])


def region_ok(g, t, rw, sm):
    if not has_region(t, rw, sm):
        return sm not in g.pdo_assign[t] and sm not in g.fmmu_maps[t]
    return (sm in g.pdo_assign[t]
            and any(transported_by(g, t, sm, j) for j in range(len(g.packet.data))))


def all_regions_ok(g):
    return all(region_ok(g, t, rw, sm) for t, rw in g.terminals.items()
               for sm in (SyncManager.IN, SyncManager.OUT))


def regions(g):
    return [(g.pdo_assign[t][sm], region_size(t, sm))
            for t, rw in g.terminals.items()
            for sm in (SyncManager.IN, SyncManager.OUT) if has_region(t, rw, sm)]


def disjoint(rs):
    return all(rs[a][0] + rs[a][1] <= rs[b][0] or rs[b][0] + rs[b][1] <= rs[a][0]
               for a in range(len(rs)) for b in range(len(rs)) if a < b)


def is_read(cmd):
    """commands that do not write terminal memory"""
    v = cmd.value
    return v == 0 or v == 1 or v == 4 or v == 7 or v == 10


def writers_inside(p):
    """every recorded writer position is a byte of the frame (a datagram header)"""
    return all(16 <= p.on_the_fly[k][0] and p.on_the_fly[k][0] < p.size for k in range(len(p.on_the_fly)))


def sterile_inv(p):
    """class invariant of SterilePacket beyond the frame invariant"""
    return counters_inv(p) and writers_inside(p)


def writers_inv(p):
    """every write datagram is recorded in on_the_fly with its header position,
    end position and command (what sterile()/activate() rely on, C11/C21)"""
    return all(implies(not is_read(p.data[j][0]),
                       any(p.on_the_fly[k] == (p.goff[j], p.goff[j + 1], p.data[j][0])
                           for k in range(len(p.on_the_fly))))
               for j in range(len(p.data)))


# ---------------------------------------------------------------- contracts
s_append = Contract(
    SterilePacket.append,
    params=dict(self=SPACKET, cmd=T.Enum(ECCmd),
                args=T.OneOf(T.Tuple(T.Bytes, T.Int, T.Int, T.Int),
                             T.Tuple(T.Bytes, T.Int, T.Int)),
                counter=T.Int),
    requires={"inv": "packet_inv(self)", "sterile": "sterile_inv(self)"},
    ensures={
        "inv": "packet_inv(self)",
        "sterile": "sterile_inv(self)",
        "size": "self.size == old.self.size + len(args[0]) + 12",
        "count": "len(self.data) == len(old.self.data) + 1",
        "stored": "self.data[len(old.self.data)] == (cmd, args[0], counter, args[1]) + args[2:]",
        "window_is_the_new_datagram":
            "self.goff[len(old.self.data)] == old.self.size and "
            "self.goff[len(self.data)] == self.size",
        "others_kept": "all(self.data[j] == old.self.data[j] and self.goff[j] == old.self.goff[j] "
                       "for j in range(len(old.self.data)))",
        "expected_count_recorded": "self.counters[self.size - 2] == counter",
        "other_counts_kept": "all(implies(k in old.self.counters and k != self.size - 2, "
                             "k in self.counters and self.counters[k] == old.self.counters[k]) "
                             "for k in range(0, 1501))",
    },
    raises=[Raises(OverflowError,
                   when="self.size + len(args[0]) + 12 > 1500 or len(self.data) > 14",
                   ensures={"unchanged": "self.size == old.self.size and "
                                         "len(self.data) == len(old.self.data)"},
                   keeps_state=True)],
    modifies=["self.size", "self.data", "self.goff", "self.counters"],
    canaries={"count_at_the_data_end": "self.counters[self.size] == counter"},
)

s_append_writer = Contract(
    SterilePacket.append_writer,
    params=dict(self=SPACKET, cmd=T.Enum(ECCmd),
                args=T.OneOf(T.Tuple(T.Bytes, T.Int, T.Int, T.Int),
                             T.Tuple(T.Bytes, T.Int, T.Int)),
                kwargs=T.OneOf(T.Const({}), T.Tuple(T.Int))),
    setup=lambda ex, inputs: inputs.vars.__setitem__(
        "kwargs", {"counter": inputs.vars["kwargs"][0]}
        if isinstance(inputs.vars["kwargs"], tuple) else {}),
    requires={"inv": "packet_inv(self)", "sterile": "sterile_inv(self)"},
    ensures={
        "inv": "packet_inv(self)",
        "sterile": "sterile_inv(self)",
        "size": "self.size == old.self.size + len(args[0]) + 12",
        "count": "len(self.data) == len(old.self.data) + 1",
        "stored": "self.data[len(old.self.data)] == "
                  "(cmd, args[0], kwargs['counter'] if 'counter' in kwargs else 1, args[1]) + args[2:]",
        "window_is_the_new_datagram":
            "self.goff[len(old.self.data)] == old.self.size and "
            "self.goff[len(self.data)] == self.size",
        "others_kept": "all(self.data[j] == old.self.data[j] and self.goff[j] == old.self.goff[j] "
                       "for j in range(len(old.self.data)))",
        "expected_count_recorded":
            "self.counters[self.size - 2] == (kwargs['counter'] if 'counter' in kwargs else 1)",
        "other_counts_kept": "all(implies(k in old.self.counters and k != self.size - 2, "
                             "k in self.counters and self.counters[k] == old.self.counters[k]) "
                             "for k in range(0, 1501))",
        "writer_recorded": "len(self.on_the_fly) == len(old.self.on_the_fly) + 1 and "
                           "self.on_the_fly[len(old.self.on_the_fly)] == (old.self.size, self.size, cmd)",
        "other_writers_kept": "all(self.on_the_fly[k] == old.self.on_the_fly[k] "
                              "for k in range(len(old.self.on_the_fly)))",
    },
    raises=[Raises(OverflowError,
                   when="self.size + len(args[0]) + 12 > 1500 or len(self.data) > 14",
                   ensures={"no_writer_recorded":
                            "len(self.on_the_fly) == len(old.self.on_the_fly)"})],
    modifies=["self.size", "self.data", "self.goff", "self.counters", "self.on_the_fly"],
)

get_fmmu_addr = Contract(
    EtherCat.get_fmmu_addr,
    params=dict(self=T.Obj(EtherCat, next_logical_addr=T.Int)),
    requires={"aligned": "self.next_logical_addr % 0x1000 == 0 and self.next_logical_addr >= 0"},
    ensures={
        "fresh_window": "result == old.self.next_logical_addr + 0x1000",
        "strictly_increasing": "self.next_logical_addr == result",
        "aligned": "result % 0x1000 == 0 and result > 0",
    },
    modifies=["self.next_logical_addr"],
    result=T.Int,
    canaries={"same_window_twice": "result == old.self.next_logical_addr"},
)

s_append_fmmu = Contract(
    SterilePacket.append_fmmu,
    params=dict(self=SPACKET, logical_addr=T.Int),
    requires={"inv": "packet_inv(self)", "sterile": "sterile_inv(self)"},
    ensures={
        "inv": "packet_inv(self)",
        "sterile": "sterile_inv(self)",
        "positions": "result[0] == old.self.size and "
                     "result[1] == old.self.size + (old.self.fmmu_in_size + 12 "
                     "if old.self.fmmu_in_size != 0 else 0)",
        "logical_windows": "result[2] == logical_addr and result[3] == logical_addr + 0x800",
        "read_datagram": "implies(self.fmmu_in_size != 0, "
                         "self.data[len(old.self.data)][0] is ECCmd.LRD and "
                         "len(self.data[len(old.self.data)][1]) == self.fmmu_in_size and "
                         "self.data[len(old.self.data)][4] == logical_addr and "
                         "len(self.data[len(old.self.data)]) == 5 and "
                         "self.goff[len(old.self.data)] == result[0])",
        "write_datagram": "implies(self.fmmu_out_size != 0, "
                          "self.data[len(self.data) - 1][0] is ECCmd.LWR and "
                          "len(self.data[len(self.data) - 1][1]) == self.fmmu_out_size and "
                          "self.data[len(self.data) - 1][4] == logical_addr + 0x800 and "
                          "len(self.data[len(self.data) - 1]) == 5 and "
                          "self.goff[len(self.data) - 1] == result[1])",
        # (the count a datagram is appended with is what append records in
        # `counters` at the datagram's working-counter position: its own clause)
        "read_datagram_expects_one_count_per_reading_terminal":
            "implies(self.fmmu_in_size != 0, self.data[len(old.self.data)][2] == self.fmmu_in_count)",
        "write_datagram_expects_one_count_per_writing_terminal":
            "implies(self.fmmu_out_size != 0, self.data[len(self.data) - 1][2] == self.fmmu_out_count)",
        "count": "len(self.data) == len(old.self.data) + (1 if self.fmmu_in_size != 0 else 0) "
                 "+ (1 if self.fmmu_out_size != 0 else 0)",
        "others_kept": "all(self.data[j] == old.self.data[j] and self.goff[j] == old.self.goff[j] "
                       "for j in range(len(old.self.data)))",
        "sizes_kept": "self.fmmu_in_size == old.self.fmmu_in_size and "
                      "self.fmmu_out_size == old.self.fmmu_out_size",
    },
    raises=[Raises(OverflowError, when=None)],
    modifies=["self.size", "self.data", "self.goff", "self.counters", "self.on_the_fly",
              "self.next_logical_addr"],
    canaries={"write_window_on_the_read_window": "result[3] == logical_addr"},
)

s_append_fmmu.result = T.Tuple(T.Int, T.Int, T.Int, T.Int)


# ----------------------------------------------------------- the terminals
def terminal(cls=EBPFTerminal, **over):
    f = dict(use_fmmu=T.Bool, pdo_in_sz=T.Opt(T.Range(0, None)), pdo_out_sz=T.Opt(T.Range(0, None)),
             pdo_in_off=T.Range(0, 65535), pdo_out_off=T.Range(0, 65535),
             position=T.Range(0, 65535))
    f.update(over)
    return T.Obj(cls, **f)


def alloc_post(t, p, old_p, rw, result):
    """postcondition of Terminal.allocate for one terminal, over the whole
    packet state: what is reserved, and that nothing else moved"""
    return True


t_allocate = Contract(
    EBPFTerminal.allocate,
    params=dict(self=terminal(), packet=SPACKET, readwrite=T.Bool),
    requires={"inv": "packet_inv(packet)", "sterile": "sterile_inv(packet)"},
    ensures={
        "inv": "packet_inv(packet)",
        "sterile": "sterile_inv(packet)",
        "in_present_iff_used": "(SyncManager.IN in result) == bool(self.pdo_in_sz)",
        "out_present_iff_written": "(SyncManager.OUT in result) == bool(readwrite and self.pdo_out_sz)",
        "fmmu_in_reserved_exactly":
            "implies(self.use_fmmu and bool(self.pdo_in_sz), "
            "result.get(SyncManager.IN) == (BaseType.FMMU_IN, old.packet.fmmu_in_size) and "
            "packet.fmmu_in_size == old.packet.fmmu_in_size + self.pdo_in_sz and "
            "packet.fmmu_in_count == old.packet.fmmu_in_count + 1)",
        "fmmu_out_reserved_exactly":
            "implies(self.use_fmmu and bool(readwrite and self.pdo_out_sz), "
            "result.get(SyncManager.OUT) == (BaseType.FMMU_OUT, old.packet.fmmu_out_size) and "
            "packet.fmmu_out_size == old.packet.fmmu_out_size + self.pdo_out_sz and "
            "packet.fmmu_out_count == old.packet.fmmu_out_count + 1)",
        "fmmu_in_untouched_otherwise":
            "implies(not (self.use_fmmu and bool(self.pdo_in_sz)), "
            "packet.fmmu_in_size == old.packet.fmmu_in_size and "
            "packet.fmmu_in_count == old.packet.fmmu_in_count)",
        "fmmu_out_untouched_otherwise":
            "implies(not (self.use_fmmu and bool(readwrite and self.pdo_out_sz)), "
            "packet.fmmu_out_size == old.packet.fmmu_out_size and "
            "packet.fmmu_out_count == old.packet.fmmu_out_count)",
        "fmmu_mode_appends_nothing":
            "implies(self.use_fmmu, len(packet.data) == len(old.packet.data) "
            "and packet.size == old.packet.size)",
        "direct_in_datagram":
            "implies(not self.use_fmmu and bool(self.pdo_in_sz), "
            "result.get(SyncManager.IN) == (BaseType.NO_FMMU, old.packet.size) and "
            "packet.data[len(old.packet.data)][0] is ECCmd.FPRD and "
            "len(packet.data[len(old.packet.data)][1]) == self.pdo_in_sz and "
            "len(packet.data[len(old.packet.data)]) == 6 and "
            "packet.data[len(old.packet.data)][4] == self.position and "
            "packet.data[len(old.packet.data)][5] == self.pdo_in_off and "
            "packet.goff[len(old.packet.data)] == old.packet.size)",
        "direct_out_datagram":
            "implies(not self.use_fmmu and bool(readwrite and self.pdo_out_sz), "
            "result.get(SyncManager.OUT) == (BaseType.NO_FMMU, packet.goff[len(packet.data) - 1]) and "
            "packet.data[len(packet.data) - 1][0] is ECCmd.FPWR and "
            "len(packet.data[len(packet.data) - 1][1]) == self.pdo_out_sz and "
            "len(packet.data[len(packet.data) - 1]) == 6 and "
            "packet.data[len(packet.data) - 1][4] == self.position and "
            "packet.data[len(packet.data) - 1][5] == self.pdo_out_off)",
        "direct_count":
            "implies(not self.use_fmmu, len(packet.data) == len(old.packet.data) "
            "+ (1 if self.pdo_in_sz else 0) + (1 if readwrite and self.pdo_out_sz else 0))",
        "others_kept": "all(packet.data[j] == old.packet.data[j] and packet.goff[j] == old.packet.goff[j] "
                       "for j in range(len(old.packet.data)))",
    },
    raises=[Raises(OverflowError, when=None)],
    modifies=["packet.size", "packet.data", "packet.goff", "packet.counters", "packet.on_the_fly",
              "packet.fmmu_in_size", "packet.fmmu_out_size", "packet.fmmu_in_count",
              "packet.fmmu_out_count"],
    canaries={"outputs_reserved_for_read_only_terminals":
              "implies(bool(self.pdo_out_sz), SyncManager.OUT in result)"},
)

a_allocate = Contract(
    AerotechBase.allocate,
    params=dict(self=terminal(AerotechBase, in_size=T.Range(0, None), out_size=T.Range(0, None)),
                packet=SPACKET, readwrite=T.Bool),
    requires={"inv": "packet_inv(packet)", "sterile": "sterile_inv(packet)"},
    ensures={
        "inv": "packet_inv(packet)",
        "sterile": "sterile_inv(packet)",
        "in_present_iff_used": "(SyncManager.IN in result) == bool(self.pdo_in_sz)",
        "out_present_iff_written": "(SyncManager.OUT in result) == bool(readwrite and self.pdo_out_sz)",
        "in_region_has_the_declared_size":
            "implies(bool(self.pdo_in_sz), "
            "result.get(SyncManager.IN) == (BaseType.FMMU_IN, old.packet.fmmu_in_size) and "
            "packet.fmmu_in_size == old.packet.fmmu_in_size + self.in_size)",
        "out_datagram_has_the_declared_size":
            "implies(bool(readwrite and self.pdo_out_sz), "
            "result.get(SyncManager.OUT) == (BaseType.NO_FMMU, packet.goff[len(packet.data) - 2]) and "
            "packet.data[len(packet.data) - 2][0] is ECCmd.FPWR and "
            "len(packet.data[len(packet.data) - 2][1]) == self.out_size and "
            "packet.data[len(packet.data) - 2][4] == self.position and "
            "packet.data[len(packet.data) - 2][5] == self.pdo_out_off)",
        "others_kept": "all(packet.data[j] == old.packet.data[j] and packet.goff[j] == old.packet.goff[j] "
                       "for j in range(len(old.packet.data)))",
    },
    raises=[Raises(OverflowError, when=None)],
    modifies=["packet.size", "packet.data", "packet.goff", "packet.counters", "packet.on_the_fly",
              "packet.fmmu_in_size", "packet.fmmu_out_size", "packet.fmmu_in_count",
              "packet.fmmu_out_count"],
)


class NewSterilePacket:
    """SterilePacket() with the ghost offsets of C11's representation"""


def group_contract(classes):
    """SyncGroupBase.allocate for a group with len(classes) terminals of the
    given classes; sizes, offsets, flags, modes are symbolic"""
    from vc.pyvc.values import PDict
    n = len(classes)
    params = dict(self=T.Obj(SyncGroupBase, ec=T.Obj(EtherCat, next_logical_addr=T.Int)))
    for i, cls in enumerate(classes):
        extra = dict(in_size=T.Range(1, None), out_size=T.Range(0, None)) \
            if cls is AerotechBase else {}
        params[f"t{i}"] = terminal(cls, pdo_in_sz=T.Range(0, None), pdo_out_sz=T.Range(0, None), **extra)
        params[f"rw{i}"] = T.Bool

    def setup(ex, inputs):
        d = PDict()
        for i in range(n):
            d.d[inputs.vars[f"t{i}"]] = inputs.vars[f"rw{i}"]
        inputs.vars["self"].fields["terminals"] = d

    tag = "".join("A" if c is AerotechBase else "E" for c in classes) or "none"
    return Contract(
        SyncGroupBase.allocate,
        name=f"SyncGroupBase.allocate<{tag}>",
        params=params, setup=setup,
        requires={"window_counter": "self.ec.next_logical_addr % 0x1000 == 0 and "
                                    "self.ec.next_logical_addr >= 0"},
        ensures={
            "group_fits_one_frame": "packet_inv(self.packet)",
            "every_region_is_transported_at_its_exact_size": "all_regions_ok(self)",
            "regions_never_overlap": "disjoint(regions(self))",
            "logical_windows_of_the_group_do_not_overlap":
                "self.packet.fmmu_in_size <= 0x800 and self.packet.fmmu_out_size <= 0x800",
            "sterile_packet_invariant": "sterile_inv(self.packet)",
        },
        raises=[Raises(OverflowError, when=None)],
        modifies=None,
        canaries={"regions_start_at_the_datagram_header":
                  "self.packet.size == 0" if n == 0 else
                  "self.pdo_assign[t0].get(SyncManager.IN) == self.packet.goff[len(self.packet.data) - 1]"},
    )


GROUPS_QUICK = [(), (EBPFTerminal,), (AerotechBase,)]
GROUPS_THOROUGH = GROUPS_QUICK + [(EBPFTerminal, EBPFTerminal), (EBPFTerminal, AerotechBase),
                                  (AerotechBase, EBPFTerminal)]


# ---- construction: SterilePacket() ---------------------------------------
import z3  # noqa: E402
from vc.pyvc.api import REGISTRY  # noqa: E402
from vc.pyvc.exec import Contract_  # noqa: E402
from vc.pyvc.types import fresh  # noqa: E402

sp_init = Contract(
    SterilePacket.__init__,
    params=dict(self=T.Obj(SterilePacket)),
    ensures={
        "empty_frame": "self.size == 16 and len(self.data) == 0",
        "nothing_reserved": "self.fmmu_in_size == 0 and self.fmmu_out_size == 0 and "
                            "self.fmmu_in_count == 0 and self.fmmu_out_count == 0",
        "no_writers_no_counters": "len(self.on_the_fly) == 0 and len(self.counters) == 0",
    },
    modifies=None,
    options={"inline": {"ebpfcat.ethercat:Packet.__init__"}},
    canaries={"starts_after_the_ethernet_header": "self.size == 14"},
)


class NewSterile(Contract_):
    """SterilePacket.__init__ as seen by callers: exactly the state `sp_init`
    proves, in the representation the packet contracts use (symbolic lists
    with the ghost offsets goff = [16])"""
    inline = False
    loops = {}

    def apply(self, ex, args, kwargs, frame, node):
        p = args[0]
        f = p.fields
        f["data"] = fresh(ex, T.List(DGRAM), "packet.data")
        ex.assume(f["data"].length == 0)
        f["size"] = 16
        g = fresh(ex, T.List(T.Int), "packet.goff")
        ex.assume(g.length == 1)
        ex.assume(z3.Select(g.arrays["v"], 0) == 16)
        f["goff"] = g
        f["on_the_fly"] = fresh(ex, T.List(ONFLY), "packet.on_the_fly")
        ex.assume(f["on_the_fly"].length == 0)
        f["fmmu_in_size"] = f["fmmu_out_size"] = 0
        f["fmmu_in_count"] = f["fmmu_out_count"] = 0
        c = fresh(ex, T.Map(T.Int), "packet.counters")
        k = z3.Int(ex.fresh_name("k!empty"))
        ex.assume(z3.ForAll([k], z3.Not(z3.Select(c.dom, k))))
        f["counters"] = c
        return None


def install():
    REGISTRY["ebpfcat.ebpfcat:SterilePacket.__init__"] = NewSterile()
    t_allocate.inline = True
    a_allocate.inline = True


def uninstall():
    REGISTRY["ebpfcat.ebpfcat:SterilePacket.__init__"] = sp_init
    t_allocate.inline = False
    a_allocate.inline = False


# ------------------------------------------------------------------- sterile()
# C11: "a sterile copy differs only in the command byte of write datagrams,
# which is NOP".  Packet.assemble is used through a stub that returns some frame
# F0 (its properties are C11's assemble contract); the clause is relative to F0.
from vc.pyvc import lib as _lib2
from vc.pyvc.exec import Contract_ as _C2
from vc.pyvc.types import fresh as _fresh2


def the_frame():
    """the frame Packet.assemble returned inside sterile() (native: unused)"""
    return None


@_lib2.model(the_frame)
def _m_the_frame(ex, args, kw):
    return ex.ghost["c11_frame"]


class AssembleStub(_C2):
    inline = False
    loops = {}

    def apply(self, ex, args, kwargs, frame, node):
        import z3
        from vc.pyvc import ops
        p = args[0]
        f0 = _fresh2(ex, T.Bytes, "assembled_frame")
        size = ops.lift_int(p.fields["size"])
        ex.assume(ops.b_len(f0.t) == z3.If(size > 46, size, 46))     # assemble.ensures[length_padded]
        ex.ghost["c11_frame"] = f0
        return f0


def install_assemble_stub():
    REGISTRY["ebpfcat.ethercat:Packet.assemble"] = AssembleStub()


s_sterile = Contract(
    SterilePacket.sterile,
    params=dict(self=SPACKET, index=T.Range(-2**31, 2**31 - 1), ethertype=T.Range(0, 65535),
                w=T.Range(0, None), q=T.Range(0, None)),
    requires={"inv": "packet_inv(self)", "sterile": "sterile_inv(self)"},
    loops={1: Loop(invariant={
        "same_length": "len(ret) == len(the_frame())",
        "writers_so_far_are_nop": "implies(w < _i, ret[self.on_the_fly[w][0]] == 0)",
        "other_bytes_are_the_frame_s":
            "implies(q < len(ret) and all(self.on_the_fly[k][0] != q for k in range(_i)), ret[q] == the_frame()[q])",
        "range": "0 <= _i and _i <= len(self.on_the_fly)"},
        modifies={"ret": T.ByteArray(), "pos": T.Int, "_": T.Int, "cmd": T.Enum(ECCmd)})},
    ensures={
        "same_length_as_the_frame": "len(result) == len(the_frame())",
        "command_byte_of_every_write_datagram_is_nop":
            "implies(w < len(self.on_the_fly), result[self.on_the_fly[w][0]] == 0)",
        "differs_only_there":
            "implies(q < len(result) and all(self.on_the_fly[k][0] != q for k in range(len(self.on_the_fly))), "
            "result[q] == the_frame()[q])"},
    modifies=[],
    canaries={"everything_is_nop": "implies(q < len(result), result[q] == 0)"})
