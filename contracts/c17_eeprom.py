"""C17 -- EEPROM contents and derived layouts are decoded exactly.

Environment: the ESC's EEPROM interface (register 0x502..0x50f), as the
assumed contract of EtherCat.roundtrip for that register:
  ghost  E      the EEPROM image (bytes, byte addressed; word address a is
                byte 2a)
         eight  the interface delivers 8 bytes per read (else 4)
         addr   the word address of the last read request
  read  "H"       the status word: any value (busy for any number of polls)
  write "HI" 0x100, a   starts a read at word address a
  read  "H4x8s"   (status, data): while bit 15 of status is set the data are
                  meaningless; afterwards data[0:4] = E[2a : 2a+4], bit 6 of
                  the status is set iff `eight`, and then data[4:8] = E[2a+4 : 2a+8]
  read  "H4x4s"   likewise with 4 data bytes
"""
import z3

from ebpfcat.ethercat import ECCmd, EtherCat, SyncManager, Terminal

from vc.pyvc import lib, ops
from vc.pyvc.api import REGISTRY, Contract, Loop, Raises, T, implies
from vc.pyvc.exec import Contract_, OutOfReach
from vc.pyvc.types import fresh
from vc.pyvc.values import BOOL, BYTES, INT, Sym, lift_bool, lift_bytes, lift_int, mk_bool

TERM = dict(ec=T.Obj(EtherCat), position=T.Range(0, 65535), g_E=T.Bytes, g_eight=T.Bool,
            g_addr=T.Const(None))


def busy_bit(status):
    return (status // 32768) % 2 == 1


def eight_bit(status):
    return (status // 64) % 2 == 1


def image(t, a, n):
    """n bytes of the EEPROM image at word address a"""
    return t.g_E[2 * a:2 * a + n]


def valid8(t, status, data, a):
    """a completed 8-byte read at word address a"""
    return (len(data) == 8 and data[:4] == image(t, a, 4)
            and eight_bit(status) == t.g_eight
            and implies(t.g_eight, data[4:] == t.g_E[2 * a + 4:2 * a + 8]))


def valid4(t, status, data, a):
    return len(data) == 4 and data == image(t, a, 4)


class EepromBus(Contract_):
    inline = False
    qualname = "ebpfcat.ethercat:EtherCat.roundtrip"
    loops = {}

    def apply(self, ex, args, kwargs, frame, node):
        ec, cmd, pos, offset = args[:4]
        rest = tuple(args[4:])
        t = ex.inputs["self"]
        f = t.fields
        if offset != 0x502:
            raise OutOfReach(f"bus access at {offset} outside the EEPROM interface contract")
        if cmd is ECCmd.FPRD and rest == ("H",):
            return (fresh(ex, T.Range(0, 65535), "eeprom_status"),)
        if cmd is ECCmd.FPWR and rest[:1] == ("HI",):
            ex.check(f"{ex.target_short}.eeprom[read command]", lift_int(rest[1]) == 0x100,
                     "the request written to 0x502 is the read command 0x100")
            f["g_addr"] = rest[2]
            return ()
        if cmd is ECCmd.FPRD and rest in (("H4x8s",), ("H4x4s",)):
            n = 8 if rest[0] == "H4x8s" else 4
            a = f["g_addr"]
            if a is None:
                raise OutOfReach("EEPROM data read without a request")
            st = fresh(ex, T.Range(0, 65535), "eeprom_status")
            data = fresh(ex, T.Bytes, "eeprom_data")
            ex.assume(ops.b_len(data.t) == n)
            E = f["g_E"]
            a2 = 2 * lift_int(a)
            busy = (st.t / 32768) % 2 == 1
            first = ops.values_equal(ex, ops.bslice(data, 0, 4), ops.bslice(E, Sym(a2, INT), Sym(a2 + 4, INT)))
            facts = [lift_bool(first)]
            if n == 8:
                eight = lift_bool(f["g_eight"])
                facts.append(((st.t / 64) % 2 == 1) == eight)
                second = ops.values_equal(ex, ops.bslice(data, 4, 8),
                                          ops.bslice(E, Sym(a2 + 4, INT), Sym(a2 + 8, INT)))
                facts.append(z3.Implies(eight, lift_bool(second)))
            ex.assume(z3.Implies(z3.Not(busy), z3.And(*facts)))
            return (st, data)
        raise OutOfReach(f"EEPROM interface access {cmd} {rest} outside the contract")


def install():
    REGISTRY[EepromBus.qualname] = EepromBus()


read_one = Contract(
    Terminal._eeprom_read_one,
    params=dict(self=T.Obj(Terminal, **TERM), start=T.Range(0, 2**31)),
    requires={"image_covers_the_read": "2 * start + 8 <= len(self.g_E)"},
    loops={
        1: Loop(invariant={}, modifies={}),
        2: Loop(invariant={"data_valid_once_not_busy":
                           "True if busy_bit(busy) else valid8(self, busy, data, start)",
                           "request_pending": "self.g_addr == start"},
                modifies={"busy": T.Range(0, 65535), "data": T.Bytes}),
        3: Loop(invariant={"second_half_valid_once_not_busy":
                           "True if busy_bit(busy) else valid4(self, busy, data2, start + 2)",
                           "request_pending": "self.g_addr == start + 2",
                           "first_half_kept": "len(data) == 8 and data[:4] == image(self, start, 4)"},
                modifies={"busy": T.Range(0, 65535), "data2": T.Bytes}),
    },
    ensures={"returns_the_eight_bytes_stored_at_the_address":
             "result == self.g_E[2 * start:2 * start + 8]"},
    modifies=None,
    options={"inline": {"ebpfcat.ethercat:Terminal.read", "ebpfcat.ethercat:Terminal.write"}},
    canaries={"returns_the_next_word": "result == self.g_E[2 * start + 2:2 * start + 10]"})


# ------------------------------------------------------------- read_eeprom
def u16(F, p):
    return F[p] + 256 * F[p + 1]


def u32(F, p):
    return F[p] + 256 * F[p + 1] + 65536 * F[p + 2] + 16777216 * F[p + 3]


def entries(d):
    """the (key, value) insertions of a dict filled under symbolic keys"""
    return [v for k, v in d.items() if isinstance(k, tuple) and len(k) == 2 and k[0] == "entry"]


def cat_end(E, p):
    """byte position after the category whose header is at p"""
    return p + 4 + 2 * u16(E, p + 2)


def well_formed(E, n):
    """an SII image with exactly n categories (n <= 2) after word 0x40, then
    the end marker 0xffff; distinct category types"""
    p0 = 0x80
    if n == 0:
        return u16(E, p0) == 0xffff and len(E) >= p0 + 16
    p1 = cat_end(E, p0)
    if n == 1:
        return u16(E, p0) != 0xffff and u16(E, p1) == 0xffff and len(E) >= p1 + 16
    p2 = cat_end(E, p1)
    return (u16(E, p0) != 0xffff and u16(E, p1) != 0xffff and u16(E, p2) == 0xffff
            and u16(E, p0) != u16(E, p1) and len(E) >= p2 + 16)


def categories(E, n):
    p0 = 0x80
    out = []
    p = p0
    for _ in range(n):
        out.append((u16(E, p), E[p + 4:cat_end(E, p)]))
        p = cat_end(E, p)
    return out


# the loop of the nested get_data: what has been read and not yet consumed is
# the image between the cursor and the read position
GET_DATA = Contract(
    "ebpfcat.ethercat:Terminal.read_eeprom.get_data", params={},
    loops={1: Loop(invariant={
        "unconsumed_bytes_are_the_image_up_to_the_read_position":
            "data == self.g_E[2 * pos - len(data):2 * pos] and len(data) <= 2 * pos",
        "image_covers_the_request": "2 * pos - len(data) + size + 8 <= len(self.g_E)",
        "cursor_stays": "2 * pos - len(data) == cursor"},
        entry={"cursor": "2 * pos - len(data)"},
        modifies={"data": T.Bytes, "pos": T.Range(0, None)})},
    inline=True)


class ReadOne(Contract_):
    """_eeprom_read_one by its contract (proved above)"""
    inline = False
    loops = {}

    def apply(self, ex, args, kwargs, frame, node):
        t, start = args
        E = t.fields["g_E"]
        s2 = 2 * lift_int(start)
        ex.check(f"call[Terminal._eeprom_read_one].requires[image_covers_the_read]@{ex.target_short}",
                 s2 + 8 <= ops.b_len(lift_bytes(E)), "2 * start + 8 <= len(image)")
        r = fresh(ex, T.Bytes, "eeprom_8_bytes")
        ex.assume(lift_bool(ops.values_equal(ex, r, ops.bslice(E, Sym(s2, INT), Sym(s2 + 8, INT)))))
        return r


def read_eeprom_contract(n):
    return Contract(
        Terminal.read_eeprom, name=f"Terminal.read_eeprom<{n} categories>",
        params=dict(self=T.Obj(Terminal, **TERM)),
        requires={"well_formed_image": f"well_formed(self.g_E, {n})"},
        ensures={
            "identity_fields": "self.vendorId == u32(self.g_E, 16) and self.productCode == u32(self.g_E, 20) "
                               "and self.revisionNo == u32(self.g_E, 24) and self.serialNo == u32(self.g_E, 28)",
            "every_category_up_to_the_end_marker_keyed_by_its_type":
                f"entries(self.eeprom) == categories(self.g_E, {n})",
        },
        modifies=None,
        # the walk runs once per category and once for the end marker
        options={"ghost_dict": True, "ground_feasibility": True, "unroll_limit": n + 1,
                 "unroll_is_obligation": True},
        canaries={"first_category_lost": "len(entries(self.eeprom)) == 0"} if n else {})


# ------------------------------------------------------- parse_sync_managers
def sm_mode(d, j):
    return d[8 * j + 4] & 0xf


def sm_off(d, j):
    return u16(d, 8 * j)


def sm_size(d, j):
    return u16(d, 8 * j + 2)


def last_of_its_mode(d, g, upto):
    return all(sm_mode(d, j) != sm_mode(d, g) for j in range(g + 1, upto))


def reflects(t, d, g):
    """the attributes of entry g's kind are the offset and size stored in it"""
    m, off, size = sm_mode(d, g), sm_off(d, g), sm_size(d, g)
    return (implies(m == 0, t.pdo_in_off == off and t.pdo_in_sz == size and t.pdo_in_addr == 0x800 + 8 * g)
            and implies(m == 2, t.mbx_in_off == off and t.mbx_in_sz == size)
            and implies(m == 4, t.pdo_out_off == off and t.pdo_out_sz == size and t.pdo_out_addr == 0x800 + 8 * g)
            and implies(m == 6, t.mbx_out_off == off and t.mbx_out_sz == size))


SM_FIELDS = ["mbx_out_off", "mbx_out_sz", "mbx_in_off", "mbx_in_sz", "pdo_out_off", "pdo_out_sz",
             "pdo_in_off", "pdo_in_sz"]

parse_sync_managers = Contract(
    Terminal.parse_sync_managers,
    params=dict(self=T.Obj(Terminal), data=T.Bytes, g=T.Range(0, None)),
    requires={"whole_entries": "len(data) % 8 == 0", "ghost_entry": "8 * g < len(data)"},
    loops={1: Loop(
        invariant={"entries_so_far": "implies(g < _i and last_of_its_mode(data, g, _i), reflects(self, data, g))",
                   "range": "0 <= _i and 8 * _i <= len(data)"},
        modifies=dict({f"self.{f}": T.Opt(T.Range(0, 65535)) for f in SM_FIELDS},
                      **{"self.pdo_in_addr": T.Int, "self.pdo_out_addr": T.Int, "offset": T.Int, "size": T.Int,
                         "mode": T.Int, "i": T.Int}))},
    ensures={"every_area_has_the_offset_and_size_stored_for_it":
             "implies(last_of_its_mode(data, g, len(data) // 8), reflects(self, data, g))"},
    modifies=None,
    canaries={"mailbox_and_process_data_swapped":
              "implies(sm_mode(data, g) == 2, self.pdo_in_off == sm_off(data, g))"})


def uninstall():
    REGISTRY.pop(EepromBus.qualname, None)


# ---------------------------------------------------------------- parse_pdos
# A PDO category is a row of 8-byte slots: a header (index, number of entries
# at byte 2, sync manager, ...) followed by that many entry slots (index,
# subindex, two name indices, data type, bit length at byte 5, flags).
def slot_count(s, m):
    return s[8 * m + 2]


def slot_hdr(s, m):
    """the slot number of the header that slot m belongs to (m itself for a header)"""
    if m == 0:
        return 0
    h = slot_hdr(s, m - 1)
    return h if m <= h + slot_count(s, h) else m


def is_entry(s, m):
    return slot_hdr(s, m) != m


def e_idx(s, m):
    return u16(s, 8 * m)


def e_sub(s, m):
    return s[8 * m + 2]


def e_bits(s, m):
    return s[8 * m + 5]


def bit_position(s, m):
    """the bits of all entries stored before slot m"""
    return sum(e_bits(s, j) for j in range(m) if is_entry(s, j))


def pdo_well_formed(s, K):
    """whole slots, at most K of them, every PDO complete; mapped entries have
    a size the process image can hold: single bits .. 7 bits, or 1/2/4/8 bytes"""
    n = len(s) // 8
    return (len(s) % 8 == 0 and n <= K
            and all(implies(m == n - 1, slot_hdr(s, m) + slot_count(s, slot_hdr(s, m)) == m) for m in range(K))
            and all(implies(m < n and is_entry(s, m) and e_idx(s, m) != 0,
                            e_bits(s, m) < 8 or e_bits(s, m) in (8, 16, 32, 64)) for m in range(K)))


def byte_aligned(s, K):
    n = len(s) // 8
    return all(implies(m < n and is_entry(s, m) and e_idx(s, m) != 0 and e_bits(s, m) >= 8,
                       bit_position(s, m) % 8 == 0) for m in range(K))


def expected_pdos(s, sm, K):
    """the insertions into Terminal.pdos that the category stands for, in order"""
    out = []
    for m in range(K):
        if 8 * m < len(s) and is_entry(s, m) and e_idx(s, m) != 0:
            bits, pos = e_bits(s, m), bit_position(s, m)
            where = pos % 8 if bits < 8 else ("B" if bits == 8 else "H" if bits == 16 else "I" if bits == 32 else "Q")
            out.append(((e_idx(s, m), e_sub(s, m)), (sm, pos // 8, where)))
    return out


def total_bits(s, K):
    return sum(e_bits(s, j) for j in range(K) if 8 * j < len(s) and is_entry(s, j))


def _pdo_setup(keys):
    def setup(ex, inputs):
        from vc.pyvc.values import PDict
        t = inputs.vars["self"]
        d = {}
        if 51 in keys:
            d[51] = inputs.vars["s_out"]
        if 50 in keys:
            d[50] = inputs.vars["s_in"]
        t.fields["eeprom"] = PDict(d)
    return setup


def pdo_contract(keys, K):
    """parse_pdos from the EEPROM categories `keys` (50 = inputs, 51 = outputs),
    each of at most K slots"""
    exp_out = f"expected_pdos(s_out, SyncManager.OUT, {K})" if 51 in keys else "[]"
    exp_in = f"expected_pdos(s_in, SyncManager.IN, {K})" if 50 in keys else "[]"
    bits_out = f"total_bits(s_out, {K})" if 51 in keys else "0"
    bits_in = f"total_bits(s_in, {K})" if 50 in keys else "0"
    wf = [f"pdo_well_formed({v}, {K})" for k, v in ((51, "s_out"), (50, "s_in")) if k in keys] or ["True"]
    al = [f"byte_aligned({v}, {K})" for k, v in ((51, "s_out"), (50, "s_in")) if k in keys] or ["True"]
    c = Contract(
        Terminal.parse_pdos, name=f"Terminal.parse_pdos<EEPROM categories {sorted(keys)}, up to {K} slots>",
        params=dict(self=T.Obj(Terminal, mbx_out_off=T.Const(None), mbx_in_off=T.Const(None)),
                    s_out=T.Bytes, s_in=T.Bytes),
        setup=_pdo_setup(keys),
        requires={"well_formed_categories": " and ".join(wf)},
        raises=[Raises(RuntimeError, when="not (" + " and ".join(al) + ")")],
        ensures={"every_mapped_entry_has_its_byte_and_bit_position":
                 f"entries(self.pdos) == {exp_out} + {exp_in}",
                 "returns_the_bits_of_both_directions": f"result == ({bits_out}, {bits_in})"},
        modifies=None,
        options={"ghost_dict": True, "unroll_limit": 2 * K + 2,
                 "inline": {"ebpfcat.ethercat:Terminal.has_mailbox"}},
        canaries={"bit_position_restarts_at_every_entry":
                  f"all(v[1] == 0 for k, v in entries(self.pdos))"} if K >= 3 else
        {"nothing_is_mapped": "len(entries(self.pdos)) == 0"} if keys else {})
    c.keys = set(keys)
    return c


def pdo_contracts(tier):
    if tier == "thorough":
        return [pdo_contract({51}, 4), pdo_contract({50}, 4), pdo_contract({50, 51}, 3), pdo_contract(set(), 1)]
    return [pdo_contract({51}, 3), pdo_contract({50, 51}, 2), pdo_contract(set(), 1)]


# --------------------------------------- parse_pdos, unbounded (two contracts)
# The nested generator parse_eeprom(s) as the SEQUENCE of its yields, for a
# category of any number of PDOs and entries.  Ghost lists describe the slot
# structure: hdr[m] = slot number of the header slot m belongs to (m itself for
# a header), rank[m] = number of entry slots before slot m.
def slots_well_formed(s, hdr, rank):
    n = len(s) // 8
    return (len(s) % 8 == 0 and len(hdr) == n and len(rank) == n + 1 and rank[0] == 0
            and implies(n > 0, hdr[0] == 0)
            and all(hdr[m] == (hdr[m - 1] if m <= hdr[m - 1] + s[8 * hdr[m - 1] + 2] else m)
                    for m in range(1, n))
            and all(0 <= hdr[m] and hdr[m] <= m and hdr[m] + s[8 * hdr[m] + 2] <= n - 1 for m in range(n))
            and all(rank[m + 1] == rank[m] + (1 if hdr[m] != m else 0) for m in range(n)))


def triple(s, m):
    return (u16(s, 8 * m), s[8 * m + 2], s[8 * m + 5])


def yields_upto(y, s, hdr, rank, k):
    """the entries stored in slots below k have been yielded, in order"""
    return all(implies(hdr[m] != m, 0 <= rank[m] and rank[m] < rank[k] and y[rank[m]] == triple(s, m))
               for m in range(k))


def parse_eeprom():
  return Contract(
    "ebpfcat.ethercat:Terminal.parse_pdos.parse_eeprom", nested=(Terminal.parse_pdos, "parse_eeprom"),
    params=dict(s=T.Bytes, hdr=T.List(T.Int), rank=T.List(T.Int)),
    requires={"well_formed_slots": "slots_well_formed(s, hdr, rank)"},
    result=T.Tuple(T.Int, T.Int, T.Int),
    loops={
        1: Loop(invariant={
            "at_a_header_or_the_end": "i % 8 == 0 and 0 <= i and i <= len(s) "
                                      "and implies(i < len(s), hdr[i // 8] == i // 8)",
            "yielded_so_far": "len(_yielded) == rank[i // 8] and yields_upto(_yielded, s, hdr, rank, i // 8)"},
            modifies={"i": T.Int, "_yielded": T.List(T.Tuple(T.Int, T.Int, T.Int)), "idx": T.Int, "e": T.Int,
                      "sm": T.Int, "u1": T.Int, "u2": T.Int, "u3": T.Int, "subidx": T.Int, "k1": T.Int,
                      "k2": T.Int, "bits": T.Int, "er": T.Int}),
        2: Loop(invariant={
            "inside_the_pdo": "i == 8 * (h + 1 + _i) and hdr[h + _i] == h and h + e <= len(s) // 8 - 1",
            "yielded_so_far": "len(_yielded) == rank[h + 1 + _i] "
                              "and yields_upto(_yielded, s, hdr, rank, h + 1 + _i)"},
            entry={"h": "i // 8 - 1"},
            modifies={"i": T.Int, "_yielded": T.List(T.Tuple(T.Int, T.Int, T.Int)), "idx": T.Int,
                      "subidx": T.Int, "k1": T.Int, "k2": T.Int, "bits": T.Int}),
    },
    ensures={"yields_exactly_the_stored_entries_in_order":
             "len(result) == rank[len(s) // 8] and yields_upto(result, s, hdr, rank, len(s) // 8)"},
    modifies=None,
    options={"generator": "collect"},
    canaries={"yields_nothing": "len(result) == 0"})


# The nested consumer parse(func, sm) over ANY sequence of (index, subindex,
# bits) triples.  Ghosts: pre[k] = sum of the bits of the first k triples; an
# arbitrary key (gi, gs) at which the dict self.pdos is observed (g_present /
# g_value on self); an arbitrary position gk of the sequence.
def seq_ok(func, pre):
    return (len(pre) == len(func) + 1 and pre[0] == 0
            and all(pre[k + 1] == pre[k] + func[k][2] for k in range(len(func)))
            and all(implies(func[k][0] != 0 and func[k][2] >= 8,
                            (func[k][2] == 8 or func[k][2] == 16 or func[k][2] == 32 or func[k][2] == 64)
                            and pre[k] % 8 == 0) for k in range(len(func))))


def maps_key(func, k, gi, gs):
    return func[k][0] == gi and func[k][1] == gs and func[k][0] != 0


def last_for_key(func, gk, upto, gi, gs):
    return all(not maps_key(func, j, gi, gs) for j in range(gk + 1, upto))


def where_of(bits, pos):
    """third component of a pdos value: bit position, or the struct format"""
    return pos % 8 if bits < 8 else ("B" if bits == 8 else "H" if bits == 16 else "I" if bits == 32 else "Q")


def holds_entry(t, func, pre, gk, sm):
    return t.g_present and t.g_value == (sm, pre[gk] // 8, where_of(func[gk][2], pre[gk]))


TRIPLES = T.List(T.Tuple(T.Range(0, 65535), T.Range(0, 255), T.Range(0, 255)))

def parse_consumer():
  return Contract(
    "ebpfcat.ethercat:Terminal.parse_pdos.parse", nested=(Terminal.parse_pdos, "parse"),
    params=dict(func=TRIPLES, sm=T.Enum(SyncManager, [SyncManager.IN, SyncManager.OUT]),
                self=T.Obj(Terminal, g_present=T.Const(False), g_value=T.Const(None)),
                pre=T.List(T.Int), gi=T.Range(0, 65535), gs=T.Range(0, 255), gk=T.Range(0, None)),
    setup=lambda ex, inputs: inputs.vars["self"].fields.__setitem__(
        "pdos", __import__("vc.pyvc.values", fromlist=["PDict"]).PDict()),
    requires={"sequence_with_its_prefix_sums": "seq_ok(func, pre)",
              "ghost_position": "gk < len(func) and maps_key(func, gk, gi, gs)"},
    loops={1: Loop(
        invariant={"bit_position_is_the_sum_so_far": "bitpos == pre[_i]",
                   "range": "0 <= _i and _i <= len(func)",
                   "last_entry_of_the_key_so_far":
                       "implies(gk < _i and last_for_key(func, gk, _i, gi, gs), holds_entry(self, func, pre, gk, sm))"},
        modifies={"bitpos": T.Int, "idx": T.Int, "subidx": T.Int, "bits": T.Int,
                  "self.g_present": T.Bool,
                  # the third component is a bit position or a struct format
                  "self.g_value": T.Tuple(T.Enum(SyncManager), T.Int,
                                          T.OneOf(T.Int, T.Const("B"), T.Const("H"), T.Const("I"), T.Const("Q")))})},
    ensures={"returns_the_total_number_of_bits": "result == pre[len(func)]",
             "each_mapped_entry_has_its_byte_and_bit_position_or_format":
                 "implies(last_for_key(func, gk, len(func), gi, gs), holds_entry(self, func, pre, gk, sm))"},
    modifies=None,
    options={"ghost_key": ("self", ("gi", "gs"))},
    canaries={"every_entry_at_byte_zero": "implies(self.g_present, self.g_value[1] == 0)",
              "formats_never_stored": "implies(self.g_present, self.g_value[2] != 'H')",
              "a_format_seen_earlier_is_lost":
                  "implies(gk + 1 < len(func) and func[gk][2] == 16 and last_for_key(func, gk, len(func), gi, gs), "
                  "not self.g_present)"})
