"""C15 -- mailbox exchanges with a terminal are serialised and counted.

Under contract (real source, ebpfcat/lock.py and ebpfcat/ethercat.py):
  MailboxLock.next_counter, ParallelMailboxLock.next_counter / __aenter__ /
  __aexit__, LockFile.__init__, Terminal.mbx_send, and -- for the call-site
  obligation "the lock is held" -- Terminal.coe_request / sdo_read / sdo_write.

Assumed contracts (environment):
  asyncio.Lock    exclusive among the tasks of one process: acquire returns
                  only when no other task holds it.
  fcntl.lockf     exclusive among *processes* (POSIX record locks are owned by
                  the process): LOCK_EX|LOCK_NB raises OSError iff another
                  process holds the range; a second task of the same process
                  is NOT excluded.
  os.open(O_CREAT|O_EXCL) creates an empty file or raises FileExistsError;
  os.write appends/overwrites at the file position (0 after open);
  os.ftruncate(fd, n) sets the length, new bytes are zero, existing bytes stay;
  os.pread(fd, 1, k) returns b"" if k >= length, else one byte;
  os.pwrite(fd, b, k) writes at k, extending the file.

Ghost state of a ParallelMailboxLock `l` (never in /repo):
  l.g_other_task_inside   another task of this process is between __aenter__
                          and __aexit__ on this lock
  l.g_other_proc_holds    another process holds the lockf range (changes at
                          every await: rely)
  l.lock_file.g_len       current length of the lock file
  l.lock_file.g_byte      current value of byte `no` of the file (if present)
Resource invariant of byte `no`, owned by whoever is inside the critical
section: it holds the next counter, 0..7, and is only read/written by the
owner.  Guarantee proved for this code and relied upon for the other tasks:
a task is inside only while it holds every asyncio.Lock the lock object owns.
"""
import asyncio
import fcntl
import os

import z3

from ebpfcat.lock import LockFile, MailboxLock, ParallelMailboxLock

from vc.pyvc import lib
from vc.pyvc.api import REGISTRY, Contract, Loop, Raises, T, implies
from vc.pyvc.exec import Contract_, OutOfReach, PyRaise
from vc.pyvc.types import fresh
from vc.pyvc.values import BOOL, BYTES, INT, Obj, Sym, lift_bool, lift_int, mk_bool


def succ(c):
    """successor in the mailbox counter cycle 1..7 (0 only ever first)"""
    return 1 if c == 0 or c == 7 else c + 1


# --------------------------------------------------------- asyncio.Lock model
class LockLocked(Contract_):
    inline = False
    loops = {}

    def apply(self, ex, args, kwargs, frame, node):
        return args[0].fields["g_held"]


class LockAcquire(Contract_):
    """returns only when no other task holds the lock; then this task does"""
    inline = False
    loops = {}

    def apply(self, ex, args, kwargs, frame, node):
        l = args[0]
        ex.check(f"{ex.target_short}.asyncio.Lock.acquire.requires[not held by this task already]",
                 mk_bool(z3.Not(lift_bool(l.fields["g_held"]))),
                 "a task must not acquire a lock it already holds (deadlock)")
        l.fields["g_held_by_other"] = False
        l.fields["g_held"] = True
        # acquire is an await: the other tasks have moved on.  Their guarantee
        # (inside only while holding the object's locks) holds in the new state
        owner = ex.inputs.get("self")
        if isinstance(owner, Obj) and "g_other_task_inside" in owner.fields:
            b = fresh(ex, T.Bool, "other_task_inside'")
            held = [lift_bool(owner.fields[n].fields["g_held_by_other"]) for n in TASK_LOCKS]
            ex.assume(z3.Implies(b.t, z3.And(*held)) if held else z3.BoolVal(True))
            owner.fields["g_other_task_inside"] = b
        return True


class LockRelease(Contract_):
    inline = False
    loops = {}

    def apply(self, ex, args, kwargs, frame, node):
        l = args[0]
        if not ex.fork(lift_bool(l.fields["g_held"]), "lock held at release"):
            raise PyRaise(ex.make_exc(RuntimeError))
        l.fields["g_held"] = False
        return None


class LockEnter(Contract_):
    inline = False
    loops = {}

    def apply(self, ex, args, kwargs, frame, node):
        LockAcquire().apply(ex, args, kwargs, frame, node)
        return None


class LockExit(Contract_):
    inline = False
    loops = {}

    def apply(self, ex, args, kwargs, frame, node):
        LockRelease().apply(ex, args[:1], kwargs, frame, node)
        return None


LOCK_MODEL = {
    "asyncio.locks:Lock.locked": LockLocked(),
    "asyncio.locks:Lock.acquire": LockAcquire(),
    "asyncio.locks:Lock.release": LockRelease(),
    "asyncio.locks:_ContextManagerMixin.__aenter__": LockEnter(),
    "asyncio.locks:_ContextManagerMixin.__aexit__": LockExit(),
}

ALOCK = T.Obj(asyncio.Lock, g_held=T.Const(False), g_held_by_other=T.Bool)


# ------------------------------------------------------------ MailboxLock
mailbox_next = Contract(
    MailboxLock.next_counter,
    params=dict(self=T.Obj(MailboxLock, counter=T.Range(0, 7), g_held=T.Bool)),
    ensures={
        "message_carries_the_current_counter": "result == old.self.counter",
        "successor_in_the_cycle": "self.counter == succ(old.self.counter)",
        "never_zero_again": "1 <= self.counter and self.counter <= 7",
    },
    raises=[Raises(AssertionError, when="not self.g_held",
                   ensures={"counter_untouched": "self.counter == old.self.counter"})],
    modifies=["self.counter"],
    result=T.Int,
    canaries={"counter_repeats": "self.counter == old.self.counter"},
)


# ----------------------------------------------------- ParallelMailboxLock
def task_lock_names():
    """names of the asyncio.Lock objects a ParallelMailboxLock owns, read from
    a real instance (so that the contract does not depend on the attribute
    name): these are the locks a task holds while it is inside"""
    class LF:
        minimum, maximum, fd = 0, 10, -1
    try:
        l = ParallelMailboxLock(LF(), 5)
    except Exception:
        return []
    return sorted(k for k, v in vars(l).items() if isinstance(v, asyncio.Lock))


TASK_LOCKS = task_lock_names()

LOCKFILE = T.Obj(LockFile, fd=T.Const(7), minimum=T.Range(0, 65535), maximum=T.Range(0, 65535),
                 g_len=T.Range(0, None), g_byte=T.Range(0, 255))


def pml(counter, **over):
    f = dict(lock_file=LOCKFILE, no=T.Range(0, 65535), counter=counter,
             g_other_task_inside=T.Bool, g_other_proc_holds=T.Bool,
             g_inside=T.Const(False), g_lockf=T.Const(False))
    for n in TASK_LOCKS:
        f[n] = ALOCK
    f.update(over)
    return T.Obj(ParallelMailboxLock, **f)


def guarantee_of_the_other_tasks(l):
    """rely: a task of this process that is inside holds every asyncio.Lock of
    the object (proved for this code as `inside_only_while_holding_the_task_locks`)"""
    if not TASK_LOCKS:
        return True
    return implies(l.g_other_task_inside,
                   all(getattr(l, n).g_held_by_other for n in TASK_LOCKS))


def holds_task_locks(l):
    return all(getattr(l, n).g_held for n in TASK_LOCKS)


@lib.model(fcntl.lockf)
def _m_lockf(ex, args, kw):
    fd, cmd = args[0], args[1]
    l = ex.inputs["self"]
    if not isinstance(l, Obj) or "g_other_proc_holds" not in l.fields:
        raise OutOfReach("fcntl.lockf outside the mailbox lock contract")
    # the record lock covers exactly the terminal's byte: a wider range (or the
    # default "whole file") would take or drop the locks this process holds
    # for other terminals of the same lock file
    ln = args[2] if len(args) > 2 else 0
    start = args[3] if len(args) > 3 else 0
    ex.check(f"{ex.target_short}.lockf.range[exactly the terminal's counter byte]",
             mk_bool(z3.And(lift_int(ln) == 1, lift_int(start) == lift_int(l.fields["no"]))),
             "fcntl.lockf(fd, cmd, 1, no): length 1 at offset `no` (length 0 means: to the end of the file)")
    if isinstance(cmd, int) and cmd & fcntl.LOCK_UN:
        ex.check(f"{ex.target_short}.lockf.release.requires[counter written back first]",
                 lift_bool(l.fields.get("g_written_back", False)),
                 "the byte is re-established (counter written back) before the range is unlocked")
        l.fields["g_lockf"] = False
        return None
    if ex.fork(lift_bool(l.fields["g_other_proc_holds"]), "another process holds the range"):
        raise PyRaise(ex.make_exc(OSError))
    l.fields["g_lockf"] = True
    return None


@lib.model(os.pread)
def _m_pread(ex, args, kw):
    fd, n, off = args
    l = ex.inputs["self"]
    lf = l.fields["lock_file"]
    ex.check("resource_invariant[the counter byte is read only by the lock holder]",
             lift_bool(l.fields["g_lockf"]),
             "os.pread of the counter byte happens while this process holds the lockf range")
    if ex.fork(lift_int(off) >= lift_int(lf.fields["g_len"]),
               "the lock file is still shorter than the byte (creation window)"):
        return b""
    b = lf.fields["g_byte"]
    return lib_bytes1(ex, b)


def lib_bytes1(ex, b):
    from vc.pyvc.values import mkb
    k = z3.Int("k!b1")
    return Sym(mkb(z3.Lambda([k], lift_int(b)), z3.IntVal(1)), BYTES)


@lib.model(os.pwrite)
def _m_pwrite(ex, args, kw):
    fd, data, off = args
    l = ex.inputs["self"]
    if isinstance(ex.inputs.get("fs"), Obj) and "others_wrote" in ex.inputs["fs"].fields:
        # LockFile.__init__ (creation of the shared file): a positioned write
        # overwrites [off, off + len(data))
        fs = _fs(ex)
        _others_may_write(ex)
        from vc.pyvc import ops
        n = ops.b_len(lift_b(data))
        o = lift_int(off)
        pos = lift_int(fs.fields["others_pos"])
        ex.check("LockFile.__init__.guarantee[initialising the file keeps the counters others stored]",
                 mk_bool(z3.Not(z3.And(lift_bool(fs.fields["others_wrote"]), pos >= o, pos < o + n))),
                 "writing the initial contents must not overwrite a counter another participant stored "
                 "after the file appeared (os.pwrite at offset o overwrites [o, o + len))")
        fs.fields["length"] = Sym(z3.If(o + n > lift_int(fs.fields["length"]), o + n, lift_int(fs.fields["length"])), INT)
        return Sym(n, INT)
    lf = l.fields["lock_file"]
    ex.check("resource_invariant[the counter byte is written only by the lock holder]",
             lift_bool(l.fields["g_lockf"]),
             "os.pwrite of the counter byte happens while this process holds the lockf range")
    from vc.pyvc import ops
    lf.fields["g_byte"] = ops.bindex(ex, data, 0)
    ln = lift_int(lf.fields["g_len"])
    lf.fields["g_len"] = Sym(z3.If(ln > lift_int(off), ln, lift_int(off) + 1), INT)
    l.fields["g_written_back"] = True
    return 1


def rely(ex, frame, node):
    """at an await: other processes take and release the lockf range"""
    l = ex.inputs["self"]
    l.fields["g_other_proc_holds"] = fresh(ex, T.Bool, "other_proc_holds'")


pml_enter = Contract(
    ParallelMailboxLock.__aenter__,
    params=dict(self=pml(T.Const(None))),
    requires={"rely_on_the_other_tasks": "guarantee_of_the_other_tasks(self)",
              "file_is_consistent": "self.lock_file.g_byte <= 7"},
    loops={1: Loop(invariant={"range_not_locked_yet": "not self.g_lockf",
                              "task_locks_held": "holds_task_locks(self)",
                              "others_excluded": "implies(len(TASK_LOCKS) > 0, not self.g_other_task_inside)"},
                   modifies={"self.g_other_proc_holds": T.Bool})},
    ensures={
        "exclusive_among_the_tasks_of_this_process": "not self.g_other_task_inside",
        "exclusive_among_processes": "self.g_lockf and not self.g_other_proc_holds",
        "inside_only_while_holding_the_task_locks": "holds_task_locks(self)",
        "obtains_a_valid_counter": "self.counter is not None and 0 <= self.counter and self.counter <= 7",
        "counter_is_the_stored_one":
            "implies(self.no < self.lock_file.g_len, self.counter == self.lock_file.g_byte)",
    },
    raises=[],
    modifies=["self.counter", "self.g_lockf", "self.g_other_proc_holds", "self.g_inside",
              "self.g_other_task_inside"]
    + [f"self.{n}.g_held" for n in TASK_LOCKS] + [f"self.{n}.g_held_by_other" for n in TASK_LOCKS],
    options={"rely": rely},
    canaries={"counter_always_zero": "self.counter == 0"},
)

pml_exit = Contract(
    ParallelMailboxLock.__aexit__,
    params=dict(self=pml(T.Range(0, 7), g_lockf=T.Const(True),
                         **{n: T.Obj(asyncio.Lock, g_held=T.Const(True), g_held_by_other=T.Const(False))
                            for n in TASK_LOCKS}),
                a=T.Const(None), b=T.Const(None), c=T.Const(None)),
    ensures={
        "counter_written_back": "self.lock_file.g_byte == old.self.counter and "
                                "self.lock_file.g_len > self.no",
        "range_unlocked": "not self.g_lockf",
        "task_locks_released": "not any(getattr(self, n).g_held for n in TASK_LOCKS)",
        "counter_forgotten": "self.counter is None",
    },
    modifies=["self.counter", "self.g_lockf", "self.g_written_back", "self.lock_file.g_byte",
              "self.lock_file.g_len"] + [f"self.{n}.g_held" for n in TASK_LOCKS],
    canaries={"byte_left_as_it_was": "self.lock_file.g_byte == old.self.lock_file.g_byte"},
)

pml_next = Contract(
    ParallelMailboxLock.next_counter,
    params=dict(self=pml(T.Range(0, 7))),
    ensures={
        "message_carries_the_current_counter": "result == old.self.counter",
        "successor_in_the_cycle": "self.counter == succ(old.self.counter)",
        "never_zero_again": "1 <= self.counter and self.counter <= 7",
    },
    modifies=["self.counter"],
    result=T.Int,
    canaries={"counter_repeats": "self.counter == old.self.counter"},
)


# ----------------------------------------------------------- LockFile.__init__
class FS:
    """ghost file system for LockFile.__init__: does the file exist, its
    length, and whether another participant has already stored bytes in it"""


@lib.model(os.makedirs)
def _m_makedirs(ex, args, kw):
    return None


def _fs(ex):
    return ex.inputs["fs"]


@lib.model(os.open)
def _m_open(ex, args, kw):
    name, flags = args[0], args[1]
    fs = _fs(ex)
    if isinstance(flags, int) and flags & os.O_EXCL:
        if ex.fork(lift_bool(fs.fields["exists"]), "the lock file already exists"):
            raise PyRaise(ex.make_exc(FileExistsError))
        fs.fields["exists"] = True
        fs.fields["created_by_me"] = True
        fs.fields["length"] = 0
        # another participant may open the (still empty) file from now on and
        # store its counter byte at any time: rely
        return 7
    return 7


def _others_may_write(ex):
    fs = _fs(ex)
    fs.fields["others_wrote"] = fresh(ex, T.Bool, "others_wrote")
    fs.fields["others_pos"] = fresh(ex, T.Range(0, 65535), "others_pos")
    # others store counters of terminals of the file's range only
    # (ParallelMailboxLock.__init__ asserts minimum <= no < maximum)
    ex.assume(lift_int(fs.fields["others_pos"]) <
              lift_int(ex.inputs["maximum"]) - lift_int(ex.inputs["minimum"]))
    fs.fields["others_val"] = fresh(ex, T.Range(1, 7), "others_val")


@lib.model(os.write)
def _m_write(ex, args, kw):
    fd, data = args
    fs = _fs(ex)
    _others_may_write(ex)
    from vc.pyvc import ops
    n = ops.b_len(lift_b(data))
    # guarantee towards the other participants: bytes they stored stay
    ex.check("LockFile.__init__.guarantee[initialising the file keeps the counters others stored]",
             mk_bool(z3.Not(z3.And(lift_bool(fs.fields["others_wrote"]),
                                   lift_int(fs.fields["others_pos"]) < n))),
             "writing the initial contents must not overwrite a counter another participant stored "
             "after the file appeared (os.write at offset 0 overwrites [0, len))")
    fs.fields["length"] = Sym(z3.If(n > lift_int(fs.fields["length"]), n, lift_int(fs.fields["length"])), INT)
    return Sym(n, INT)


def lift_b(v):
    from vc.pyvc.values import lift_bytes
    return lift_bytes(v)


@lib.model(os.ftruncate)
def _m_ftruncate(ex, args, kw):
    fd, n = args
    fs = _fs(ex)
    _others_may_write(ex)
    ex.check("LockFile.__init__.guarantee[initialising the file keeps the counters others stored]",
             mk_bool(z3.Not(z3.And(lift_bool(fs.fields["others_wrote"]),
                                   lift_int(fs.fields["others_pos"]) >= lift_int(n)))),
             "ftruncate keeps existing bytes below the new length (it may only cut bytes beyond it)")
    fs.fields["length"] = n
    return None


lockfile_init = Contract(
    LockFile.__init__,
    params=dict(self=T.Obj(LockFile), filename=T.Const("/run/ebpf/x"), minimum=T.Range(0, 65535),
                maximum=T.Range(0, 65535),
                fs=T.Obj(FS, exists=T.Bool, created_by_me=T.Const(False), length=T.Range(0, None),
                         others_wrote=T.Const(False), others_pos=T.Const(0), others_val=T.Const(1))),
    requires={"range": "minimum <= maximum"},
    ensures={
        "creator_leaves_a_file_that_covers_every_terminal":
            "implies(fs.created_by_me, fs.length >= maximum - minimum)",
        "remembers_the_range": "self.minimum == minimum and self.maximum == maximum",
    },
    modifies=None,
    canaries={"always_the_creator": "fs.created_by_me"},
)


# ------------------------------------------------------------ Terminal.mbx_send
from ebpfcat.ethercat import ECCmd, EtherCat, MBXType, Terminal  # noqa: E402


class MbxBus(Contract_):
    """EtherCat.roundtrip as seen by mbx_send: the mailbox status register
    reads anything; the write of the mailbox header is checked against the
    property (the message carries the lock's current counter, the lock is
    held)"""
    inline = False
    qualname = "ebpfcat.ethercat:EtherCat.roundtrip"
    loops = {}

    def apply(self, ex, args, kwargs, frame, node):
        ec, cmd, pos, offset = args[:4]
        rest = tuple(args[4:])
        t = ex.inputs["self"]
        lock = t.fields["mbx_lock"]
        if cmd is ECCmd.FPRD and rest == ("B",):
            return (fresh(ex, T.Range(0, 255), "mbx_status"),)
        if cmd is ECCmd.FPWR and rest[:1] == ("HHBB",):
            ex.check("mbx_send.header[lock held while the message is written]",
                     lift_bool(lock.fields["g_held"]),
                     "the mailbox is written only by the holder of the terminal's mailbox lock")
            hdr = rest[4]
            c0 = ex.old.fields["self"].fields["mbx_lock"].fields["counter"]
            ex.check("mbx_send.header[message carries the lock's counter]",
                     lift_int(hdr) == lift_int(t.fields["g_type"]) + 16 * lift_int(c0),
                     "header byte == type | counter << 4 with the counter the lock held on entry")
            ex.check("mbx_send.header[the lock's counter moved to its successor]",
                     lift_int(lock.fields["counter"]) ==
                     z3.If(z3.Or(lift_int(c0) == 0, lift_int(c0) == 7), 1, lift_int(c0) + 1),
                     "one message, one step of the cycle 1..7")
            ex.ghost["header_written"] = True
            return ()
        if cmd is ECCmd.FPWR and "data" in kwargs:
            return b""
        raise OutOfReach(f"bus access {cmd} {offset} {rest} outside the mailbox contract")


def mbx_send_contract():
    return Contract(
        Terminal.mbx_send,
        params=dict(self=T.Obj(Terminal, ec=T.Obj(EtherCat), position=T.Range(0, 65535),
                               mbx_out_off=T.Range(0, 65535), mbx_out_sz=T.Range(16, 1486),
                               name=T.Const("t"), g_type=T.Int,
                               mbx_lock=T.Obj(MailboxLock, counter=T.Range(0, 7), g_held=T.Bool)),
                    type=T.Enum(MBXType), args=T.Tuple(T.Const("HBxH"), T.Range(0, 65535), T.Range(0, 255),
                                                       T.Range(0, 65535)),
                    data=T.Opt(T.Bytes)),
        requires={"ghost_type": "self.g_type == type.value"},
        ensures={},
        raises=[Raises(AssertionError, when=None)],
        modifies=None,
        options={"inline": {"ebpfcat.ethercat:Terminal.read", "ebpfcat.ethercat:Terminal.write",
                            "ebpfcat.ethercat:datasize"}},
    )


class RecvStub(Contract_):
    """mbx_recv when called from mbx_send (unexpected mail): any message"""
    inline = False
    loops = {}

    def apply(self, ex, args, kwargs, frame, node):
        return (fresh(ex, T.Enum(MBXType), "etype"), fresh(ex, T.Bytes, "edata"))


# ------------------------------------------- call sites: the lock is held
def lock_discipline(module):
    """every call of self.mbx_send / self.mbx_recv / <lock>.next_counter in
    `module` lies inside `async with self.mbx_lock` of the same function, or in
    a function whose own contract requires the lock (mbx_send, which the
    callers enter with the lock held).  The with-statement's contract (body
    runs between __aenter__ and __aexit__) makes lexical enclosure sufficient.
    -> [(function, line, callee, ok, why)]"""
    import ast
    import inspect
    tree = ast.parse(inspect.getsource(module))
    out = []
    requires_lock = {"mbx_send", "mbx_recv"}

    def is_lock_with(w):
        return isinstance(w, ast.AsyncWith) and any(
            isinstance(i.context_expr, ast.Attribute) and i.context_expr.attr == "mbx_lock"
            and isinstance(i.context_expr.value, ast.Name) and i.context_expr.value.id == "self"
            for i in w.items)

    def visit(fn, node, held):
        for ch in ast.iter_child_nodes(node):
            if isinstance(ch, (ast.FunctionDef, ast.AsyncFunctionDef, ast.Lambda)) and ch is not fn:
                visit(fn, ch, False)       # a nested function runs later: nothing is held
                continue
            h = held or is_lock_with(ch)
            if isinstance(ch, ast.Call) and isinstance(ch.func, ast.Attribute) and \
                    ch.func.attr in ("mbx_send", "mbx_recv", "next_counter"):
                inside = held or fn.name in requires_lock
                out.append((fn.name, ch.lineno, ch.func.attr, inside,
                            "inside `async with self.mbx_lock`" if held else
                            ("callee of lock holders (contract requires the lock)" if inside else
                             "NOT under the terminal's mailbox lock")))
            if is_lock_with(ch):
                # items are evaluated before the lock is taken, the body after
                for it in ch.items:
                    visit(fn, it, held)
                for st in ch.body:
                    visit(fn, ast.Module(body=[st], type_ignores=[]), True)
            else:
                visit(fn, ch, held)
    for cls in [n for n in tree.body if isinstance(n, ast.ClassDef) and n.name == "Terminal"]:
        for fn in cls.body:
            if isinstance(fn, (ast.FunctionDef, ast.AsyncFunctionDef)):
                visit(fn, fn, False)
    return out
