"""C13 -- EtherCat.roundtrip: datagram field encoding and decoding round-trip.

Bounded in: the shapes of `args` listed in SHAPES (up to four positional
arguments, concrete format strings taken from the call sites of the package);
unbounded in the values, in the raw data (any byte string, or any count) and in
the response bytes.
"""
import asyncio
from struct import calcsize, pack, unpack

from ebpfcat.ethercat import ECCmd, EtherCat

from vc.pyvc.api import Contract, T, implies

U8, U16, U32 = T.Range(0, 255), T.Range(0, 65535), T.Range(0, 2**32 - 1)

SHAPES = [
    T.Tuple(),
    T.Tuple(T.Const("H")),
    T.Tuple(T.Const("H"), U16),
    T.Tuple(T.Const("HI"), U16, U32),
    T.Tuple(T.Const("H2xH")),
    T.Tuple(T.Const("B"), U8, T.Const("H")),
    T.Tuple(T.Const("H"), U16, T.Const("I"), U32),
    T.Tuple(T.Const("HHBB"), U16, U16, U8, U8),
    # read-only formats whose native layout differs from the packed one
    T.Tuple(T.Const("HI")),
    T.Tuple(T.Const("BH")),
    T.Tuple(T.Const("H"), U16, T.Const("BxI")),
]


class QueueModel:
    """ghost FIFO standing for asyncio.Queue (assumed contract)"""

    def put_nowait(self, item):
        self.items.append(item)


class FutureModel:
    pass


def formats(args):
    return [a for a in args if isinstance(a, str)]


def values(args):
    return [a for a in args if not isinstance(a, str)]


def rawlen(data):
    return data if isinstance(data, int) else len(data)


def payload(args, data):
    """what the property says is sent"""
    f = formats(args)
    ro = f[-1] if len(args) > 0 and isinstance(args[-1], str) else None
    wf = "<" + "".join(f[:-1] if ro is not None else f)
    out = pack(wf, *values(args))
    if ro is not None:
        out = out + bytes(calcsize("<" + ro))
    if data is None:
        return out
    return out + (bytes(data) if isinstance(data, int) else data)


def decoded(args, data, ret):
    """what the property says is returned for the response bytes `ret`"""
    af = "<" + "".join(formats(args))
    if data is None:
        return unpack(af, ret)
    n = rawlen(data)
    if len(args) > 0:
        return unpack(af, ret[:len(ret) - n]) + (ret[len(ret) - n:],)
    return ret


ETHERCAT = T.Obj(EtherCat, send_queue=T.Obj(QueueModel, items=T.FixedList(T.Int, 0)))

roundtrip = Contract(
    EtherCat.roundtrip,
    params=dict(self=ETHERCAT, cmd=T.Enum(ECCmd), pos=T.Range(-32768, 65535),
                offset=T.Range(0, 65535), args=T.OneOf(*SHAPES),
                data=T.OneOf(T.Const(None), T.Bytes, T.Range(0, None)),
                idx=T.Range(0, 255), ret=T.Bytes),
    requires={"response_has_the_length_of_the_request":
              "len(ret) == len(payload(args, data))"},
    ensures={
        "one_request_queued": "len(self.send_queue.items) == 1",
        "payload_sent": "self.send_queue.items[0][1] == payload(args, data)",
        "addressing_sent": "self.send_queue.items[0][0] is cmd and "
                           "self.send_queue.items[0][2] == idx and "
                           "self.send_queue.items[0][3] == pos and "
                           "self.send_queue.items[0][4] == offset",
        "response_decoded[no raw data]":
            "implies(data is None, result == decoded(args, data, ret))",
        "response_decoded[raw data of length > 0]":
            "implies(rawlen(data) > 0, result == decoded(args, data, ret)) if data is not None else True",
        "response_decoded[empty raw data]":
            "implies(rawlen(data) == 0, result == decoded(args, data, ret)) if data is not None else True",
    },
    raises=[],
    modifies=None,
    canaries={"raw_tail_dropped": "(result == unpack('<' + ''.join(formats(args)), "
              "ret[:len(ret) - rawlen(data)])) if (data is not None and len(args) > 0) else True"},
)
