"""C04 -- writing one variable never changes another.

(a) Layout (pyvc): the allocation of stack slots.  Abstract view: the set of
    byte ranges, relative to r10, that the declarations of a program class
    have taken, all inside [owner.stack, 0).  LocalVar.__set_name__,
    Member.__set_name__ (structures) and hashmap.Dict.__set_name__ each add
    ranges strictly below every earlier one (so ranges are pairwise disjoint
    by induction over the declarations), aligned to their size, and move
    `stack` to the new bottom.  EBPF.get_stack(size) hands out a temporary
    below the current bottom and restores the bottom on exit, so a temporary
    never overlaps a declared variable of the main program.
    LocalVar.fmt_addr returns the same address whenever it is evaluated for a
    variable of the main program.  For variables of a SubProgram the property
    fails on the real code (recorded finding, lemmas below).
(b) Frame (bpfvc, props/c04.py): generated programs with locals of all sizes,
    a bit field, array-map and hash-map variables; statements that use
    temporaries (hash-map keys, spilled intermediate values, saved registers)
    change no declared variable but their destination.
"""
from ebpfcat.ebpf import AssembleError, EBPF, LocalVar, Member, SubProgram
from ebpfcat.hashmap import Dict

from vc.pyvc.api import Contract, Raises, T, implies


class Owner:
    """the class under construction: only its `stack` counter is used"""


SIZES = {"B": 1, "b": 1, "H": 2, "h": 2, "I": 4, "i": 4, "Q": 8, "q": 8, "x": 8, (3, 1): 1}


def localvar_set_name(fmt):
    n = SIZES[fmt]
    return Contract(
        LocalVar.__set_name__, name=f"LocalVar.__set_name__<{fmt}>",
        params=dict(self=T.Obj(LocalVar, fmt=T.Const(fmt)), owner=T.Obj(Owner, stack=T.Range(-512, 0)),
                    name=T.Const("v")),
        ensures={
            "below_every_earlier_declaration": f"self.relative_addr + {n} <= old.owner.stack",
            "aligned_to_its_size": f"self.relative_addr % {n} == 0",
            "no_gap_beyond_alignment": f"self.relative_addr > old.owner.stack - 2 * {n}",
            "new_bottom_of_the_frame": "owner.stack == self.relative_addr",
        },
        modifies=["self.relative_addr", "self.name", "owner.stack"],
        options={"inline": {"ebpfcat.ebpf:fmtsize"}},
        canaries={"reuses_the_previous_slot": "self.relative_addr == old.owner.stack"})


def member_set_name(fmt):
    n = SIZES[fmt]
    return Contract(
        Member.__set_name__, name=f"Member.__set_name__<{fmt}>",
        params=dict(self=T.Obj(Member, fmt=T.Const(fmt)), owner=T.Obj(Owner, stack=T.Range(0, 4096)),
                    name=T.Const("m")),
        ensures={"packed_after_the_earlier_members":
                 f"self.relative_addr == old.owner.stack and owner.stack == old.owner.stack + {n} and "
                 f"self.relative_addr % {n} == 0"},
        raises=[Raises(AssembleError, when=f"self.fmt is not None and owner.stack % {n} != 0")],
        modifies=["self.relative_addr", "self.name", "owner.stack"],
        options={"inline": {"ebpfcat.ebpf:fmtsize"}})


class KeyModel:
    stack = 12


class ValueModel:
    stack = 24


dict_set_name = Contract(
    Dict.__set_name__,
    params=dict(self=T.Obj(Dict, Key=T.Obj(KeyModel, stack=T.Range(1, 64)),
                           Value=T.Obj(ValueModel, stack=T.Range(1, 256))),
                owner=T.Obj(Owner, stack=T.Range(-512, 0)), name=T.Const("table")),
    ensures={
        "key_below_every_earlier_declaration": "self.key_offset + self.Key.stack <= old.owner.stack",
        "value_below_the_key": "self.value_offset + self.Value.stack <= self.key_offset",
        "aligned": "self.key_offset % 8 == 0 and self.value_offset % 8 == 0",
        "new_bottom_of_the_frame": "owner.stack == self.value_offset",
    },
    modifies=["self.key_offset", "self.value_offset", "self.name", "owner.stack"])


def get_stack_contract(size):
    return Contract(
        EBPF.get_stack, name=f"EBPF.get_stack<{size}>",
        params=dict(self=T.Obj(EBPF, stack=T.Range(-512, 0)), size=T.Const(size)),
        cm=dict(
            enter={"temporary_below_every_declared_variable": f"result + {size} <= old.self.stack",
                   "aligned": f"result % {size} == 0",
                   "nested_temporaries_go_further_down": "self.stack == result"},
            exit={"bottom_restored": "self.stack == old.self.stack"},
            # (an exception inside the block aborts the generation of the
            # program: outside the property, which is about generated programs)
            exit_modes=("normal",)),
        modifies=None)


class MainProg:
    """a main program object: not a SubProgram"""
    stack = -64


localvar_fmt_addr = Contract(
    LocalVar.fmt_addr,
    params=dict(self=T.Obj(LocalVar, fmt=T.Const("I"), relative_addr=T.Range(-512, -1)),
                instance=T.Obj(MainProg, stack=T.Range(-512, 0))),
    ensures={"address_is_the_declared_slot_whatever_the_current_stack":
             "result == (self.fmt, self.relative_addr)"},
    modifies=[])


# ---- subprogram locals: lemmas over the real fmt_addr (recorded finding)
class SubA(SubProgram):
    stack = 0


class SubB(SubProgram):
    stack = 0


def two_subprogram_locals(va, sa, vb, sb):
    """addresses of a local of subprogram instance sa and of one of sb"""
    return va.fmt_addr(sa)[1], vb.fmt_addr(sb)[1]


def sub_local_and_temporary(ebpf, v, s):
    """address of a subprogram local before and inside a temporary"""
    before = v.fmt_addr(s)[1]
    with ebpf.get_stack(8) as t:
        inside = v.fmt_addr(s)[1]
    return before, inside, t


class EbpfModel(EBPF):
    pass


def sub_lemmas():
    ebpf = T.Obj(EbpfModel, stack=T.Range(-256, 0))
    la = Contract(
        two_subprogram_locals, name="subprograms.two_locals",
        params=dict(va=T.Obj(LocalVar, fmt=T.Const("Q"), relative_addr=T.Range(-64, -8)),
                    sa=T.Obj(SubA, ebpf=ebpf),
                    vb=T.Obj(LocalVar, fmt=T.Const("Q"), relative_addr=T.Range(-64, -8)),
                    sb=T.Obj(SubB, ebpf=T.Shared("sa.ebpf"))),
        requires={"declared_slots": "va.relative_addr % 8 == 0 and vb.relative_addr % 8 == 0"},
        ensures={"locals_of_different_subprograms_have_their_own_bytes":
                 "result[0] + 8 <= result[1] or result[1] + 8 <= result[0]"},
        modifies=None, options={"inline": {"ebpfcat.ebpf:LocalVar.fmt_addr"}})
    lb = Contract(
        sub_local_and_temporary, name="subprograms.local_and_temporary",
        params=dict(ebpf=ebpf, v=T.Obj(LocalVar, fmt=T.Const("Q"), relative_addr=T.Range(-64, -8)),
                    s=T.Obj(SubA, ebpf=T.Shared("ebpf"))),
        requires={"declared_slot": "v.relative_addr % 8 == 0"},
        ensures={"address_does_not_move_inside_a_temporary": "result[0] == result[1]",
                 "temporary_has_its_own_bytes": "result[2] + 8 <= result[0] or result[0] + 8 <= result[2]"},
        modifies=None, options={"inline": {"ebpfcat.ebpf:LocalVar.fmt_addr", "ebpfcat.ebpf:EBPF.get_stack"}})
    return [la, lb]
