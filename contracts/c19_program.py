"""C19, program path -- the generated program of a FastSyncGroup whose device
copies a terminal input variable into a device variable and a device variable
into a terminal output variable:

    class Probe(Device):
        inp, outp = TerminalVar(), TerminalVar()
        seen, cmd = DeviceVar(fmt), DeviceVar(fmt, write=True)
        def program(self):
            self.seen = self.inp
            self.outp = self.cmd

The function under contract is the byte string FastSyncGroup.assemble()
returns for the real objects (only map creation is stubbed).  Contract, from
the property: with s_in / s_out the first bytes of the two variables in the
frame as the Python path computes them (PacketVar._start, proved in
c19_procvar) and +14 for the Ethernet header,
  seen'  == value of frame[14+s_in : +n] read little endian with the format
  frame'[14+s_out : +n] == the low n bytes of cmd, little endian
  (bits: seen' == bit b_in of frame[14+s_in]; bit b_out of frame[14+s_out] ==
   (cmd != 0), the other seven bits of that byte unchanged)
  every other byte of the frame is unchanged, except the command bytes and
  working counters SterilePacket.activate is specified to rewrite (C21).
Device variables are native (little endian, A-LE) in the array map, which is
what Python reads through mmap (C08).
"""
import z3

from vc import stagea as A


def build(size, pos_in, pos_out, use_fmmu, in_sz=None, out_sz=None):
    # the terminal's process data areas hold the variable (the property's
    # frame: a variable lies inside the process data its terminal declares)
    width = 1 if isinstance(size, int) else A.FMT_SIZE[size]
    in_sz = max(8, pos_in + width) if in_sz is None else in_sz
    out_sz = max(8, pos_out + width) if out_sz is None else out_sz
    import ebpfcat.arraymap as am
    saved = am.create_map, am.mmap
    am.create_map = lambda *a, **k: 77
    am.mmap = lambda fd, n: bytearray(n)
    try:
        from ebpfcat.ebpfcat import (Device, DeviceVar, EBPFTerminal, FastSyncGroup, PacketDesc,
                                     SimpleEtherCat, SyncManager, TerminalVar)
        dvfmt = "B" if isinstance(size, int) else size

        class ProbeTerminal(EBPFTerminal):
            pass
        ProbeTerminal.use_fmmu = use_fmmu
        ProbeTerminal.inp = PacketDesc(SyncManager.IN, pos_in, size)
        ProbeTerminal.outp = PacketDesc(SyncManager.OUT, pos_out,
                                        (size + 3) % 8 if isinstance(size, int) else size)

        class Probe(Device):
            inp = TerminalVar()
            outp = TerminalVar()
            seen = DeviceVar(dvfmt)
            cmd = DeviceVar(dvfmt, write=True)

            def __init__(self, t):
                self.inp = t.inp
                self.outp = t.outp

            def program(self):
                self.seen = self.inp
                self.outp = self.cmd

        ec = SimpleEtherCat("verif")
        t = ProbeTerminal(ec)
        t.position = 5
        t.pdo_in_sz, t.pdo_out_sz = in_sz, out_sz
        t.pdo_in_off, t.pdo_out_off = 0x1100, 0x1000
        d = Probe(t)
        sg = FastSyncGroup(ec, [d])
        sg.allocate()
        code = sg.assemble()
        fin, ain = d.__dict__["inp"].fmt_addr(d)
        fout, aout = d.__dict__["outp"].fmt_addr(d)
        # the first byte the Python path uses (the real _start), for the cross-check
        s_in = d.__dict__["inp"]._start(d)
        s_out = d.__dict__["outp"]._start(d)
        info = dict(code=code, fin=fin, ain=ain, fout=fout, aout=aout, s_in=s_in, s_out=s_out,
                    dvfmt=dvfmt, seen=d.__dict__["seen"], cmd=d.__dict__["cmd"],
                    wkc_errors=(type(sg).__dict__["wkc_errors"].fmt, sg.__dict__["wkc_errors"]),
                    map_size=FastSyncGroup.properties.size, frame_size=sg.packet.size + 14,
                    on_the_fly=list(sg.packet.on_the_fly))
        return info
    finally:
        am.create_map, am.mmap = saved


def rewritten_by_activate(info, i):
    """frame bytes SterilePacket.activate may rewrite (command byte and working
    counter of every write datagram)"""
    conds = []
    for start, stop, cmd in info["on_the_fly"]:
        conds += [i == start + 14, i == stop + 14 - 2, i == stop + 14 - 1]
    return z3.Or(*conds) if conds else z3.BoolVal(False)


def cases(tier):
    """(size, pos_in, pos_out, use_fmmu)"""
    out = []
    fmts = ["B", "H", "I", "Q", "b", "h", "i", "q"]
    for f in fmts:
        out.append((f, 0, 0, True))
        if tier == "thorough":
            out.append((f, 3, 5, False))
            out.append((f, 16, 1, True))
    for b in range(8):
        out.append((b, 0, 0, True))
        if tier == "thorough":
            out.append((b, 2, 7, False))
    out.append(("H", 3, 5, False))
    out.append((6, 1, 4, False))
    seen, uniq = set(), []
    for c in out:
        if c not in seen:
            seen.add(c)
            uniq.append(c)
    return uniq
