"""C21(b) -- the program of a FastSyncGroup re-enables exactly its write
datagrams: contract of the assembled bytes, for several real layouts.

Each layout is built with the real classes of /repo (terminals with FMMU or
direct addressing, the Aerotech-style allocator); the devices are minimal
real Device subclasses with an empty program, so that the frame changes of
the activation code are isolated (device code is C26/C19).
"""
import z3

MAP_FD = 77


def layouts():
    from ebpfcat.ebpfcat import (Device, EBPFTerminal, PacketDesc, SyncManager,
                                 TerminalVar)
    from ebpfcat.terminals import AerotechBase

    class Out(Device):
        data = TerminalVar()

        def __init__(self, pv):
            self.data = pv

    class TermF(EBPFTerminal):        # FMMU addressing
        out = PacketDesc(SyncManager.OUT, 0, "H")
        inp = PacketDesc(SyncManager.IN, 0, "H")

    class TermD(EBPFTerminal):        # direct (FPRD/FPWR) addressing
        use_fmmu = False
        out = PacketDesc(SyncManager.OUT, 0, "H")
        inp = PacketDesc(SyncManager.IN, 0, "H")

    class TermA(AerotechBase):        # custom allocator, two write datagrams
        in_size, out_size = 8, 6
        out = PacketDesc(SyncManager.OUT, 0, "H")

    def term(cls, pos, isz, osz):
        t = cls(None)
        t.position = pos
        t.pdo_in_sz, t.pdo_out_sz = isz, osz
        t.pdo_in_off, t.pdo_out_off = 0x1100, 0x1000
        return t
    return {
        "one FMMU terminal": lambda: [Out(term(TermF, 3, 4, 2).out)],
        "one direct terminal": lambda: [Out(term(TermD, 4, 4, 6).out)],
        "FMMU + direct terminal": lambda: [Out(term(TermF, 3, 2, 2).out),
                                           Out(term(TermD, 4, 0, 3).out)],
        "Aerotech + direct + FMMU": lambda: [Out(term(TermA, 2, 8, 6).out),
                                             Out(term(TermD, 4, 2, 2).out),
                                             Out(term(TermF, 5, 2, 4).out)],
        "read-only group (no write datagram)": lambda: [Out(term(TermF, 3, 4, 0).inp)],
    }


def build(make_devices):
    import ebpfcat.arraymap as am
    saved = am.create_map, am.mmap
    am.create_map = lambda *a, **k: MAP_FD
    am.mmap = lambda fd, size: bytearray(size)
    try:
        from ebpfcat.ebpfcat import FastSyncGroup, SimpleEtherCat
        ec = SimpleEtherCat("verif")
        devs = make_devices()
        sg = FastSyncGroup(ec, devs)
        sg.allocate()
        code = sg.assemble()
        return dict(code=code, frame_size=sg.packet.size + 14,
                    on_the_fly=[(s, e, c.value) for s, e, c in sg.packet.on_the_fly],
                    counters=dict(sg.packet.counters),
                    wkc_errors=sg.__dict__["wkc_errors"],
                    map_size=FastSyncGroup.properties.size,
                    ndatagrams=len(sg.packet.data))
    finally:
        am.create_map, am.mmap = saved
