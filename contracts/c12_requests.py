"""C12 -- every datagram request gets exactly its own response
(EtherCat.process_packet, datagram_received, roundtrip_packet, sendloop).

asyncio.Future is replaced by the ghost class FutureModel (assumed contract of
asyncio.Future: set_result / set_exception require a pending future, otherwise
InvalidStateError; done() is true for cancelled futures too).
States: 0 pending, 1 cancelled by its owner, 2 result, 3 exception.
"""
from asyncio import InvalidStateError

from ebpfcat.ethercat import EtherCat, EtherCatError, Packet

from vc.pyvc.api import REGISTRY, Contract, Loop, Raises, T, implies
from vc.pyvc.exec import Contract_


class FutureModel:
    def done(self):
        return self.state != 0

    def cancelled(self):
        return self.state == 1

    def set_result(self, value):
        if self.state != 0:
            raise InvalidStateError()
        self.state = 2
        self.value = value

    def set_exception(self, exc):
        if self.state != 0:
            raise InvalidStateError()
        self.state = 3
        self.exc = exc


FUTURE = dict(state=T.OneOf(T.Const(0), T.Const(1)), value=T.Const(b""), exc=T.Const(None))


def requests(n):
    return T.FixedList(T.Tuple(T.Int, T.Int, T.Obj(FutureModel, **FUTURE)), n)


def u16(F, p):
    return F[p] + 256 * F[p + 1]


def windows_ok(dgrams, n):
    return all(16 + 10 <= s and s <= e and e + 2 <= n for s, e, f in dgrams)


def own_outcome(before, after, resp, start, stop):
    """request completes with its own bytes, or EtherCatError if the bus did
    not process it; a request its owner already cancelled is left alone"""
    if before.state != 0:
        return after.state == before.state
    if u16(resp, stop) == 0:
        return after.state == 3 and isinstance(after.exc, EtherCatError)
    return after.state == 2 and after.value == resp[start:stop]


class RoundtripPacket(Contract_):
    """environment: the frame comes back with the same length (the working
    counters and data are whatever the bus made of them)"""
    inline = False
    qualname = "ebpfcat.ethercat:EtherCat.roundtrip_packet"
    loops = {}

    def apply(self, ex, args, kwargs, frame, node):
        return ex.inputs["resp"]


REGISTRY[RoundtripPacket.qualname] = RoundtripPacket()


def process_packet(n):
    return Contract(
        EtherCat.process_packet,
        name=f"EtherCat.process_packet<{n} requests>",
        params=dict(self=T.Obj(EtherCat), dgrams=requests(n), packet=T.Obj(Packet), resp=T.Bytes),
        requires={"windows": "windows_ok(dgrams, len(resp))"},
        ensures={
            "each_request_gets_its_own_outcome":
                "all(own_outcome(old.dgrams[i][2], dgrams[i][2], resp, dgrams[i][0], dgrams[i][1]) "
                "for i in range(len(dgrams)))",
        },
        raises=[],
        modifies=None,
        canaries={"nothing_ever_completes":
                  "all(dgrams[i][2].state == old.dgrams[i][2].state for i in range(len(dgrams)))"} if n else {},
    )


PROCESS = [process_packet(n) for n in range(4)]


# ---- a transport fault: the frame never comes back (socket error, timeout of
# the retries).  Every request still pending fails with THAT fault; none is
# told "the bus did not process your datagram" (EtherCatError), which callers
# such as find_free_address read as "no terminal answered".
class RoundtripFault(Contract_):
    inline = False
    qualname = "ebpfcat.ethercat:EtherCat.roundtrip_packet"
    loops = {}

    def apply(self, ex, args, kwargs, frame, node):
        ex.raise_builtin(OSError, "network is down")


def fault_outcome(before, after):
    if before.state != 0:
        return after.state == before.state
    return after.state == 3 and isinstance(after.exc, OSError) and not isinstance(after.exc, EtherCatError)


def process_packet_fault(n):
    return Contract(
        EtherCat.process_packet,
        name=f"EtherCat.process_packet<{n} requests, transport fault>",
        params=dict(self=T.Obj(EtherCat), dgrams=requests(n), packet=T.Obj(Packet), resp=T.Bytes),
        requires={"windows": "windows_ok(dgrams, len(resp))"},
        raises=[Raises(OSError, when="True", ensures={
            "pending_requests_fail_with_the_fault_itself":
                "all(fault_outcome(old.dgrams[i][2], dgrams[i][2]) for i in range(len(dgrams)))"})],
        modifies=None)


def verify_faults(api, rep, replay):
    """verify process_packet under the faulting environment (the registry
    entry of roundtrip_packet is swapped for the duration)"""
    saved = REGISTRY.get(RoundtripFault.qualname)
    saved_pp = REGISTRY.get(PROCESS[-1].qualname)
    REGISTRY[RoundtripFault.qualname] = RoundtripFault()
    try:
        for n in (1, 2):
            c = process_packet_fault(n)
            api.verify(c, rep, quiet=True, replay=lambda nm, i, nt, c=c: replay(c, nm, i, nt))
    finally:
        REGISTRY[RoundtripFault.qualname] = saved
        REGISTRY[PROCESS[-1].qualname] = saved_pp
