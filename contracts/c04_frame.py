"""C04 (b) -- frame: generated programs whose statements use temporaries.

One program class with locals of every size, a bit field, array-map variables
and hash-map variables; one statement per program.  Contract of the statement
(from the property): every declared variable other than the destination has
the value it had before -- in particular the scratch bytes the generator uses
for hash-map keys, spilled intermediate values and saved registers are not
bytes of a declared variable.
"""

LOCALS = {"a": "B", "b": "H", "c": "I", "d": "Q", "e": "x", "g": "i", "f": (3, 1)}
# a second program class whose declared stack is a multiple of 8 bytes: the
# first temporary then starts on an 8-byte boundary (an 8-byte spill slot and a
# 4-byte key slot share their top bytes if the first is released too early)
LOCALS_ALIGNED = {"c": "I", "g": "i", "d": "Q"}
# statements whose destination is a hash-map variable: the value that must
# arrive in the variable's cell (size in bytes, function of the initial state)
HASH_VALUES = {
    "h1 = c + 1 (hash write)": (4, lambda st: st.local("c") + 1),
    "h2 = h1 + d": (8, lambda st: st.zext(st.hash("h1", 4), 64) + st.local("d")),
    "h2 = d * 3 + c (aligned frame)": (8, lambda st: st.local("d") * 3 + st.zext(st.local("c"), 64)),
    "h2 = c (narrow local into a 64-bit cell)": (8, lambda st: st.zext(st.local("c"), 64)),
    "h2 = g (signed narrow local into a 64-bit cell)": (8, lambda st: st.sext(st.local("g"), 64)),
    "h2 = h2 + 5 (aligned frame)": (8, lambda st: st.hash("h2", 8) + 5),
}
MAPVARS = {"m1": "I", "m2": "Q"}
HASHVARS = {"h1": "I", "h2": "q"}


# statements that belong to C09's program side only (C04's frame programs skip them)
# statements added for C09's program side (C04's frame programs run them too)
C09_PROGRAMS = ("c = c + h1 (hash read while r0 is in use)", "lookup: h2 = h1; v2 += 1")
C09_ONLY = ()


def statements():
    """name -> (destination variable, function emitting the statement)"""
    from ebpfcat.ebpf import ktime, prandom

    def s_hash_read(p):
        p.d = p.h1

    def s_hash_write(p):
        p.h1 = p.c + 1

    def s_hash_to_map(p):
        p.m2 = p.h2

    def s_products(p):
        p.c = (p.a * p.b) + (p.d * 3)

    def s_ktime(p):
        p.d = ktime(p)

    def s_prandom(p):
        p.c = prandom(p) & 0xffff

    def s_bit(p):
        p.f = p.c > 5 if False else 1

    def s_fixed(p):
        p.e = p.e * 2.5

    def s_map_from_local(p):
        p.m1 = p.b + p.a

    def s_hash_hash(p):
        p.h2 = p.h1 + p.d

    def s_narrow(p):
        p.h2 = p.c

    def s_narrow_signed(p):
        p.h2 = p.g

    def s_aligned_1(p):
        p.h2 = p.d * 3 + p.c

    def s_aligned_2(p):
        p.h2 = p.h2 + 5

    def s_hash_operand(p):
        p.c = p.c + p.h1

    def s_lookup_copy(p):
        p.table.key.k1 = 5
        p.table.key.k2 = 7
        with p.table.lookup() as (value, Else):
            p.h2 = p.h1
            value.v2 = value.v2 + 1

    def s_lookup_member(p):
        # a hash variable read while r0 is the pointer to the looked-up entry
        p.table.key.k1 = 5
        p.table.key.k2 = 7
        with p.table.lookup() as (value, Else):
            value.v1 = p.h1 + 5

    def s_dict_update(p):
        p.table.key.k1 = 5
        p.table.key.k2 = 7
        p.table.value.v1 = p.d
        p.table.value.v2 = 9
        p.table.update()

    def s_dict_lookup(p):
        p.table.key.k1 = 5
        p.table.key.k2 = 7
        with p.table.lookup() as (value, Else):
            p.c = value.v2
        with Else:
            p.c = 0
    return {"d = h1 (hash read)": ("d", s_hash_read), "h1 = c + 1 (hash write)": ("h1", s_hash_write),
            "m2 = h2": ("m2", s_hash_to_map), "c = a*b + d*3": ("c", s_products),
            "d = ktime": ("d", s_ktime), "c = prandom & 0xffff": ("c", s_prandom), "f = 1 (bit)": ("f", s_bit),
            "e = e * 2.5": ("e", s_fixed), "m1 = b + a": ("m1", s_map_from_local),
            "h2 = h1 + d": ("h2", s_hash_hash),
            "h2 = c (narrow local into a 64-bit cell)": ("h2", s_narrow),
            "h2 = g (signed narrow local into a 64-bit cell)": ("h2", s_narrow_signed),
            "h2 = d * 3 + c (aligned frame)": ("h2", s_aligned_1),
            "h2 = h2 + 5 (aligned frame)": ("h2", s_aligned_2),
            "c = c + h1 (hash read while r0 is in use)": ("c", s_hash_operand),
            "lookup: h2 = h1; v2 += 1": ("h2", s_lookup_copy),
            "lookup: v1 = h1 + 5 (entry member from a hash variable)": (None, s_lookup_member),
            "table[5,7] = (d, 9) (Dict update)": (None, s_dict_update),
            "c = table[5,7].v2 (Dict lookup)": ("c", s_dict_lookup)}


def build(stmt):
    import ebpfcat.arraymap as am
    import ebpfcat.hashmap as hm
    from ebpfcat.arraymap import ArrayMap
    from ebpfcat.ebpf import EBPF, LocalVar
    from ebpfcat.ebpf import Member, Structure
    from ebpfcat.hashmap import Dict, HashMap

    class Key(Structure):
        k1 = Member("I")
        k2 = Member("H")

    class Value(Structure):
        v1 = Member("q")
        v2 = Member("I")
    saved = am.create_map, am.mmap, hm.create_map
    am.create_map = lambda *a, **k: 77
    am.mmap = lambda fd, size: bytearray(size)
    fds = iter([78, 79, 80])
    hm.create_map = lambda *a, **k: next(fds)
    try:
        ns = {"license": "GPL"}
        aligned = "(aligned frame)" in stmt
        locs = LOCALS_ALIGNED if aligned else LOCALS
        for n, f in locs.items():
            ns[n] = LocalVar(f)
        ns["amap"] = ArrayMap()
        for n, f in MAPVARS.items():
            ns[n] = ns["amap"].globalVar(f)
        ns["hmap"] = HashMap()
        for n, f in HASHVARS.items():
            ns[n] = ns["hmap"].globalVar(f)
        if not aligned:
            ns["table"] = Dict(Key, Value)
        dest, fn = statements()[stmt]

        def program(self):
            fn(self)
            self.r0 = 0
            self.exit()
        ns["program"] = program
        P = type("P", (EBPF,), ns)
        p = P()
        code = p.assemble()
        info = dict(code=code, dest=dest,
                    locals={n: (f, getattr(P, n).relative_addr) for n, f in locs.items()},
                    mapvars={n: (f, p.__dict__[n]) for n, f in MAPVARS.items()},
                    hashvars={n: (f, getattr(P, n).count) for n, f in HASHVARS.items()},
                    map_size=ns["amap"].size, frame_bottom=P.stack,
                    dict_sizes=(Key.stack, Value.stack), dict_classes=(Key, Value))
        return info
    finally:
        am.create_map, am.mmap, hm.create_map = saved
