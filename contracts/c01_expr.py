"""C01 -- integer DSL expressions: Stage A enumeration and denotational spec.

The spec (`vc/dsl.py: ring, math`) is written from the property: every
operand has the value its own size and signedness define; + - * & | ^ <<
and unary minus are exact modulo 2**64 (hence modulo the destination size,
without precondition); // % >> abs are exact whenever the operands that feed
them fit the narrowest width involved, shift amounts are below that width and
divisors are non-zero; signed // and % may truncate or floor.
"""
from vc.dsl import Bin, Const, Loc, Reg, Un

RING = ["+", "-", "*", "&", "|", "^", "<<"]
DIV = ["//", "%", ">>"]
BIG = (1 << 40) + 7
EDGE_CONSTANTS = [0x7fffffff, 0x80000000, -0x80000000, -0x80000001, 0xffffffff, 0x100000000]


def regs():
    return [Reg("r", 2), Reg("sr", 3), Reg("w", 4), Reg("sw", 5)]


def atoms(tier):
    fm = "BIQbiq" if tier == "quick" else "BHIQbhiq"
    return regs() + [Loc(f) for f in fm] + [Const(5), Const(-3), Const(BIG)]


def dests(tier):
    if tier == "quick":
        return [Reg("sr", 6), Reg("w", 6), Loc("Q", "d_Q"), Loc("h", "d_h")]
    return [Reg(k, 6) for k in ("r", "sr", "w", "sw")] + \
        [Loc(f, "d_" + f) for f in "BHIQbhiq"]


def ring_programs(tier):
    """(expr, dest) with ring operators only"""
    al = atoms(tier)
    out = []
    for d in dests(tier):
        for op in RING:
            for l in al:
                for r in al:
                    if isinstance(l, Const) and isinstance(r, Const):
                        continue
                    if op == "<<" and not isinstance(r, Const):
                        # a shift amount that is a variable: only small-range
                        # operands keep the enumeration meaningful
                        if not (isinstance(r, Loc) and r.fmt == "B"):
                            continue
                    if op == "<<" and isinstance(r, Const) and r.value != 5:
                        continue
                    out.append((Bin(op, l, r), d))
        for a in al:
            if not isinstance(a, Const):
                out.append((Un("neg", a), d))
    # destinations declared with an explicit byte order (same meaning as the
    # native format here): computed 64-bit and signed 32-bit right-hand sides
    for d in (Loc("q", "d_le_q"), Loc("Q", "d_le_Q"), Loc("i", "d_le_i")):
        for e in (Bin("+", Loc("q"), Const(1)), Bin("*", Loc("i"), Const(3)), Bin("+", Reg("r", 2), Loc("Q")),
                  Bin("-", Reg("sr", 3), Loc("b")), Un("neg", Loc("i"))):
            out.append((e, d))
    # constants at the edges of the 32-bit immediate range (an immediate is
    # sign-extended by 64-bit instructions and 8-byte stores)
    for d in dests(tier):
        for c in EDGE_CONSTANTS:
            out.append((Const(c), d))
            for l in (Reg("r", 2), Loc("Q")):
                for op in ("+", "&"):
                    out.append((Bin(op, l, Const(c)), d))
    # depth 2: a fixed list of shapes over one operand per class
    r2, s3, w4, sw5 = regs()
    q, i, b = Loc("q"), Loc("i"), Loc("B")
    shapes = [
        Bin("+", Bin("*", r2, q), Const(7)), Bin("*", Bin("+", r2, s3), Bin("-", q, i)),
        Bin("-", Const(100), Bin("*", s3, Const(3))), Bin("&", Bin("+", r2, q), Const(0xffff)),
        Bin("|", Bin("<<", r2, Const(4)), Bin("&", s3, Const(15))),
        Bin("^", Un("neg", q), Bin("*", i, i)), Bin("+", Bin("+", r2, s3), Bin("+", q, i)),
        Un("neg", Bin("-", r2, Bin("*", q, Const(BIG)))), Bin("*", Bin("*", r2, s3), q),
        Bin("+", Bin("*", i, Const(-3)), b), Bin("-", Bin("&", r2, s3), Bin("|", q, Const(1))),
    ]
    # the same operator applied twice with constant right operands (the
    # shape a constant-folding shortcut would look for)
    for op in RING:
        for x in (Loc("Q"), i, w4):
            a, c = (3, 2) if op == "<<" else (1000, 7)
            shapes.append(Bin(op, Bin(op, x, Const(a)), Const(c)))
    # the destination register also occurs as an operand (aliasing)
    for d in (Reg("r", 2), Reg("sr", 3)):
        o = s3 if d.no == 2 else r2
        for e in (Bin("+", o, Bin("*", Loc("Q"), d)), Bin("-", o, Bin("<<", d, Const(2))),
                  Bin("+", d, d), Bin("+", q, Bin("^", d, o)), Bin("*", Bin("+", d, Const(1)), Bin("-", d, o)),
                  Bin("+", o, d), Bin("-", Const(7), d), Un("neg", d)):
            out.append((e, d))
    for d in dests(tier):
        for e in shapes:
            if e.label() == "((r2 * sr3) * v_q)" and d.size < 8:
                continue      # triple product at 32 bits: the solvers time out (not decided, not claimed)
            out.append((e, d))
    return out


def div_programs(tier):
    al = [a for a in atoms(tier)]
    out = []
    ds = dests(tier)
    for d in ds:
        for op in DIV:
            for l in al:
                for r in al:
                    if isinstance(l, Const) and isinstance(r, Const):
                        continue
                    if op == ">>" and not (isinstance(r, Const) and r.value == 5
                                           or isinstance(r, Loc) and r.fmt == "B"):
                        continue
                    if op != ">>" and isinstance(r, Const) and r.value == BIG and tier == "quick":
                        continue
                    out.append((Bin(op, l, r), d))
        for a in al:
            if not isinstance(a, Const):
                out.append((Un("abs", a), d))
    r2, s3, w4, sw5 = regs()
    q, i = Loc("q"), Loc("i")
    shapes = [Bin("//", Bin("+", r2, Loc("Q")), Const(7)), Bin("//", Bin("-", s3, q), Loc("b")),
              Bin("%", Bin("+", q, i), Const(10)), Bin(">>", Bin("-", s3, q), Const(3)),
              Un("abs", Bin("-", q, s3)), Bin("+", Bin("//", r2, Const(3)), Loc("Q")),
              Bin("-", Bin("%", s3, Const(7)), Const(1))]
    # the same operator twice with constant right operands
    for op in DIV:
        for x in (Loc("Q"), i, w4):
            a, c = (3, 2) if op == ">>" else (1000, 7)
            shapes.append(Bin(op, Bin(op, x, Const(a)), Const(c)))
    for d in ds:
        for e in shapes:
            out.append((e, d))
    return out


def build(expr, dest):
    """the real program `dest = expr` ; returns code, layout"""
    from ebpfcat.ebpf import EBPF, LocalVar
    ns = {"license": "GPL"}
    names = {}
    for a in expr.atoms() + ([dest] if isinstance(dest, Loc) else []):
        if isinstance(a, Loc) and a.name not in names:
            names[a.name] = a.fmt
    for n, f in names.items():
        # a destination named d_le_<fmt> is declared with an explicit little
        # endian byte order: on this (little endian) host its meaning is the
        # native format's, the generator takes a different path for it
        ns[n] = LocalVar("<" + f if n.startswith("d_le_") else f)

    def program(self):
        self.owners |= {2, 3, 4, 5}
        v = expr.dsl(self)
        if isinstance(dest, Reg):
            getattr(self, dest.kind)[dest.no] = v
        else:
            setattr(self, dest.name, v)
        self.r0 = 0
        self.exit()
    ns["program"] = program
    P = type("P", (EBPF,), ns)
    p = P()
    code = p.assemble()
    layout = {n: getattr(P, n).relative_addr for n in names}
    return code, layout
