"""C11 -- contracts of ethercat.Packet.append / assemble / full and
ebpfcat.SterilePacket.append / append_writer / sterile.

The clause list of `assemble` is written from the EtherCAT frame layout
(ETG.1000.4: 2-byte frame header = 11 bit length | 4 bit type, then datagrams
of 10-byte header, data, 2-byte working counter) and from the property text,
not from the body of `assemble`.

Ghost state of a Packet `p` (never present in /repo):
  p.goff   list of ints, goff[j] = offset of datagram j's header inside the
           assembled frame, goff[len(data)] = p.size.  goff[j] + 10 and
           goff[j+1] - 2 are exactly the (start, stop) pair `append` returned
           for datagram j.
"""
from ebpfcat.ethercat import ECCmd, Packet
from ebpfcat.ebpfcat import SterilePacket

from vc.pyvc.api import Contract, Loop, Raises, T, implies

DGRAM = T.VarTuple([T.Enum(ECCmd), T.Bytes, T.Int, T.Int], T.Int, (1, 2))

PACKET = T.Obj(Packet, data=T.List(DGRAM), size=T.Int, goff=T.List(T.Int))


# ------------------------------------------------------------ spec functions
def u16(F, p):
    return F[p] + 256 * F[p + 1]


def s16(F, p):
    v = u16(F, p)
    return v - 65536 if v >= 32768 else v


def u32(F, p):
    return F[p] + 256 * F[p + 1] + 65536 * F[p + 2] + 16777216 * F[p + 3]


def s32(F, p):
    v = u32(F, p)
    return v - 4294967296 if v >= 2147483648 else v


def packet_inv(p):
    """representation invariant of a Packet (with its ghost offsets)"""
    n = len(p.data)
    return (0 <= n and n <= 15 and len(p.goff) == n + 1 and p.goff[0] == 16
            and p.size == p.goff[n] and p.size <= 1500
            and all(p.goff[j + 1] == p.goff[j] + 12 + len(p.data[j][1])
                    for j in range(n))
            and all(16 <= p.goff[j] and p.goff[j] <= p.size
                    for j in range(n + 1))
            and all(all(p.goff[j] + 12 <= p.goff[k] for k in range(j + 1, n + 1))
                    for j in range(n)))


def dgram_typed(d):
    """type invariant of one datagram tuple: the ranges of the wire fields"""
    return (0 <= d[2] and d[2] <= 65535 and 0 <= d[3] and d[3] <= 255
            and ((-32768 <= d[4] and d[4] <= 32767 and 0 <= d[5] and d[5] <= 65535)
                 if len(d) == 6 else
                 (-2147483648 <= d[4] and d[4] <= 2147483647)))


def dgrams_typed(p):
    return all(dgram_typed(p.data[j]) for j in range(len(p.data)))


def header_ok(F, p, index, ethertype):
    """frame header and the identification datagram"""
    return (u16(F, 0) == (p.size - 2) + 4096       # length | type 1
            and p.size - 2 < 2048
            and F[2] == 0 and F[3] == 0             # NOP, index 0
            and s32(F, 4) == index
            and u16(F, 8) == 32768 + 2              # 2 data bytes, more
            and u16(F, 10) == 0
            and u16(F, 12) == ethertype
            and u16(F, 14) == 0)


def dg_cmd(F, p, g, sterile_cmd=None):
    d = p.data[g]
    return (F[p.goff[g]] == (d[0].value if sterile_cmd is None else sterile_cmd)
            and F[p.goff[g] + 1] == d[3])


def dg_addr(F, p, g):
    st = p.goff[g]
    d = p.data[g]
    return ((s16(F, st + 2) == d[4] and u16(F, st + 4) == d[5])
            if len(d) == 6 else s32(F, st + 2) == d[4])


def dg_len(F, p, g):
    st = p.goff[g]
    ln = len(p.data[g][1])
    return (u16(F, st + 6) == ln + (32768 if g < len(p.data) - 1 else 0)
            and ln < 2048 and u16(F, st + 8) == 0)


def dg_data(F, p, g):
    st = p.goff[g]
    d = p.data[g]
    ln = len(d[1])
    return (F[st + 10:st + 10 + ln] == d[1]
            and st + 10 + ln + 2 == p.goff[g + 1])


def dg_wkc(F, p, g):
    d = p.data[g]
    return u16(F, p.goff[g] + 10 + len(d[1])) == d[2]


def dgram_ok(F, p, g, sterile_cmd=None):
    """datagram g of packet p sits in frame F exactly where append reported"""
    return (dg_cmd(F, p, g, sterile_cmd) and dg_addr(F, p, g) and dg_len(F, p, g)
            and dg_data(F, p, g) and dg_wkc(F, p, g))


# ----------------------------------------------------------------- contracts
append = Contract(
    Packet.append,
    params=dict(self=PACKET, cmd=T.Enum(ECCmd), data=T.Bytes, idx=T.Int,
                address=T.OneOf(T.Tuple(T.Int, T.Int), T.Tuple(T.Int)),
                wkc=T.Int),
    requires={"inv": "packet_inv(self)"},
    ghost_post="self.goff.append(self.size)",
    ensures={
        "inv": "packet_inv(self)",
        "window": "result == (old.self.size + 10, old.self.size + 10 + len(data))"
                  " and result == (self.goff[len(old.self.data)] + 10,"
                  " self.goff[len(self.data)] - 2)",
        "size": "self.size == old.self.size + len(data) + 12",
        "count": "len(self.data) == len(old.self.data) + 1",
        "stored": "self.data[len(old.self.data)] == (cmd, data, wkc, idx) + address",
        "others_kept": "all(self.data[j] == old.self.data[j] and "
                       "self.goff[j] == old.self.goff[j] "
                       "for j in range(len(old.self.data)))",
        "within_limit": "self.size <= 1500 and len(self.data) <= 15",
    },
    raises=[Raises(OverflowError,
                   when="self.size + len(data) + 12 > 1500 or len(self.data) > 14",
                   ensures={"unchanged": "self.size == old.self.size and "
                            "len(self.data) == len(old.self.data)"}, keeps_state=True)],
    modifies=["self.size", "self.data", "self.goff"],
    # called as every caller does: append(cmd, data, idx, *address, wkc=...)
    options={"call": (["self", "cmd", "data", "idx", "*address"], ["wkc"])},
    canaries={"window_off_by_one":
              "result == (old.self.size + 10, old.self.size + 11 + len(data))"},
)

append.result = T.Tuple(T.Int, T.Int)      # the (start, stop) window

# frame of the exceptional exit: nothing at all may change
append.raises[0].ensures["frame"] = (
    "all(self.data[j] == old.self.data[j] for j in range(len(self.data)))")
append.raises[0].ensures["ghost_unchanged"] = (
    "len(self.goff) == len(old.self.goff) and "
    "all(self.goff[j] == old.self.goff[j] for j in range(len(self.goff)))")

full = Contract(
    Packet.full,
    params=dict(self=PACKET),
    requires={"inv": "packet_inv(self)"},
    ensures={"never_over": "result == (self.size > 1500 or len(self.data) > 14)"},
    modifies=[],
)

assemble = Contract(
    Packet.assemble,
    params=dict(self=PACKET, index=T.Range(-2**31, 2**31 - 1),
                ethertype=T.Range(0, 65535), g=T.Int),
    requires={"inv": "packet_inv(self)", "typed": "dgrams_typed(self)",
              "ghost_g": "0 <= g and g < len(self.data)"},
    joinlists=["ret"],
    loops={1: Loop(
        invariant={
            "length": "len(b''.join(ret)) == self.goff[_i]",
            "header": "header_ok(b''.join(ret), self, index, ethertype)",
            "done_cmd": "implies(g < _i, dg_cmd(b''.join(ret), self, g))",
            "done_addr": "implies(g < _i, dg_addr(b''.join(ret), self, g))",
            "done_len": "implies(g < _i, dg_len(b''.join(ret), self, g))",
            "done_data": "implies(g < _i, dg_data(b''.join(ret), self, g))",
            "done_wkc": "implies(g < _i, dg_wkc(b''.join(ret), self, g))",
            "range": "0 <= _i and _i <= len(self.data)",
        },
        modifies=["ret"])},
    ensures={
        "length_padded": "len(result) == max(self.size, 46)",
        "header": "header_ok(result, self, index, ethertype)",
        "dg_cmd_index": "dg_cmd(result, self, g)",
        "dg_address": "dg_addr(result, self, g)",
        "dg_length_more": "dg_len(result, self, g)",
        "dg_data_at_reported_window": "dg_data(result, self, g)",
        "dg_wkc_at_reported_stop": "dg_wkc(result, self, g)",
        "padding_only_beyond_size": "len(result) >= self.size",
    },
    modifies=[],
    canaries={"more_flag_on_last":
              "u16(result, self.goff[g] + 6) == len(self.data[g][1]) + 32768"},
)
