"""C20 -- Terminal.map_fmmu: a terminal's FMMUs are never shared by two live
mappings.

Data structure against an abstract view: the view of `fmmu_used` is the set of
live slots {i | fmmu_used[i] is not None}.  The context manager is split at
its `yield` into an enter and an exit half; between the two, other mappings of
the same terminal may add and remove *their own* entries (rely, modelled by
the ghost code `between`).
"""
import z3

from ebpfcat.ethercat import ECCmd, EtherCat, EtherCatError, Terminal

from vc.pyvc.api import REGISTRY, Contract, Raises, T, implies
from vc.pyvc.exec import Contract_, OutOfReach
from vc.pyvc.values import INT, Sym, lift_int

TERMINAL = T.Obj(Terminal, position=T.Range(0, 65535), ec=T.Obj(EtherCat),
                 fmmu_used=T.List(T.Opt(T.Int)),
                 pdo_out_off=T.Range(0, 65535), pdo_out_sz=T.Range(0, 65535),
                 pdo_in_off=T.Range(0, 65535), pdo_in_sz=T.Range(0, 65535),
                 g_regs=T.List(T.Int))


def table_typed(t):
    """every entry is None (encoded -1) or a logical address >= 0"""
    return all(t.fmmu_used[j] is None or t.fmmu_used[j] >= 0
               for j in range(len(t.fmmu_used)))


def others_kept(new, old, n, own):
    return all(implies(j != own, new[j] == old[j]) for j in range(n))


class Bus(Contract_):
    """assumed contract of EtherCat.roundtrip for the FMMU register writes:
    the write is recorded (ghost list g_regs of register offsets) and may fail
    with EtherCatError (datagram not processed)"""
    inline = False
    qualname = "ebpfcat.ethercat:EtherCat.roundtrip"
    loops = {}

    def apply(self, ex, args, kwargs, frame, node):
        ec, cmd, pos, offset = args[:4]
        if cmd is not ECCmd.FPWR:
            raise OutOfReach(f"bus access {cmd} outside the FMMU contract")
        term = ex.inputs["self"]
        from vc.pyvc.lib import METHODS
        METHODS[("SymList", "append")](ex, term.fields["g_regs"], offset)
        if ex.choose(2, "bus write fails?") == 1:
            raise_exc = ex.make_exc(EtherCatError)
            from vc.pyvc.exec import PyRaise
            raise PyRaise(raise_exc)
        return ()


REGISTRY[Bus.qualname] = Bus()

map_fmmu = Contract(
    Terminal.map_fmmu,
    params=dict(self=TERMINAL, logical=T.Range(0, 2**32 - 1), write=T.Bool),
    requires={"typed": "table_typed(self)"},
    raises=[
        Raises(ValueError, ensures={"table_unchanged":
               "len(self.fmmu_used) == len(old.self.fmmu_used) and "
               "others_kept(self.fmmu_used, old.self.fmmu_used, len(self.fmmu_used), -1)"}),
        Raises(EtherCatError, ensures={"freed":
               "others_kept(self.fmmu_used, old.self.fmmu_used, len(self.fmmu_used), -1)"}),
    ],
    cm=dict(
        enter={
            "index_in_table": "0 <= result and result < len(self.fmmu_used)",
            "slot_was_free": "old.self.fmmu_used[result] is None",
            "slot_marked": "self.fmmu_used[result] == logical",
            "others_kept": "len(self.fmmu_used) == len(old.self.fmmu_used) and "
                           "others_kept(self.fmmu_used, old.self.fmmu_used, "
                           "len(self.fmmu_used), result)",
            "register_block": "self.g_regs[len(self.g_regs) - 1] == 0x600 + 0x10 * result",
        },
        # rely: while this mapping is open, other mappings of the terminal add
        # and remove their own entries -- every slot but ours may change
        between="""
own = result
self.fmmu_used = havoc_others(self.fmmu_used, own)
""",
        exit={
            "own_slot_freed": "self.fmmu_used[result] is None",
            "only_own_slot": "len(self.fmmu_used) == len(mid.self.fmmu_used) and "
                             "others_kept(self.fmmu_used, mid.self.fmmu_used, "
                             "len(self.fmmu_used), result)",
        },
        exit_modes=("normal", "exception", "cancelled"),
    ),
    modifies=None,
    options={"inline": {"ebpfcat.ethercat:Terminal.write"}},
    canaries={"always_slot_zero": "result == 0"},
)


def map_fmmu_fixed(n):
    """the same contract for a table of exactly n slots (a concrete instance of
    the symbolic proof: search code the symbolic run cannot follow - generator
    expressions, max/min over the slots - is executed slot by slot)"""
    term = T.Obj(Terminal, position=T.Range(0, 65535), ec=T.Obj(EtherCat),
                 fmmu_used=T.FixedList(T.Opt(T.Range(0, 2**32 - 1)), n),
                 pdo_out_off=T.Range(0, 65535), pdo_out_sz=T.Range(0, 65535),
                 pdo_in_off=T.Range(0, 65535), pdo_in_sz=T.Range(0, 65535),
                 g_regs=T.List(T.Int))
    return Contract(
        Terminal.map_fmmu, name=f"Terminal.map_fmmu<table of {n} slots>",
        params=dict(self=term, logical=T.Range(0, 2**32 - 1), write=T.Bool),
        raises=[Raises(ValueError), Raises(EtherCatError)],
        cm=dict(
            enter={
                "index_in_table": "0 <= result and result < len(self.fmmu_used)",
                "slot_was_free": "old.self.fmmu_used[result] is None",
                "slot_marked": "self.fmmu_used[result] == logical",
                "others_kept": "all(implies(j != result, self.fmmu_used[j] is old.self.fmmu_used[j] or "
                               "self.fmmu_used[j] == old.self.fmmu_used[j]) for j in range(len(self.fmmu_used)))",
            },
            exit={"own_slot_freed": "self.fmmu_used[result] is None"},
            exit_modes=("normal", "exception"),
        ),
        modifies=None,
        options={"inline": {"ebpfcat.ethercat:Terminal.write"}})


def map_fmmu_interleaved():
    """the same function with the other mappings of the terminal running at
    every await (the bus writes): what this mapping stores into the table"""
    return Contract(
        Terminal.map_fmmu, name="Terminal.map_fmmu<other mappings run at every await>",
        params=dict(self=TERMINAL, logical=T.Range(0, 2**32 - 1), write=T.Bool),
        requires={"typed": "table_typed(self)"},
        raises=[Raises(ValueError), Raises(EtherCatError)],
        cm=dict(enter={"slot_marked": "self.fmmu_used[result] == logical",
                       "index_in_table": "0 <= result and result < len(self.fmmu_used)"},
                exit={"own_slot_freed": "self.fmmu_used[result] is None"},
                exit_modes=("normal", "exception", "cancelled")),
        modifies=None,
        options={"inline": {"ebpfcat.ethercat:Terminal.write"}, "rely": lambda ex, frame, node: _rely(ex),
                 "on_setitem": lambda ex, v, idx, value: _on_store(ex, v, idx, value)})


def havoc_others(lst, own):
    """rely step (native: identity).  Symbolically: a list of the same length
    whose entry `own` is unchanged and whose other entries are arbitrary
    (None or a logical address)"""
    return lst


from vc.pyvc import lib as _lib
from vc.pyvc.types import fresh as _fresh


@_lib.model(havoc_others)
def _m_havoc_others(ex, args, kw):
    lst, own = args
    new = _fresh(ex, T.List(T.Opt(T.Int)), "fmmu_used'")
    ex.assume(new.length == lst.length)
    o = lift_int(own)
    ex.assume(z3.Select(new.arrays["v"], o) == z3.Select(lst.arrays["v"], o))
    k = z3.Int(ex.fresh_name("k!rely"))
    ex.assume(z3.ForAll([k], z3.Implies(z3.And(k >= 0, k < new.length),
                                        z3.Select(new.arrays["v"], k) >= -1)))
    return new


# ----- interference at every await (the bus writes): other mappings of the same
# terminal may take free slots and release their own while this one is suspended
def _rely(ex):
    term = ex.inputs["self"]
    lst = term.fields["fmmu_used"]
    new = _fresh(ex, T.List(T.Opt(T.Int)), "fmmu_used@await")
    ex.assume(new.length == lst.length)
    mine = ex.ghost.get("c20_mine")
    if mine is not None:
        o = lift_int(mine)
        ex.assume(z3.Select(new.arrays["v"], o) == z3.Select(lst.arrays["v"], o))
    k = z3.Int(ex.fresh_name("k!rely"))
    ex.assume(z3.ForAll([k], z3.Implies(z3.And(k >= 0, k < new.length), z3.Select(new.arrays["v"], k) >= -1)))
    term.fields["fmmu_used"] = new


def _on_store(ex, container, idx, value):
    term = ex.inputs.get("self")
    if term is None or container is not term.fields.get("fmmu_used"):
        return
    if value is None:
        mine = ex.ghost.pop("c20_mine", None)
        ex.check(f"{ex.target_short}.guarantee[only its own slot is released]",
                 z3.BoolVal(False) if mine is None else lift_int(idx) == lift_int(mine),
                 "the entry set to None is the one this mapping marked")
        return
    # guarantee towards the other mappings: a slot is marked only while it is free
    cur = z3.Select(container.arrays["v"], lift_int(idx))
    ex.check(f"{ex.target_short}.guarantee[a slot is taken only while it is free]", cur == -1,
             "fmmu_used[index] is None at the moment it is set: no await lies between finding the free slot and "
             "marking it (another mapping of the terminal could take it meanwhile)")
    ex.ghost["c20_mine"] = idx
