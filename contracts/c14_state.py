"""C14 -- Terminal.to_operational / get_state / set_state.

Environment: the bus.  `EtherCat.roundtrip` is replaced by the contract
`Bus` below: a read of the AL status register (0x0130) returns any valid AL
state with or without the error flag; a write of the AL control register
(0x0120) is checked against the protocol clauses of the property, using the
ghost object `bus`:
   bus.nreads     number of status reads so far
   bus.err0       the first read had the error flag
   bus.acked      INIT|ACK (0x11) was written
   bus.level      value of the state the walk is at (start state, then the
                  last requested one)
   bus.confirmed  the terminal has reported `level` since it was requested
   bus.last_read  state value of the latest read
   bus.nwrites    number of control writes
   bus.err_walk   a read after the first one had the error flag
"""
import z3

from ebpfcat.ethercat import ECCmd, EtherCat, EtherCatError, MachineState, Terminal

from vc.pyvc.api import Contract, Loop, Raises, T, implies
from vc.pyvc.exec import Contract_, OutOfReach
from vc.pyvc.values import Obj, Sym, INT, BOOL, lift_int, lift_bool, mk_bool, mk_int

TERMINAL = T.Obj(Terminal, position=T.Range(0, 65535), ec=T.Obj(EtherCat))
BUS = T.Obj(object, nreads=T.Const(0), err0=T.Const(False), acked=T.Const(False),
            level=T.Const(0), confirmed=T.Const(False), last_read=T.Const(0),
            nwrites=T.Const(0), err_walk=T.Const(False), target=T.Int,
            start=T.Const(0))

VALID = [1, 2, 3, 4, 8]


def succ(v):
    """next state request in the order PRE-OP, SAFE-OP, OP"""
    return 2 if v == 1 else (4 if v == 2 else (8 if v == 4 else 0))


class Bus(Contract_):
    """assumed contract of EtherCat.roundtrip for the two registers used by
    the state machine code (environment: any terminal behaviour)"""
    inline = False
    qualname = "ebpfcat.ethercat:EtherCat.roundtrip"
    loops = {}

    def apply(self, ex, args, kwargs, frame, node):
        ec, cmd, pos, offset = args[:4]
        rest = tuple(args[4:])
        bus = ex.inputs["bus"]
        f = bus.fields
        if cmd is ECCmd.FPRD and offset == 0x0130 and rest == ("H2xH",):
            st = z3.Int(ex.fresh_name("al_state"))
            err = z3.Bool(ex.fresh_name("al_error"))
            status = z3.Int(ex.fresh_name("al_status"))
            rsv = z3.Int(ex.fresh_name("al_reserved"))
            ex.assume(z3.Or(*[st == v for v in VALID]))       # a valid AL state
            ex.assume(z3.And(status >= 0, status <= 65535, rsv >= 0, rsv < 2048))
            first = f["nreads"] == 0 if isinstance(f["nreads"], int) else None
            word = st + z3.If(err, 16, 0) + 32 * rsv
            if isinstance(f["nreads"], int) and f["nreads"] == 0:
                f["err0"] = Sym(err, BOOL)
                f["level"] = Sym(st, INT)
                f["start"] = Sym(st, INT)
                f["confirmed"] = True
            else:
                f["err_walk"] = mk_bool(z3.Or(lift_bool(f["err_walk"]), err))
                f["confirmed"] = mk_bool(z3.Or(lift_bool(f["confirmed"]),
                                               z3.And(st == lift_int(f["level"]))))
            f["nreads"] = mk_int(lift_int(f["nreads"]) + 1)
            f["last_read"] = Sym(st, INT)
            ex.ghost.setdefault("reads", []).append((st, err, status, rsv))
            reads = ex.ghost["reads"]
            ex.replay_extra = lambda m, reads=list(reads): [
                (m.eval(a, model_completion=True).as_long(),
                 z3.is_true(m.eval(b, model_completion=True)),
                 m.eval(c, model_completion=True).as_long(),
                 m.eval(d, model_completion=True).as_long())
                for a, b, c, d in reads]
            return (Sym(word, INT), Sym(status, INT))
        if cmd is ECCmd.FPWR and offset == 0x0120 and rest[:1] == ("H",):
            v = lift_int(rest[1])
            where = "to_operational.protocol"
            if ex.fork(v == 0x11, "control write is INIT|ACK"):
                ex.check(f"{where}[ack only after a reported error, first]",
                         z3.And(lift_bool(f["err0"]), lift_int(f["nwrites"]) == 0,
                                lift_int(f["nreads"]) == 1),
                         "0x11 is written only as the first request after the first read reported an error")
                f["acked"] = True
                f["level"] = 1            # INIT is the start state from here
                f["confirmed"] = True
            else:
                lvl = lift_int(f["level"])
                ex.check(f"{where}[error acknowledged first]",
                         z3.Implies(lift_bool(f["err0"]), lift_bool(f["acked"])),
                         "a reported error is acknowledged before any state request")
                ex.check(f"{where}[one step at a time, in order]",
                         v == z3.If(lvl == 1, 2, z3.If(lvl == 2, 4, z3.If(lvl == 4, 8, 0))),
                         "the request is the successor of the current level in PRE-OP, SAFE-OP, OP")
                ex.check(f"{where}[never above the target]",
                         v <= lift_int(f["target"]), "request <= target")
                ex.check(f"{where}[previous request was reported]",
                         lift_bool(f["confirmed"]),
                         "the next state is requested only after the previous one was reported")
                f["level"] = mk_int(v)
                f["confirmed"] = False
            f["nwrites"] = mk_int(lift_int(f["nwrites"]) + 1)
            return ()
        raise OutOfReach(f"bus access {cmd} {offset} {rest} outside the state machine contract")


BUS_CONTRACT = Bus()
from vc.pyvc.api import REGISTRY
REGISTRY[Bus.qualname] = BUS_CONTRACT

to_operational = Contract(
    Terminal.to_operational,
    params=dict(self=TERMINAL,
                target=T.Enum(MachineState, [MachineState.PRE_OPERATIONAL,
                                             MachineState.SAFE_OPERATIONAL,
                                             MachineState.OPERATIONAL]),
                bus=BUS),
    requires={"target_ghost": "bus.target == target.value"},
    loops={2: Loop(
        invariant={
            "level": "bus.level == current.value",
            "confirmed": "bus.confirmed == (state is current)",
            "no_error_in_walk": "not bus.err_walk",
            "last": "implies(bus.confirmed, bus.last_read == current.value)",
            "acked": "implies(bus.err0, bus.acked)",
            "reads": "bus.nreads >= 1 and bus.nwrites >= 1",
        },
        modifies={"state": T.Enum(MachineState), "error": T.Bool, "status": T.Int,
                  "bus.confirmed": T.Bool, "bus.last_read": T.Int,
                  "bus.nreads": T.Int, "bus.err_walk": T.Bool})},
    ensures={
        "returns_only_at_or_above_target":
            "implies(bus.start != 3 and not bus.acked, bus.last_read >= target.value)",
        "after_ack_returns_at_target":
            "implies(bus.acked, bus.level == target.value and bus.last_read == target.value)",
        "all_requests_reported": "bus.confirmed",
        "no_error_during_walk": "not bus.err_walk",
        "error_was_acknowledged": "bus.acked == bus.err0",
    },
    raises=[Raises(EtherCatError, when=None,
                   ensures={"only_on_error": "bus.err_walk"})],
    modifies=None,
    options={"inline": {"ebpfcat.ethercat:Terminal.get_state"}},
    canaries={"never_writes": "bus.nwrites == 0"},
)
