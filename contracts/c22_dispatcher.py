"""C22 -- the EtherXDP dispatcher: step contract of the assembled bytes.

Function under contract: the bytes of EtherXDP().assemble() built from /repo
on every run (map creation stubbed, no source change), rate = 0.
The clauses are written from the class docstring and the property text.
"""
import z3

MAP_FD, PROG_FD = 77, 78


def build():
    import ebpfcat.arraymap as am
    saved = am.create_map, am.mmap
    am.create_map = lambda *a, **k: MAP_FD
    am.mmap = lambda fd, size: bytearray(size)
    try:
        from ebpfcat.ebpfcat import EtherXDP, FastEtherCat
        e = EtherXDP()
        e.programs = PROG_FD
        code = e.assemble()
        info = dict(code=code,
                    counters=e.__dict__["counters"],
                    dropcounter=e.__dict__["dropcounter"],
                    map_size=EtherXDP.variables.size,
                    max_progs=FastEtherCat.MAX_PROGS,
                    min_size=EtherXDP.minimumPacketSize,
                    rate=EtherXDP.rate)
    finally:
        am.create_map, am.mmap = saved
    return info


def b(mem, off):
    return z3.Select(mem, z3.BitVecVal(off, 64))


def u16le(mem, off):
    return z3.Concat(b(mem, off + 1), b(mem, off))


def u16be(mem, off):
    return z3.Concat(b(mem, off), b(mem, off + 1))


def u32le(mem, off):
    return z3.Concat(b(mem, off + 3), b(mem, off + 2), b(mem, off + 1), b(mem, off))


def u32le_at(mem, addr):
    """addr: BV64 term"""
    return z3.Concat(*[z3.Select(mem, addr + k) for k in (3, 2, 1, 0)])
