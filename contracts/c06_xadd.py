"""C06 -- in-place addition on 4/8-byte variables is one atomic add.

Stage A programs (built with the real DSL): {q Q i I x} x {local, array map,
per-CPU array map, packet, m?[pointer]} x amount {small constant, 64-bit constant, negative via
-=, register, expression over another variable, -= register, -= expression}.
Contract of the statement (from the property): the compiled statement
contains exactly one access to the variable, an atomic add of its width, whose
operand is the amount; run alone it adds the amount modulo 2**width and
changes nothing else.  Lemma L-XADD (lean/XaddSum.lean) lifts this to any
number of concurrent instances and any interleaving.
"""
FMTS = "qQiIx"
KINDS = ["local", "map", "percpu", "packet", "pointer"]
AMOUNTS = ["const5", "const64", "minus7", "register", "expression", "minus_register",
           "minus_expression", "fixed_const", "const0", "minus0"]
BIG = (1 << 40) + 3


def programs(tier):
    out = []
    for fmt in FMTS:
        for kind in KINDS:
            if kind == "packet" and fmt == "x":
                continue
            if kind == "pointer" and fmt in "qix":
                continue          # mq/mi/mx exist too; the unsigned ones suffice for this kind
            for amount in AMOUNTS:
                if tier == "quick" and kind in ("map", "percpu", "pointer") and amount in ("const64", "minus7", "minus0"):
                    continue
                if amount == "fixed_const" and (fmt == "x" or kind in ("packet", "pointer")):
                    continue      # a decimal amount on an INTEGER variable (the whole part is added)
                out.append((f"{kind} {fmt} {amount}", kind, fmt, amount))
    return out


def build(kind, fmt, amount):
    import ebpfcat.arraymap as am
    from ebpfcat.arraymap import ArrayMap
    from ebpfcat.ebpf import EBPF, LocalVar
    from ebpfcat.xdp import XDP, PacketVar, XDPExitCode
    saved = am.create_map, am.mmap, am.possible_cpus
    am.create_map = lambda *a, **k: 77
    am.mmap = lambda fd, size: bytearray(size)
    base = XDP if kind == "packet" else EBPF
    ns = {"src": LocalVar("q"), "license": "GPL"}
    if kind == "local":
        ns["var"] = LocalVar(fmt)
    elif kind == "map":
        ns["amap"] = ArrayMap()
        ns["var"] = ns["amap"].globalVar(fmt)
        ns["other"] = ns["amap"].globalVar("Q")
    elif kind == "percpu":
        # each CPU has its own copy, but several instances of the program can
        # still work on the same copy (a preempted test run, nested invocation)
        from ebpfcat.arraymap import PerCPUArrayMap
        am.possible_cpus = lambda: 4
        ns["amap"] = PerCPUArrayMap()
        ns["var"] = ns["amap"].globalVar(fmt)
        ns["other"] = ns["amap"].globalVar("Q")
    elif kind == "packet":
        ns["minimumPacketSize"] = 40
        ns["var"] = PacketVar(16, fmt)
    elif kind == "pointer":
        ns["slot"] = LocalVar("Q")

    def amt(self):
        if amount == "const5":
            return 5
        if amount in ("const0", "minus0"):
            return 0          # adding nothing is still one atomic access (no load / store pair)
        if amount == "fixed_const":
            return 3.0
        if amount == "const64":
            return BIG
        if amount == "minus7":
            return 7
        if amount in ("register", "minus_register"):
            self.r2 = self.src
            return self.r2
        return self.src * 3 + 1

    def program(self):
        a = amt(self)
        if kind == "pointer":
            mm = {"Q": self.mQ, "I": self.mI}[fmt]
            addr = self.r10 + type(self).slot.relative_addr
            if amount.startswith("minus"):
                mm[addr] -= a
            else:
                mm[addr] += a
        elif amount.startswith("minus"):
            self.var -= a
        else:
            self.var += a
        if kind == "packet":
            self.exit(XDPExitCode.TX)
        else:
            self.r0 = 0
            self.exit()
    ns["program"] = program
    try:
        P = type("P", (base,), ns)
        for k, v in ns.items():
            if hasattr(v, "__set_name__") and not isinstance(v, type):
                pass
        prog = P()
        code = prog.assemble()
        info = dict(code=code, src=P.src.relative_addr)
        if kind == "local":
            info["var"] = ("stack", 512 + P.var.relative_addr)
        elif kind in ("map", "percpu"):
            info["var"] = ("map77", prog.__dict__["var"])
            info["map_size"] = P.amap.size
        elif kind == "packet":
            info["var"] = ("pkt", 16)
        else:
            info["var"] = ("stack", 512 + P.slot.relative_addr)
        return info
    finally:
        am.create_map, am.mmap, am.possible_cpus = saved


def amount_value(amount, src64, fmt):
    """the amount as a 64-bit term (src64: the 8-byte local `src`)"""
    import z3
    scale = 100000 if fmt == "x" else 1
    if amount == "const5":
        return z3.BitVecVal(5 * scale, 64)
    if amount in ("const0", "minus0"):
        return z3.BitVecVal(0, 64)
    if amount == "fixed_const":
        return z3.BitVecVal(3, 64)          # the decimal 3.0 added to an integer variable
    if amount == "const64":
        return z3.BitVecVal(BIG * scale, 64)
    if amount == "minus7":
        return z3.BitVecVal(-7 * scale, 64)
    if amount == "register":
        return src64 * scale
    if amount == "minus_register":
        return -src64 * scale
    if amount == "minus_expression":
        return -(src64 * 3 + 1) * scale
    return (src64 * 3 + 1) * scale
