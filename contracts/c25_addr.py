"""C25 -- EtherCat.find_free_address / assigned_address.

Bus contract (environment): a configured-address read of register 0x10 at
address a raises EtherCatError iff no terminal currently answers at a
(`answers(a)`, an arbitrary predicate).  Rely at every await: other tasks may
add addresses to `used_addresses` (it only grows).
"""
import random

import z3

from ebpfcat.ethercat import ECCmd, EtherCat, EtherCatError

from vc.pyvc import lib
from vc.pyvc.api import REGISTRY, Contract, Loop, Raises, T, forall_int, implies
from vc.pyvc.exec import Contract_, OutOfReach, PyRaise
from vc.pyvc.types import fresh
from vc.pyvc.values import BOOL, INT, Sym, SymSet, lift_int

ANSWERS = z3.Function("answers", z3.IntSort(), z3.BoolSort())

ETHERCAT = T.Obj(EtherCat, used_addresses=T.IntSet())


def grows(old, new):
    return forall_int(lambda k: implies(k in old, k in new))


def answers(a):            # native stand-in, replaced per replay
    return a in _ANSWERING


_ANSWERING = set()


@lib.model(answers)
def _m_answers(ex, args, kw):
    return Sym(ANSWERS(lift_int(args[0])), BOOL)


@lib.model(random.randint)
def _m_randint(ex, args, kw):
    lo, hi = args
    v = z3.Int(ex.fresh_name("randint"))
    ex.assume(z3.And(v >= lift_int(lo), v <= lift_int(hi)))
    return Sym(v, INT)


class Bus(Contract_):
    inline = False
    qualname = "ebpfcat.ethercat:EtherCat.roundtrip"
    loops = {}

    def apply(self, ex, args, kwargs, frame, node):
        ec, cmd, pos, offset = args[:4]
        if cmd is ECCmd.FPRD and offset == 0x10:
            a = lift_int(pos)
            used = ex.inputs["self"].fields["used_addresses"]
            ex.check("find_free_address.candidate_recorded_before_the_probe_awaits",
                     z3.Select(used.arr, a),
                     "the candidate is in used_addresses before the coroutine first awaits, so no "
                     "concurrent caller can pick it")
            ex.ghost.setdefault("probes", []).append(a)
            if not ex.fork(ANSWERS(a), "a terminal answers at the probed address"):
                raise PyRaise(ex.make_exc(EtherCatError))
            return (fresh(ex, T.Range(0, 65535), "reg0x10"),)
        if cmd is ECCmd.APRD and offset == 0x10:
            return (fresh(ex, T.Range(0, 65535), "configured_address"),)
        if cmd is ECCmd.APWR and offset == 0x10:
            ex.ghost["written"] = (pos, args[5])
            return ()
        raise OutOfReach(f"bus access {cmd} {offset} outside the address contract")


REGISTRY[Bus.qualname] = Bus()


def rely(ex, frame, node):
    """other tasks run at an await: used_addresses may grow"""
    ec = ex.inputs["self"]
    old = ec.fields["used_addresses"]
    new = fresh(ex, T.IntSet(), "used_addresses'")
    k = z3.Int(ex.fresh_name("k!rely"))
    ex.assume(z3.ForAll([k], z3.Implies(z3.Select(old.arr, k), z3.Select(new.arr, k))))
    ec.fields["used_addresses"] = new


find_free_address = Contract(
    EtherCat.find_free_address,
    params=dict(self=ETHERCAT),
    loops={1: Loop(invariant={"only_grows": "grows(old.self.used_addresses, self.used_addresses)"},
                   modifies={"self.used_addresses": T.IntSet(), "i": T.Int})},
    ensures={
        "within_configured_range": "self.terminal_addr_range[0] <= result and "
                                   "result <= self.terminal_addr_range[1]",
        "never_handed_out_before": "result not in old.self.used_addresses",
        "recorded_as_used": "result in self.used_addresses",
        "used_only_grows": "grows(old.self.used_addresses, self.used_addresses)",
        "no_terminal_answered_there": "not answers(result)",
    },
    modifies=["self.used_addresses"],
    options={"rely": rely},
    canaries={"always_the_lowest_address": "result == self.terminal_addr_range[0]"},
)


find_free_address.result = T.Int

assigned_address = Contract(
    EtherCat.assigned_address,
    params=dict(self=ETHERCAT, position=T.Range(-65535, 0)),
    ensures={
        "nonzero_or_fresh": "result != 0 or result not in old.self.used_addresses",
        "fresh_address_is_recorded": "implies(result not in old.self.used_addresses and "
                                     "self.terminal_addr_range[0] <= result, True)",
        "used_only_grows": "grows(old.self.used_addresses, self.used_addresses)",
    },
    modifies=["self.used_addresses"],
    options={"rely": rely},
)
