"""C27 -- devices.Valve.update / reset.

TerminalVar / DeviceVar attributes of the device are, by contract, plain
boolean fields of the device on the slow path (their own behaviour is C19 /
C08).  The clock is the ghost parameter `now`: the value the single
`monotonic()` call of a step returns, not smaller than any earlier reading.
"""
from ebpfcat.devices import Valve

from vc.pyvc.api import Contract, T, implies

VALVE = T.Obj(Valve, openSwitch=T.Bool, closedSwitch=T.Bool, coil=T.Bool,
              target=T.Bool, error=T.Bool, lastGood=T.Real, movingTime=T.Real,
              safeState=T.Bool)

FIELDS = ("openSwitch", "closedSwitch", "coil", "target", "error")


def confirms(open_, closed, coil):
    """the switches confirm the position the coil commands (safe state =
    closed, as the property scopes the position check)"""
    return (open_ and not closed) if coil else (closed and not open_)


update = Contract(
    Valve.update,
    params=dict(self=VALVE, now=T.Real),
    requires={"clock_monotone": "now >= self.lastGood",
              "moving_time": "self.movingTime >= 0"},
    ensures={
        "confirmed[safe state closed]":
            "implies(not self.safeState and confirms(old.self.openSwitch, "
            "old.self.closedSwitch, old.self.coil), self.lastGood == now and "
            "self.coil == old.self.target and self.target == old.self.target "
            "and self.error == old.self.error)",
        "moving[safe state closed]":
            "implies(not self.safeState and not confirms(old.self.openSwitch, "
            "old.self.closedSwitch, old.self.coil) and "
            "now - old.self.lastGood < self.movingTime, "
            "self.coil == old.self.target and self.target == old.self.target "
            "and self.lastGood == old.self.lastGood and self.error == old.self.error)",
        "timeout[safe state closed]":
            "implies(not self.safeState and not confirms(old.self.openSwitch, "
            "old.self.closedSwitch, old.self.coil) and "
            "now - old.self.lastGood >= self.movingTime, "
            "self.error and self.coil == self.safeState and self.target == self.safeState)",
        "timeout[safe state open]":
            "implies(self.safeState and not (old.self.openSwitch != old.self.closedSwitch) "
            "and now - old.self.lastGood >= self.movingTime, "
            "self.error and self.coil == self.safeState and self.target == self.safeState)",
        "error_only_on_timeout":
            "implies(self.error and not old.self.error, "
            "now - old.self.lastGood >= self.movingTime)",
    },
    modifies=["self.coil", "self.target", "self.error", "self.lastGood"],
    canaries={"never_errors": "self.error == old.self.error"},
)

reset = Contract(
    Valve.reset,
    params=dict(self=VALVE, now=T.Real),
    requires={"clock_monotone": "now >= self.lastGood"},
    ensures={"cleared": "not self.error and self.lastGood == now"},
    modifies=["self.error", "self.lastGood"],
)
