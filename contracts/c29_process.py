"""C29 -- process-based sync groups share device variables correctly.

Under contract: ebpf.SimulatedEBPF.__init__ (with ArrayMap.collect, C08,
inlined) for a ProcessSyncGroup whose devices declare DeviceVars, and
ProcessSyncGroup.get_array.  Postcondition, from the property: after the group
has been constructed every DeviceVar of every device has storage inside the
shared array created for the map the DeviceVar belongs to, and no two
variables (of the same or of different devices) share a byte.  Variable sizes
are symbolic (placeholder formats, as in C08).  Reading and writing a variable
at its (format, address) is the user-side contract of ArrayGlobalVarDesc
proved under C08; that bytes written by one process are seen by the other is
the contract of multiprocessing's shared Array (assumed).
"""
import itertools

from ebpfcat.ebpf import SimulatedEBPF
from ebpfcat.ebpfcat import Device, DeviceVar, ProcessSyncGroup

from contracts.c08_arraymap import size  # noqa: F401  (spec function + fmtsize model)
from vc.pyvc.api import Contract, T
from vc.pyvc.exec import Contract_
from vc.pyvc.types import fresh
from vc.pyvc.values import PDict, PList, lift_int

_n = itertools.count(100)


def ph():
    return f"@{next(_n)}"


class Axis(Device):
    position = DeviceVar(ph())
    target = DeviceVar(ph(), write=True)


class Gripper(Device):
    force = DeviceVar(ph(), write=True)


DEVICES = [Axis, Axis, Gripper]


class GetArray(Contract_):
    """ProcessSyncGroup.get_array(size): a shared array of `size` bytes
    (multiprocessing.Array contract)"""
    inline = False
    loops = {}

    def apply(self, ex, args, kwargs, frame, node):
        g = args[0]
        g.fields.setdefault("g_arrays", []).append(args[1])
        a = fresh(ex, T.ByteArray(), "shared_array")
        from vc.pyvc import ops
        ex.assume(ops.b_len(a.t) == lift_int(args[1]))
        return a


def device_vars(cls):
    return [(n, d.fmt) for n in dir(cls) for d in [getattr(cls, n, None)] if isinstance(d, DeviceVar)]


def init_contract(stale=False):
    """stale: the devices were in another group before (or their variables were
    assigned before they joined one): their instance dicts already hold a number
    under the variables' names"""
    params = dict(self=T.Obj(ProcessSyncGroup))
    for i, c in enumerate(DEVICES):
        pre = {n: T.Range(0, None) for n, _ in device_vars(c)} if stale else {}
        params[f"dev{i}"] = T.Obj(c, **pre)

    def setup(ex, inputs):
        inputs.vars["kwargs"] = {"subprograms": PList([inputs.vars[f"dev{i}"] for i in range(len(DEVICES))])}
    vars_ = [(f"dev{i}", n, p) for i, c in enumerate(DEVICES) for n, p in device_vars(c)]
    ens = {}
    for o, n, p in vars_:
        ens[f"has_storage_in_the_shared_array[{o}.{n}]"] = (
            f"'{n}' in {o}.__dict__ and 0 <= {o}.__dict__['{n}'] and "
            f"{o}.__dict__['{n}'] + size('{p}') <= len(self.properties)")
    for (o1, n1, p1), (o2, n2, p2) in itertools.combinations(vars_, 2):
        ens[f"own_bytes[{o1}.{n1} / {o2}.{n2}]"] = (
            f"'{n1}' in {o1}.__dict__ and '{n2}' in {o2}.__dict__ and "
            f"({o1}.__dict__['{n1}'] + size('{p1}') <= {o2}.__dict__['{n2}'] or "
            f"{o2}.__dict__['{n2}'] + size('{p2}') <= {o1}.__dict__['{n1}'])")
    ens["devices_belong_to_the_group"] = " and ".join(f"dev{i}.ebpf is self" for i in range(len(DEVICES)))
    return Contract(
        SimulatedEBPF.__init__, name="SimulatedEBPF.__init__<ProcessSyncGroup, 3 devices" +
        (", regrouped>" if stale else ">"),
        params=params, setup=setup, ensures=ens, modifies=None,
        options={"inline": {"ebpfcat.ebpf:EBPFBase.__init__", "ebpfcat.arraymap:ArrayMap.collect"}},
        canaries={"no_device_attached": "dev0.ebpf is not self"})


# ---------------------------------------------------------------- history
# "a value written in one process is read unchanged in the other, and vice
# versa": a lemma over the real DeviceVar.__set__ / __get__ on a device of a
# loaded process sync group whose shared array the OTHER process writes between
# two calls (ghost step other_process_writes).
import struct as _struct

from ebpfcat.ebpf import EBPFBase as _EBPFBase


class LoadedGroup(_EBPFBase):
    """stands for the loaded SimulatedEBPF / ProcessSyncGroup: `loaded`, and the
    shared array under the map's name"""
    loaded = True


class Dev:
    """a device of the group (real DeviceVar descriptors)"""
    status = DeviceVar("i", write=True)


Dev.status.__set_name__(Dev, "status")
MAPNAME = Dev.status.map.name


def other_process_writes(dev, w):
    """the other process stores w in the variable (it shares the array)"""
    g = dev.ebpf
    arr = g.__dict__[MAPNAME]
    arr[dev.__dict__["status"]:dev.__dict__["status"] + 4] = _struct.pack("i", w)


def write_other_write_read(dev, v, w):
    dev.status = v
    other_process_writes(dev, w)
    dev.status = v
    return dev.status


def write_other_read(dev, v, w):
    dev.status = v
    other_process_writes(dev, w)
    return dev.status


def write_refused_read(dev, v, w):
    """w does not fit the format: the write is refused and changes nothing"""
    dev.status = v
    try:
        dev.status = w + 2 ** 32
    except _struct.error:
        pass
    return dev.status


def history_lemmas():
    def setup(ex, inputs):
        d = inputs.vars["dev"]
        g = inputs.vars["group"]
        d.fields["ebpf"] = g
        d.fields["sync_group"] = g
        g.fields[MAPNAME] = inputs.vars["shared"]
    params = dict(dev=T.Obj(Dev, status=T.Range(0, None)), group=T.Obj(LoadedGroup, loaded=T.Const(True)),
                  shared=T.ByteArray(), v=T.Range(-2**31, 2**31 - 1), w=T.Range(-2**31, 2**31 - 1))
    inl = {"inline": {"ebpfcat.ebpfcat:DeviceVar.__set__", "ebpfcat.ebpfcat:DeviceVar.__get__",
                      "ebpfcat.arraymap:ArrayGlobalVarDesc.__set__", "ebpfcat.arraymap:ArrayGlobalVarDesc.__get__",
                      "ebpfcat.arraymap:ArrayGlobalVarDesc.fmt_addr", "ebpfcat.arraymap:ArrayGlobalVarDesc.unpack",
                      "contracts.c29_process:other_process_writes"}}
    req = {"inside_the_shared_array": "dev.__dict__['status'] + 4 <= len(shared)"}
    return [
        Contract(write_other_write_read, name="DeviceVar: a write after the other process's write is stored again",
                 params=params, setup=setup, requires=req, ensures={"reads_what_was_written_last": "result == v"},
                 modifies=None, options=inl),
        Contract(write_other_read, name="DeviceVar: a write of the other process is read",
                 params=params, setup=setup, requires=req, ensures={"reads_the_other_process_s_value": "result == w"},
                 modifies=None, options=inl, canaries={"reads_its_own_old_value": "result == v"}),
        Contract(write_refused_read, name="DeviceVar: a refused write leaves the stored value",
                 params=dict(params, w=T.Range(0, 2**31 - 1)), setup=setup, requires=req,
                 ensures={"reads_the_last_value_written": "result == v"},
                 modifies=None, options=inl),
    ]
