"""C28 -- serial.Serial.update: one PLC cycle of the EL6002-style handshake.

TerminalVar attributes are, by contract, plain fields of the device on the
slow path (C19).  Ghost state (never in /repo):
  g_D       list of chunks delivered to the application pipe (os.write(in_write))
  g_nread   number of chunks taken from the application's transmit pipe
  g_read    what this step's os.read(out_read, 22) returned: a non-empty chunk,
            or None if the pipe was not read, was empty (BlockingIOError) or
            returned b"" (environment: any of these)
Environment (terminal): any values of transmit_accept / receive_request /
init_accept / in_string in every cycle -- the step contract holds for all of
them, hence for every handshake timing.

Step contract, from the property:
  receive: a toggle of receive_request since the last cycle delivers in_string
           exactly once (appended to g_D) and toggles receive_accept once;
           without a toggle nothing is delivered and receive_accept stays;
  transmit: while a chunk is outstanding (announced, not yet acknowledged by a
           toggle of transmit_accept) nothing is read from the application,
           out_string keeps the chunk and transmit_request does not move; when
           the channel is free the next chunk -- if there is one -- is read
           once, presented in out_string and announced by exactly one toggle.
History statement = induction over cycles with these step clauses and the
invariant `inv` below (outputs mirror the remembered toggles).
"""
import os

import z3

from ebpfcat.serial import Serial

from vc.pyvc import lib
from vc.pyvc.api import Contract, T, implies
from vc.pyvc.exec import PyRaise
from vc.pyvc.types import fresh
from vc.pyvc.values import Sym, lift_int

FIELDS = ("transmit_accept", "receive_request", "init_accept", "in_string",
          "transmit_request", "receive_accept", "init_request", "out_string")

SERIAL = T.Obj(
    Serial,
    # inputs from the terminal (any values)
    transmit_accept=T.Bool, receive_request=T.Bool, init_accept=T.Bool, in_string=T.Bytes,
    # outputs to the terminal
    transmit_request=T.Bool, receive_accept=T.Bool, init_request=T.Bool, out_string=T.Bytes,
    # python state
    connected=T.Bool, last_transmit_request=T.Bool, last_receive_accept=T.Bool,
    last_transmit_accept=T.Bool, last_receive_request=T.Bool,
    current_transmit=T.Opt(T.Bytes),
    in_write=T.Const(5), out_read=T.Const(6),
    g_D=T.List(T.Bytes), g_nread=T.Range(0, None), g_read=T.Const(None))


def capacity():
    """payload bytes of the terminal's output data field (a Pascal string:
    one length byte, the rest payload), from the real declaration"""
    import struct
    from ebpfcat.terminals import EL6002
    return struct.calcsize(EL6002.Channel.__dict__["out_string"].size) - 1


CAP = capacity()


def inv(s):
    """outputs mirror the remembered toggles; an outstanding chunk is shown and
    fits the terminal's data field"""
    return (s.transmit_request == s.last_transmit_request
            and s.receive_accept == s.last_receive_accept
            and (s.current_transmit is None
                 or (s.out_string == s.current_transmit and len(s.current_transmit) <= CAP)))


def chunk_ok(b):
    return 0 < len(b) and len(b) <= 22


@lib.model(os.write)
def _m_write(ex, args, kw):
    fd, data = args
    s = ex.inputs["self"]
    if fd == 5:
        s.fields["g_D"] = lib_append(ex, s.fields["g_D"], data)
        return None
    from vc.pyvc.exec import OutOfReach
    raise OutOfReach("os.write on an unknown descriptor")


def lib_append(ex, lst, v):
    from vc.pyvc.lib import _sl_append
    _sl_append(ex, lst, v)
    return lst


@lib.model(os.read)
def _m_read(ex, args, kw):
    fd, n = args
    s = ex.inputs["self"]
    ex.check("Serial.update.transmit[the application pipe is read only when no chunk is outstanding]",
             ex.ghost.get("free_term", z3.BoolVal(True)),
             "os.read of the transmit pipe happens only if the previous chunk was acknowledged")
    k = ex.choose(3, "os.read: chunk / nothing to read / empty")
    if k == 1:
        raise PyRaise(ex.make_exc(BlockingIOError))
    if k == 2:
        return b""
    c = fresh(ex, T.Bytes, "chunk")
    from vc.pyvc import ops
    ex.assume(z3.And(ops.b_len(c.t) > 0, ops.b_len(c.t) <= lift_int(n)))
    s.fields["g_read"] = c
    s.fields["g_nread"] = Sym(lift_int(s.fields["g_nread"]) + 1, s.fields["g_nread"].ty) \
        if isinstance(s.fields["g_nread"], Sym) else s.fields["g_nread"] + 1
    return c


def prototype_fields():
    """what the real Serial.__init__ computes from the real EL6002 channel and
    the contract's schema does not name (plain values only): the object under
    contract is a real, initialised Serial whose schema fields are symbolic"""
    from ebpfcat.terminals import EL6002
    t = object.__new__(EL6002)
    t.position_offset = {}
    proto = Serial(t.channel1)
    out = {}
    for k, v in vars(proto).items():
        if k in ("in_read", "in_write", "out_read", "out_write"):
            try:
                os.close(v)
            except OSError:
                pass
            continue
        if k not in SERIAL.fields and isinstance(v, (int, str, bytes, bool, float, type(None))):
            out[k] = v
    return out


def setup(ex, inputs):
    s = inputs.vars["self"]
    f = s.fields
    for k, v in prototype_fields().items():
        f.setdefault(k, v)
    from vc.pyvc.values import lift_bool
    acked = lift_bool(f["last_transmit_accept"]) != lift_bool(f["transmit_accept"])
    free = z3.BoolVal(True) if f["current_transmit"] is None else acked
    ex.ghost["free_term"] = free


update = Contract(
    Serial.update,
    params=dict(self=SERIAL), setup=setup,
    requires={"connected": "self.connected", "inv": "inv(self)"},
    ensures={
        "inv": "inv(self)",
        "receive[announced chunk delivered exactly once and acknowledged by one toggle]":
            "implies(old.self.last_receive_request != self.receive_request, "
            "len(self.g_D) == len(old.self.g_D) + 1 and self.g_D[len(old.self.g_D)] == self.in_string "
            "and self.receive_accept == (not old.self.receive_accept))",
        "receive[nothing delivered and no toggle without an announcement]":
            "implies(old.self.last_receive_request == self.receive_request, "
            "len(self.g_D) == len(old.self.g_D) and self.receive_accept == old.self.receive_accept)",
        "receive[earlier deliveries kept in order]":
            "all(self.g_D[j] == old.self.g_D[j] for j in range(len(old.self.g_D)))",
        "receive[announcement remembered]": "self.last_receive_request == self.receive_request",
        "transmit[outstanding chunk kept until acknowledged]":
            "implies(old.self.current_transmit is not None and "
            "old.self.last_transmit_accept == self.transmit_accept, "
            "self.g_nread == old.self.g_nread and self.current_transmit == old.self.current_transmit and "
            "self.out_string == old.self.current_transmit and "
            "self.transmit_request == old.self.transmit_request)",
        "transmit[next chunk presented once and announced by one toggle]":
            "implies(self.g_read is not None, "
            "self.g_nread == old.self.g_nread + 1 and self.current_transmit == self.g_read and "
            "self.out_string == self.g_read and "
            "self.transmit_request == (not old.self.transmit_request))",
        "transmit[every byte taken from the application fits the terminal's data field]":
            "self.g_read is None or (len(self.g_read) <= CAP and len(self.out_string) <= CAP)",
        "transmit[no toggle without a new chunk]":
            "implies(self.g_read is None, self.transmit_request == old.self.transmit_request and "
            "self.g_nread == old.self.g_nread)",
        "transmit[acknowledgement frees the channel]":
            "implies(old.self.last_transmit_accept != self.transmit_accept and self.g_read is None, "
            "self.current_transmit is None)",
        "transmit[acknowledgement remembered]": "self.last_transmit_accept == self.transmit_accept",
        "no_reinitialisation": "not self.init_request and self.connected",
    },
    modifies=["self.transmit_request", "self.receive_accept", "self.init_request", "self.out_string",
              "self.last_transmit_request", "self.last_receive_accept", "self.last_transmit_accept",
              "self.last_receive_request", "self.current_transmit", "self.g_D", "self.g_nread", "self.g_read"],
    canaries={"chunk_announced_twice":
              "implies(self.g_read is not None, self.transmit_request == old.self.transmit_request)"},
)

connect = Contract(
    Serial.update,
    name="Serial.update<initialisation>",
    params=dict(self=SERIAL), setup=setup,
    requires={"not_connected": "not self.connected",
              "fresh_outputs": "not self.transmit_request and not self.receive_accept and "
                               "not self.last_transmit_request and not self.last_receive_accept and "
                               "self.current_transmit is None"},
    ensures={
        "requests_initialisation_until_accepted":
            "implies(not self.init_accept, self.init_request and not self.connected)",
        "accepted_initialisation_establishes_the_invariant":
            "implies(self.init_accept, self.connected and not self.init_request and inv(self) and "
            "self.last_transmit_accept == self.transmit_accept and "
            "self.last_receive_request == self.receive_request and self.current_transmit is None)",
        "nothing_transferred_during_initialisation":
            "self.g_nread == old.self.g_nread and self.transmit_request == old.self.transmit_request "
            "and self.receive_accept == old.self.receive_accept",
        "application_is_told_once":
            "len(self.g_D) == len(old.self.g_D) + (1 if self.init_accept else 0)",
    },
    modifies=["self.init_request", "self.connected", "self.last_transmit_accept",
              "self.last_receive_request", "self.g_D"],
)
