"""C26 -- the fast Motor program (devices.Motor wired to terminals.EL7041 in a
FastSyncGroup): contract of the assembled bytes.

Function under contract: the byte string returned by FastSyncGroup.assemble()
for the real Motor/EL7041 objects of /repo (built below on every run; only
map creation is stubbed, no source change).  The postcondition is written from
the property text with unbounded-width (128 bit) arithmetic.
"""
import z3

W = 128


def build():
    """the real generator output + the addresses the real descriptors report"""
    import ebpfcat.arraymap as am
    saved = am.create_map, am.mmap
    am.create_map = lambda *a, **k: 77
    am.mmap = lambda fd, size: bytearray(size)
    try:
        from ebpfcat.devices import Motor
        from ebpfcat.ebpfcat import FastSyncGroup, SimpleEtherCat, SyncManager
        from ebpfcat.terminals import EL7041
        ec = SimpleEtherCat("verif")
        t = EL7041(ec)
        t.position = 5
        # PDO map as parse_pdos would produce it for the EL7041 default
        # mapping (control word + velocity / status word + step counter)
        t.pdos = {(0x7010, 1): (SyncManager.OUT, 0, 0),
                  (0x7010, 0x21): (SyncManager.OUT, 2, "h"),
                  (0x6010, 0xc): (SyncManager.IN, 1, 3),
                  (0x6010, 0xd): (SyncManager.IN, 1, 4),
                  (0x6000, 0x11): (SyncManager.IN, 2, "I")}
        t.pdo_in_sz, t.pdo_out_sz = 6, 4
        t.pdo_in_off, t.pdo_out_off = 0x1100, 0x1000
        m = Motor()
        m.velocity = t.velocity
        m.encoder = t.stepcounter
        m.low_switch = t.low_switch
        m.high_switch = t.high_switch
        m.enable = t.enable
        sg = FastSyncGroup(ec, [m])
        sg.allocate()
        code = sg.assemble()
    finally:
        am.create_map, am.mmap = saved
    pv = {k: m.__dict__[k].fmt_addr(m)
          for k in ("velocity", "encoder", "low_switch", "high_switch", "enable")}
    dv = {k: (type(m).__dict__[k].fmt, m.__dict__[k])
          for k in ("set_enable", "max_velocity", "max_acceleration", "target",
                    "proportional")}
    info = dict(code=code, packet_vars=pv, device_vars=dv,
                wkc_errors=(type(sg).__dict__["wkc_errors"].fmt,
                            sg.__dict__["wkc_errors"]),
                map_size=FastSyncGroup.properties.size,
                frame_size=sg.packet.size + 14,
                on_the_fly=list(sg.packet.on_the_fly),
                counters=dict(sg.packet.counters),
                out_region=(sg.pdo_assign[t][SyncManager.OUT] + 14, t.pdo_out_sz))
    return info


def rd(mem, off, n):
    """little-endian read of n bytes from a z3 array BV64 -> BV8"""
    bs = [z3.Select(mem, z3.BitVecVal(off + k, 64)) for k in range(n)]
    return z3.Concat(*reversed(bs)) if n > 1 else bs[0]


def field(mem, fmt, off, width=W):
    n = {"B": 1, "b": 1, "H": 2, "h": 2, "I": 4, "i": 4, "Q": 8, "q": 8}[fmt]
    v = rd(mem, off, n)
    return z3.SignExt(width - 8 * n, v) if fmt.islower() else \
        z3.ZeroExt(width - 8 * n, v)


def clamp(x, lo, hi):
    return z3.If(x < lo, lo, z3.If(x > hi, hi, x))


def spec(info, pkt0, map0):
    """terms of the property: inputs, the commanded velocity `out`, and the
    intermediate acceleration-limited value `a` (all 128-bit signed)"""
    pv, dv = info["packet_vars"], info["device_vars"]
    g = {k: field(map0, dv[k][0], dv[k][1]) for k in dv}
    v0 = field(pkt0, pv["velocity"][0], pv["velocity"][1])
    pos = field(pkt0, pv["encoder"][0], pv["encoder"][1])

    def bit(name):
        (b, _), off = pv[name]
        return z3.Extract(b, b, z3.Select(pkt0, z3.BitVecVal(off, 64))) == 1
    low, high = bit("low_switch"), bit("high_switch")
    # mathematical product; by lemma L-MUL (discharged in props/c26.py) and
    # the precondition "fits in 64 bits" it equals the sign extension of the
    # 64-bit product of the (exact, at most 34-bit) operands
    dmath = g["proportional"] * (g["target"] - pos)
    lo = lambda v: z3.Extract(63, 0, v)
    d = z3.SignExt(W - 64, lo(g["proportional"]) * lo(g["target"] - pos))
    acc, vmax = g["max_acceleration"], g["max_velocity"]
    a = clamp(d, v0 - acc, v0 + acc)
    b = clamp(a, -vmax, vmax)
    out = z3.If(z3.Or(z3.And(low, b < 0), z3.And(high, b > 0)),
                z3.BitVecVal(0, W), b)
    pre = z3.And(vmax >= 0, vmax <= 32767, v0 <= vmax, -vmax <= v0,
                 # the desired velocity fits in 64 bits
                 z3.SignExt(W - 64, z3.Extract(63, 0, d)) == d)
    return dict(pre=pre, d=d, dmath=dmath, a=a, b=b, out=out, v0=v0, acc=acc, vmax=vmax,
                low=low, high=high, set_enable=g["set_enable"], pos=pos,
                gain=g["proportional"], target=g["target"])
