"""C16 -- SDO transfers carry values byte-for-byte.

Under contract: Terminal.sdo_read, Terminal.sdo_write (real source).
Environment = a protocol-conformant CoE server behind the mailbox, as the
assumed contract of the pair Terminal.mbx_send / Terminal.mbx_recv
(ETG.1000.6, SDO services):

  upload (read)    initiate request (ccs=2) -> either the expedited response
                   (scs=2, e=1, s=1, n = 4-len, up to 4 data bytes) when the
                   value has at most 4 bytes, or the normal response (scs=2,
                   s=1, complete size, then the first k bytes, k chosen by the
                   server within its mailbox);  segment request (ccs=3, toggle
                   t) -> segment response (scs=0, toggle t, n = unused bytes of
                   the 7-byte minimum, c = last), the next bytes of the value;
                   the server expects toggles 0,1,0,...
  download (write) expedited request (ccs=1, e=1, s=1, n): the 4-n data bytes
                   are the value;  normal initiate (ccs=1, s=1): the 4-byte
                   complete size, then the first bytes;  segments (ccs=0,
                   toggle, n, c).  The server stores what it is sent.
  Unrelated mail (a non-CoE message) may precede the initiate response.

Ghost state of the terminal `t`:  g_V the object's value (upload);
g_pos bytes of it delivered so far; g_req the last request; g_toggle the
toggle the server expects next; g_dl the bytes a download has delivered,
g_dl_size the declared complete size, g_dl_done.
Obligations at every mbx_send: the mailbox lock is held (C15) and the message
fits the mailbox (6-byte mailbox header + payload <= mbx_out_sz).
"""
import z3

from ebpfcat.ethercat import (CoECmd, ECCmd, EtherCat, EtherCatError, MBXType, ODCmd, Terminal)
from ebpfcat.lock import MailboxLock

from contracts.c15_mailbox import LOCK_MODEL
from vc.pyvc import lib, ops
from vc.pyvc.api import REGISTRY, Contract, Loop, Raises, T, implies
from vc.pyvc.exec import Contract_, OutOfReach, PyRaise
from vc.pyvc.types import fresh
from vc.pyvc.values import BYTES, INT, Obj, Sym, lift_bool, lift_bytes, lift_int, mk_bool, mkb


def bcat(*parts):
    out = parts[0]
    for p in parts[1:]:
        out = ops.bconcat(out, p)
    return out


def le(v, n):
    """n bytes little endian of a concrete or symbolic non-negative int"""
    k = z3.Int("k!le")
    t = lift_int(v)
    arr = z3.Lambda([k], (t / (256 ** k if False else z3.IntVal(1))) % 256) if False else None
    bs = [(t / (256 ** j)) % 256 for j in range(n)]
    a = z3.K(z3.IntSort(), z3.IntVal(0))
    for j, b in enumerate(bs):
        a = z3.Store(a, j, b)
    return Sym(mkb(a, z3.IntVal(n)), BYTES)


TERM = dict(ec=T.Obj(EtherCat), position=T.Range(0, 65535), name=T.Const("t"),
            mbx_out_off=T.Range(0, 65535), mbx_out_sz=T.Range(24, 1486),
            mbx_in_off=T.Range(0, 65535), mbx_in_sz=T.Range(24, 1486),
            mbx_lock=T.Obj(MailboxLock, counter=T.Range(0, 7), g_held=T.Const(False)))


class Send(Contract_):
    """Terminal.mbx_send as seen by the SDO code"""
    inline = False
    loops = {}

    def apply(self, ex, args, kwargs, frame, node):
        t, mtype, fmt = args[0], args[1], args[2]
        vals = list(args[3:])
        data = kwargs.get("data")
        short = ex.target_short
        ex.check(f"{short}.mailbox[lock held while sending]", lift_bool(t.fields["mbx_lock"].fields["g_held"]),
                 "mbx_send is called with the terminal's mailbox lock held")
        payload = lib.do_pack(ex, "<" + fmt, vals)
        if data is not None:
            payload = ops.bconcat(payload, data)
        n = ops.b_len(lift_bytes(payload))
        ex.check(f"{short}.mailbox[message fits the mailbox]", 6 + n <= lift_int(t.fields["mbx_out_sz"]),
                 "6-byte mailbox header + CoE payload <= mbx_out_sz")
        if mtype is not MBXType.COE:
            raise OutOfReach("non-CoE mail sent by the SDO code")
        t.fields["g_req"] = (vals[1], vals[2], vals[3])      # sdo command byte, index, subindex
        t.fields["g_payload"] = payload
        SERVER.on_request(ex, t, vals, payload, data, short)
        return None


class Recv(Contract_):
    inline = False
    loops = {}

    def apply(self, ex, args, kwargs, frame, node):
        t = args[0]
        ex.check(f"{ex.target_short}.mailbox[lock held while receiving]",
                 lift_bool(t.fields["mbx_lock"].fields["g_held"]),
                 "mbx_recv is called with the terminal's mailbox lock held")
        return SERVER.respond(ex, t)


class Server:
    """the conformant CoE server (assumed contract of the mailbox pair)"""

    # ------------------------------------------------------------ requests
    @staticmethod
    def ccs_of(ex, cmd):
        """client command specifier (bits 7..5) of the SDO command byte"""
        if isinstance(cmd, int):
            return cmd >> 5
        t = lift_int(cmd)
        for k in range(7):
            if ex.fork(t / 32 == k, f"ccs == {k}"):
                return k
        return 7

    def on_request(self, ex, t, vals, payload, data, short):
        f = t.fields
        cmd = vals[1]
        cmd_t = lift_int(cmd)
        ccs = self.ccs_of(ex, cmd)
        if ccs == 2:                                           # upload initiate
            f["g_phase"] = "upload-init"
            return
        if ccs == 3:                                           # upload segment request
            tog = (cmd_t / 16) % 2
            ex.check(f"{short}.upload[segment toggles alternate starting at 0]",
                     mk_bool(lift_int(f["g_toggle"]) == tog),
                     "the toggle bit of a segment request is the one the server expects (0,1,0,...)")
            f["g_phase"] = "upload-seg"
            return
        if ccs == 1:                                           # download initiate
            if ex.fork((cmd_t / 2) % 2 == 1, "expedited download"):
                nunused = (cmd_t / 4) % 4
                ex.check(f"{short}.download[expedited command announces the size]",
                         mk_bool(cmd_t % 2 == 1), "s = 1: the number of unused bytes is indicated")
                body = ops.bslice(payload, 6, 10)
                f["g_dl"] = ops.bslice(body, 0, Sym(4 - nunused, INT))
                f["g_dl_size"] = Sym(4 - nunused, INT)
                f["g_dl_done"] = True
            else:
                size = sum(lift_int(ops.bindex(ex, payload, 6 + j)) * 256 ** j for j in range(4))
                f["g_dl_size"] = Sym(z3.simplify(size), INT)
                ex.check(f"{short}.download[declared complete size is the length of the value]",
                         mk_bool(size == lift_int(f["g_len"])),
                         "bytes 6..9 of the initiate download request == len(data)")
                f["g_dl"] = data if data is not None else b""
                f["g_dl_done"] = False
            f["g_phase"] = "download-init"
            f["g_toggle"] = 0
            return
        if ccs == 0:                                           # download segment
            tog = (cmd_t / 16) % 2
            ex.check(f"{short}.download[segment toggles alternate starting at 0]",
                     mk_bool(lift_int(f["g_toggle"]) == tog), "toggle of the download segment")
            nunused = (cmd_t / 2) % 8
            seg = data if data is not None else b""
            ln = ops.b_len(lift_bytes(seg))
            f["g_dl"] = ops.bconcat(f["g_dl"], ops.bslice(seg, 0, Sym(ln - nunused, INT)))
            f["g_dl_done"] = mk_bool(cmd_t % 2 == 1)
            f["g_toggle"] = Sym(1 - lift_int(f["g_toggle"]), INT)
            f["g_phase"] = "download-seg"
            return
        raise OutOfReach(f"SDO command {cmd!r} outside the server contract")

    # ----------------------------------------------------------- responses
    def respond(self, ex, t):
        f = t.fields
        ph = f.get("g_phase")
        V = f["g_V"]
        vlen = ops.b_len(lift_bytes(V))
        cmd, index, sub = f["g_req"]
        hdr_coe = le(CoECmd.SDORES.value << 12, 2)
        if ph == "upload-init":
            if not f.get("g_noise_done") and ex.choose(2, "unrelated mail before the response?") == 1:
                f["g_noise_done"] = True
                return (fresh(ex, T.Enum(MBXType, [MBXType.EOE, MBXType.ERR, MBXType.VOE]), "mail"),
                        fresh(ex, T.Bytes, "unrelated"))
            kind = ex.choose(2, "upload response: expedited / normal")
            if kind == 0:
                if not f["g_whole"]:
                    from vc.pyvc.exec import PathEnd
                    raise PathEnd()
                ex.assume(z3.And(vlen >= 1, vlen <= 4))      # n = 4 - len fits two bits
                cmdb = Sym(0x43 + 4 * (4 - vlen), INT)
                pad = ops.zeros(ex, Sym(4 - vlen, INT))
                data = bcat(hdr_coe, le(cmdb, 1), le(index, 2), le(sub, 1), V, pad)
                f["g_pos"] = Sym(vlen, INT)
                f["g_phase"] = "done"
                return (MBXType.COE, data)
            k = fresh(ex, T.Range(0, None), "first_chunk")
            ex.assume(z3.And(k.t <= vlen, 16 + k.t <= lift_int(f["mbx_in_sz"])))
            # region split of the recorded finding: does the server deliver
            # everything with the initiate response, or are segments needed?
            ex.assume(k.t == vlen if f["g_whole"] else k.t < vlen)
            data = bcat(hdr_coe, le(0x41, 1), le(index, 2), le(sub, 1), le(Sym(vlen, INT), 4),
                        ops.bslice(V, 0, k))
            f["g_pos"] = k
            f["g_toggle"] = 0
            f["g_phase"] = "upload-wait-seg"
            return (MBXType.COE, data)
        if ph == "upload-seg":
            pos = lift_int(f["g_pos"])
            m = fresh(ex, T.Range(1, None), "segment_len")
            ex.assume(z3.And(pos + m.t <= vlen, 9 + m.t <= lift_int(f["mbx_in_sz"])))
            last = pos + m.t == vlen
            # only the last segment may carry fewer than 7 bytes
            ex.assume(z3.Or(last, m.t >= 7))
            # a conformant server fills its mailbox unless this is the last segment
            tog = lift_int(f["g_toggle"])
            nun = z3.If(m.t < 7, 7 - m.t, 0)
            cmdb = Sym(tog * 16 + nun * 2 + z3.If(last, 1, 0), INT)
            seg = ops.bslice(V, Sym(pos, INT), Sym(pos + m.t, INT))
            pad = ops.zeros(ex, Sym(nun, INT))
            data = bcat(hdr_coe, le(cmdb, 1), seg, pad)
            f["g_pos"] = Sym(z3.simplify(pos + m.t), INT)
            f["g_toggle"] = Sym(1 - tog, INT)
            f["g_phase"] = "upload-wait-seg"
            return (MBXType.COE, data)
        if ph in ("download-init", "download-seg"):
            scs = 0x60 if ph == "download-init" else 0x20 + 0x10 * 0
            data = bcat(hdr_coe, le(scs, 1), le(index, 2), le(sub, 1), ops.zeros(ex, 4))
            return (MBXType.COE, data)
        raise OutOfReach(f"mbx_recv without a pending request (phase {ph})")


SERVER = Server()


def install():
    REGISTRY.update(LOCK_MODEL)
    REGISTRY["ebpfcat.ethercat:Terminal.mbx_send"] = Send()
    REGISTRY["ebpfcat.ethercat:Terminal.mbx_recv"] = Recv()


def collected(ret, expected):
    """the byte strings collected in `ret` concatenate to `expected` (False if
    the list holds anything but byte strings)"""
    return b"".join(ret) == expected


@lib.model(collected)
def _m_collected(ex, args, kw):
    ret, expected = args
    from vc.pyvc.lib import JoinList
    if isinstance(ret, JoinList):
        if ret.bad is not None:
            return False
        return ops.values_equal(ex, Sym(ret.t, BYTES), expected)
    raise OutOfReach("collected() on a concrete list")


# ------------------------------------------------------------------ sdo_read
def read_contract(single_message):
    params = dict(self=T.Obj(Terminal, g_V=T.Bytes, g_pos=T.Const(0), g_toggle=T.Const(0),
                             g_whole=T.Const(single_message), **TERM),
                  index=T.Range(0, 65535), subindex=T.Opt(T.Range(0, 255)))
    req = {"value_fits_the_terminal": "len(self.g_V) < 2**31"}
    name = "Terminal.sdo_read"
    if single_message:
        name += "<the initiate response carries the whole value>"
    else:
        name += "<transfer needs a segment>"
    return Contract(
        Terminal.sdo_read, name=name, params=params, requires=req,
        joinlists=["ret"],
        # loop 1 (skip unrelated mail) is unrolled: the server model sends at
        # most one unrelated message before the response
        loops={2: Loop(invariant={"lock_held": "self.mbx_lock.g_held",
                                  "collected_so_far": "retsize == self.g_pos and self.g_pos <= len(self.g_V) "
                                                      "and collected(ret, self.g_V[:self.g_pos])",
                                  "whole_value_already_there": "implies(self.g_whole, self.g_pos == len(self.g_V))",
                                  "toggle_in_step": "toggle == 16 * self.g_toggle and "
                                                    "(self.g_toggle == 0 or self.g_toggle == 1)",
                                  "size_known": "size == len(self.g_V)"},
                       modifies={"ret": None, "retsize": T.Int, "toggle": T.Int, "data": T.Bytes,
                                 "type": T.Opt(T.Enum(MBXType)), "coecmd": T.Int, "sdocmd": T.Int,
                                 "self.g_pos": T.Range(0, None), "self.g_toggle": T.Range(0, 1)})},
        ensures={"returns_the_terminals_value_bytes": "result == self.g_V",
                 "lock_released": "not self.mbx_lock.g_held"},
        raises=[],
        modifies=None,
        canaries={"returns_nothing": "len(result) == 0 and len(self.g_V) > 0"})


# ----------------------------------------------------------------- sdo_write
def write_contract(region):
    """region: 'expedited' (at most 4 bytes, subindex given), 'normal' (one
    initiate request carries everything), 'segmented' (longer than that)"""
    params = dict(self=T.Obj(Terminal, g_V=T.Const(b""), g_pos=T.Const(0), g_toggle=T.Const(0),
                             g_whole=T.Const(True), g_len=T.Int, g_dl=T.Const(b""), g_dl_size=T.Const(-1),
                             g_dl_done=T.Const(False), **TERM),
                  data=T.Bytes, index=T.Range(0, 65535), subindex=T.Opt(T.Range(0, 255)))
    req = {"ghost_length": "self.g_len == len(data)"}
    if region == "expedited":
        req["region"] = "len(data) <= 4 and subindex is not None and len(data) >= 1"
    elif region == "normal":
        req["region"] = "(len(data) > 4 or subindex is None) and len(data) <= self.mbx_out_sz - 16"
    else:
        req["region"] = "len(data) > self.mbx_out_sz - 16"
    return Contract(
        Terminal.sdo_write, name=f"Terminal.sdo_write<{region}>", params=params, requires=req,
        loops={1: Loop(invariant={"lock_held": "self.mbx_lock.g_held"},
                       modifies={"start": T.Int, "stop": T.Int, "toggle": T.Int, "cmd": T.Int, "d": T.Bytes,
                                 "data": T.Bytes, "type": T.Opt(T.Enum(MBXType)), "coecmd": T.Int,
                                 "sdocmd": T.Int, "idx": T.Int, "subidx": T.Int,
                                 "self.g_dl": T.Bytes, "self.g_dl_done": T.Bool, "self.g_toggle": T.Range(0, 1)})},
        ensures={"value_reaches_the_terminal_byte_for_byte": "self.g_dl == old.data",
                 "transfer_completed": "self.g_dl_done",
                 "lock_released": "not self.mbx_lock.g_held"},
        raises=[], modifies=None,
        canaries={"nothing_was_sent": "len(self.g_dl) == 0"})


# ------------------------------------------------------------------ mbx_recv
# The receive mailbox is the memory of sync manager 1: [mbx_in_off,
# mbx_in_off + mbx_in_sz).  Its status register (0x80D) shows bit 3 while a mail
# is waiting; the mailbox is handed back to the terminal when its LAST byte has
# been read.  A mail is: length (2), address (2), channel/priority (1),
# type | counter << 4 (1), then `length` bytes of service data.
class MbxInBus(Contract_):
    inline = False
    qualname = "ebpfcat.ethercat:EtherCat.roundtrip"
    loops = {}

    def apply(self, ex, args, kwargs, frame, node):
        import z3
        from vc.pyvc import ops
        from vc.pyvc.values import lift_int
        ec, cmd, pos, offset = args[:4]
        rest = tuple(args[4:])
        t = ex.inputs["self"]
        if cmd is ECCmd.FPRD and rest == ("B",) and offset == 0x80D:
            return (fresh(ex, T.Range(0, 255), "sm1_status"),)
        if cmd is ECCmd.FPRD and rest == ("HHBB",) and "data" in kwargs:
            n = kwargs["data"]
            ex.check(f"{ex.target_short}.reads_the_whole_receive_mailbox[from its first to its last byte]",
                     z3.And(lift_int(offset) == lift_int(t.fields["mbx_in_off"]),
                            6 + lift_int(n) == lift_int(t.fields["mbx_in_sz"])),
                     "the read starts at mbx_in_off and covers mbx_in_sz bytes: the terminal gets the mailbox back "
                     "only when its last byte was read, and a mail may fill the whole mailbox")
            dlen = fresh(ex, T.Range(0, 65535), "mail_length")
            ex.assume(dlen.t <= lift_int(t.fields["mbx_in_sz"]) - 6)       # a mail fits its mailbox
            addr = fresh(ex, T.Range(0, 65535), "mail_address")
            prio = fresh(ex, T.Range(0, 255), "mail_channel")
            ty = fresh(ex, T.Range(0, 255), "mail_type")
            ex.assume(z3.And(ty.t % 16 >= 0, z3.Or(*[ty.t % 16 == m.value for m in MBXType])))
            payload = fresh(ex, T.Bytes, "mailbox_bytes")
            ex.assume(ops.b_len(payload.t) == lift_int(n))
            ex.ghost["mail"] = (dlen, ty, payload)
            return (dlen, addr, prio, ty, payload)
        raise OutOfReach(f"bus access {cmd} {offset} {rest} outside the receive-mailbox contract")


def the_mail():
    return None


@lib.model(the_mail)
def _m_the_mail(ex, args, kw):
    return ex.ghost["mail"]


def mbx_recv_contract():
    return Contract(
        Terminal.mbx_recv,
        params=dict(self=T.Obj(Terminal, ec=T.Obj(EtherCat), position=T.Range(0, 65535),
                               mbx_in_off=T.Range(0x1000, 0xffff), mbx_in_sz=T.Range(16, 1486),
                               mbx_out_off=T.Range(0x1000, 0xffff), mbx_out_sz=T.Range(16, 1486))),
        loops={1: Loop(invariant={}, modifies={"status": T.Int})},
        ensures={"returns_the_type_and_exactly_the_service_data_of_the_mail":
                 "result[0].value == the_mail()[1] % 16 and result[1] == the_mail()[2][:the_mail()[0]]"},
        modifies=None,
        options={"inline": {"ebpfcat.ethercat:Terminal.read"}})


# ---------------------------------------------------------------- mbx_send
# The other half of the transport: Terminal.mbx_send against the send mailbox
# (sync manager 0, mailbox mode, ETG.1000.4): the terminal takes the mail when
# the LAST byte of the mailbox is written; until then writes land in its
# memory, afterwards (mailbox full) they are rejected (working counter 0, i.e.
# EtherCatError at the caller).  Ghost: the accepted
# writes so far - `out_mail` (offset, bytes) of the first one, `out_full`,
# `out_clobbered` (a later accepted write overlaps the first one's bytes).
class MbxOutBus(Contract_):
    inline = False
    qualname = "ebpfcat.ethercat:EtherCat.roundtrip"
    loops = {}

    def apply(self, ex, args, kwargs, frame, node):
        ec, cmd, pos, offset = args[:4]
        rest = list(args[4:])
        t = ex.inputs["self"]
        g = ex.ghost
        if cmd is ECCmd.FPRD and rest == ["B"] and offset == 0x805:
            st = fresh(ex, T.Range(0, 255), "sm0_status")
            ex.assume(st.t / 8 % 2 == 0)         # send mailbox empty (nothing unread in it)
            return (st,)
        if cmd is not ECCmd.FPWR:
            raise OutOfReach(f"bus access {cmd} {offset} outside the send-mailbox contract")
        fmt = "<" + "".join(a for a in rest if isinstance(a, str))
        vals = [a for a in rest if not isinstance(a, str)]
        payload = lib.do_pack(ex, fmt, vals)
        data = kwargs.get("data")
        if isinstance(data, int):
            data = bytes(data)
        if data is not None:
            payload = ops.bconcat(payload, data)
        n = ops.b_len(lift_bytes(payload))
        off = lift_int(offset)
        last = lift_int(t.fields["mbx_out_off"]) + lift_int(t.fields["mbx_out_sz"]) - 1
        full = g.get("out_full", z3.BoolVal(False))
        if ex.fork(full, "write to a full send mailbox"):
            # the sync manager rejects it: the datagram comes back with working
            # counter 0, which the master reports as EtherCatError (C12)
            raise PyRaise(ex.make_exc(EtherCatError, "datagram was not processed"))
        full = z3.BoolVal(False)
        if "out_mail" not in g:
            g["out_mail"] = (Sym(off, INT) if not isinstance(offset, int) else offset, payload)
        else:
            o1, p1 = g["out_mail"]
            n1 = ops.b_len(lift_bytes(p1))
            g["out_clobbered"] = z3.Or(g.get("out_clobbered", z3.BoolVal(False)),
                                       z3.And(z3.Not(full), off < lift_int(o1) + n1, lift_int(o1) < off + n))
        g["out_full"] = z3.Or(full, z3.And(off <= last, last < off + n))
        return ()


def out_mail():
    return None


def out_full():
    return None


def out_clobbered():
    return None


@lib.model(out_mail)
def _m_out_mail(ex, args, kw):
    return ex.ghost["out_mail"]


@lib.model(out_full)
def _m_out_full(ex, args, kw):
    return mk_bool(ex.ghost.get("out_full", z3.BoolVal(False)))


@lib.model(out_clobbered)
def _m_out_clobbered(ex, args, kw):
    return mk_bool(ex.ghost.get("out_clobbered", z3.BoolVal(False)))


def mbx_send_contract():
    """one CoE request shape (the SDO code's "HBHB" header plus data of any
    length the mailbox can hold, including the two lengths at its very end)"""
    def setup(ex, inputs):
        inputs.vars["args"] = ("HBHB", inputs.vars["a0"], inputs.vars["a1"], inputs.vars["a2"], inputs.vars["a3"])
    return Contract(
        Terminal.mbx_send,
        params=dict(self=T.Obj(Terminal, ec=T.Obj(EtherCat), position=T.Range(0, 65535), name=T.Const("t"),
                               mbx_in_off=T.Range(0x1000, 0xffff), mbx_in_sz=T.Range(16, 1486),
                               mbx_out_off=T.Range(0x1000, 0xffff), mbx_out_sz=T.Range(16, 1486),
                               mbx_lock=T.Obj(MailboxLock, counter=T.Range(0, 7), g_held=T.Const(True))),
                    type=T.Const(MBXType.COE), a0=T.Range(0, 65535), a1=T.Range(0, 255), a2=T.Range(0, 65535),
                    a3=T.Range(0, 255), data=T.Bytes, address=T.Const(0), priority=T.Const(0), channel=T.Const(0)),
        setup=setup,
        # both are obligations at every call of mbx_send in the SDO code (stub Send above)
        requires={"the_mail_fits_the_send_mailbox": "6 + 6 + len(data) <= self.mbx_out_sz",
                  "mailbox_lock_held": "self.mbx_lock.g_held"},
        ensures={
            "the_mail_is_written_at_the_start_of_the_mailbox": "out_mail()[0] == self.mbx_out_off",
            "header_and_service_data_byte_for_byte":
                "out_mail()[1][:2] == le16(6 + len(data)) and out_mail()[1][5] % 16 == 3 and "
                "out_mail()[1][5] // 16 == old.self.mbx_lock.counter and "
                "out_mail()[1][6:12] == pack('<HBHB', a0, a1, a2, a3) and out_mail()[1][12:] == data",
            "nothing_overwrites_the_mail_before_the_terminal_takes_it": "not out_clobbered()",
            "the_last_byte_of_the_mailbox_is_written": "out_full()",
        },
        modifies=None,
        options={"inline": {"ebpfcat.ethercat:Terminal.read", "ebpfcat.ethercat:Terminal.write",
                            "ebpfcat.ethercat:datasize"}},
        canaries={"the_mail_always_ends_before_the_last_byte": "6 + 6 + len(data) < self.mbx_out_sz"})


def le16(v):
    return pack("<H", v)


from struct import pack  # noqa: E402  (used by the clauses above)
