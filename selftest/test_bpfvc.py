#!/usr/bin/env python3-vt
"""Self test of the bpfvc engine (decoder + symbolic machine).

    cd /verif && PYTHONPATH=/verif:/repo python3-vt selftest/test_bpfvc.py

1. ALU semantics against Python integer arithmetic (concrete mode)
2. differential test against the kernel (BPF_PROG_TEST_RUN), incl. map helpers
3. symbolic proof about a small scalar program
4. a packet program built with the real ebpfcat library, proved for all packets
5. machine features: helpers, forks, and that unsupported things surface
exit status 0 = all fine.
"""
import errno
import os
import random
import sys
from struct import pack

import z3

from vc.bpfvc import (
    Env, MapModel, decode, disasm, disasm_program, hash_region_name, run,
    run_concrete)
from vc.bpfvc import isa

M32, M64 = (1 << 32) - 1, (1 << 64) - 1
FAILURES = []


def check(cond, message):
    if not cond:
        FAILURES.append(message)
        print("FAIL:", message)
    return cond


def ins(opcode, dst=0, src=0, off=0, imm=0):
    return pack("<BBHI", opcode, dst | src << 4, off & 0xffff, imm & M32)


def ld_imm64(dst, value, src=0):
    return ins(0x18, dst, src, 0, value & M32) + ins(0, 0, 0, 0, value >> 32)


EXIT = ins(0x95)


def signed(value, bits):
    value &= (1 << bits) - 1
    return value - (1 << bits) if value >> (bits - 1) else value


# ---- reference semantics in plain Python (independent of z3) ---------------
def ref_alu(code, a, b, bits):
    mask = (1 << bits) - 1
    a, b = a & mask, b & mask
    sh = b & (bits - 1)
    return {
        isa.ADD: lambda: a + b, isa.SUB: lambda: a - b, isa.MUL: lambda: a * b,
        isa.DIV: lambda: a // b if b else 0, isa.MOD: lambda: a % b if b else a,
        isa.OR: lambda: a | b, isa.AND: lambda: a & b, isa.XOR: lambda: a ^ b,
        isa.LSH: lambda: a << sh, isa.RSH: lambda: a >> sh,
        isa.ARSH: lambda: signed(a, bits) >> sh, isa.MOV: lambda: b,
        isa.NEG: lambda: -a,
    }[code]() & mask


def ref_end(to_be, a, bits):
    a &= (1 << bits) - 1
    if to_be:
        a = int.from_bytes(a.to_bytes(bits // 8, "little"), "big")
    return a


def ref_cmp(code, a, b, bits):
    mask = (1 << bits) - 1
    a, b = a & mask, b & mask
    sa, sb = signed(a, bits), signed(b, bits)
    return {
        isa.JEQ: a == b, isa.JNE: a != b, isa.JGT: a > b, isa.JGE: a >= b,
        isa.JLT: a < b, isa.JLE: a <= b, isa.JSET: a & b != 0,
        isa.JSGT: sa > sb, isa.JSGE: sa >= sb, isa.JSLT: sa < sb,
        isa.JSLE: sa <= sb}[code]


BINARY_OPS = [isa.ADD, isa.SUB, isa.MUL, isa.DIV, isa.OR, isa.AND, isa.LSH,
              isa.RSH, isa.MOD, isa.XOR, isa.MOV, isa.ARSH]
SPECIAL = [0, 1, 2, 3, 31, 32, 33, 63, 64, 65, 0x7fffffff, 0x80000000,
           0xffffffff, 0x100000000, 0x7fffffffffffffff, 0x8000000000000000,
           M64, M64 - 1, 0xffffffff00000000, 0x80000000ffffffff]


def rnd64(rng):
    kind = rng.random()
    if kind < 0.3:
        return rng.choice(SPECIAL)
    if kind < 0.5:
        return rng.getrandbits(rng.choice((5, 6, 7, 16, 31, 32, 33)))
    return rng.getrandbits(64)


def rnd_imm(rng):
    kind = rng.random()
    if kind < 0.3:
        return rng.choice([0, 1, -1, 2, 31, 32, 63, 0x7fffffff, -0x80000000])
    return signed(rng.getrandbits(rng.choice((4, 8, 16, 32))), 32)


# ---- 1. ALU unit checks --------------------------------------------------
def test_alu_units(rng, rounds=12):
    env = Env()
    count = 0
    for is64 in (True, False):
        bits, cls = (64, isa.ALU64) if is64 else (32, isa.ALU)
        for code in BINARY_OPS:
            for use_reg in (True, False):
                for _ in range(rounds):
                    a, b, imm = rnd64(rng), rnd64(rng), rnd_imm(rng)
                    if use_reg:
                        prog = ins(cls | code | isa.X, 3, 4) + EXIT
                        operand = b
                    else:
                        prog = ins(cls | code | isa.K, 3, 0, 0, imm) + EXIT
                        operand = imm       # sign-extended, or its low 32 bits
                    res = run_concrete(prog, env, regs={0: 0, 3: a, 4: b})
                    want = ref_alu(code, a, operand, bits)
                    count += 1
                    check(res[0] == "EXIT" and res[2][3] == want,
                          f"alu {disasm(decode(prog)[0])}: a={a:#x} b={b:#x} "
                          f"imm={imm} -> {res[2][3]!r}, expected {want:#x}")
                    check(res[2][4] == b, "src register changed")
        for _ in range(rounds):
            a = rnd64(rng)
            res = run_concrete(ins(cls | isa.NEG, 3) + EXIT, env, regs={0: 0, 3: a})
            count += 1
            check(res[2][3] == ref_alu(isa.NEG, a, 0, bits), f"neg{bits} {a:#x}")
    for opcode in (isa.OP_LE, isa.OP_BE):
        for width in (16, 32, 64):
            for _ in range(rounds):
                a = rnd64(rng)
                res = run_concrete(ins(opcode, 3, 0, 0, width) + EXIT, env,
                                   regs={0: 0, 3: a})
                want = ref_end(opcode == isa.OP_BE, a, width)
                count += 1
                check(res[2][3] == want, f"end {opcode:#x} {width} {a:#x}: "
                      f"{res[2][3]:#x} expected {want:#x}")
    for is64 in (True, False):
        cls = isa.JMP if is64 else isa.JMP32
        for code in sorted(isa.CONDITIONAL_JUMPS):
            for use_reg in (True, False):
                for _ in range(rounds):
                    a, b, imm = rnd64(rng), rnd64(rng), rnd_imm(rng)
                    if rng.random() < 0.2:
                        b = a
                    prog = (ins(0xb7, 0, 0, 0, 1)
                            + (ins(cls | code | isa.X, 3, 4, 1) if use_reg
                               else ins(cls | code, 3, 0, 1, imm))
                            + ins(0xb7, 0, 0, 0, 0) + EXIT)
                    res = run_concrete(prog, env, regs={3: a, 4: b})
                    want = ref_cmp(code, a, b if use_reg else imm,
                                   64 if is64 else 32)
                    count += 1
                    check(res[1] == int(want), f"{disasm(decode(prog)[1])}: "
                          f"a={a:#x} b={b:#x} -> taken={res[1]}, expected {want}")
    # memory: little endian, truncation, zero extension, sign extended ST imm
    for size, n in ((isa.B, 1), (isa.H, 2), (isa.W, 4), (isa.DW, 8)):
        for _ in range(rounds):
            a, imm = rnd64(rng), rnd_imm(rng)
            prog = (ins(isa.STX | isa.MODE_MEM | size, 10, 3, -16)
                    + ins(isa.LDX | isa.MODE_MEM | size, 4, 10, -16)
                    + ins(isa.ST | isa.MODE_MEM | size, 10, 0, -32, imm)
                    + ins(isa.LDX | isa.MODE_MEM | size, 5, 10, -32) + EXIT)
            res = run_concrete(prog, env, regs={0: 0, 3: a})
            mask = (1 << 8 * n) - 1
            count += 1
            check(res[2][4] == a & mask and res[2][5] == imm & mask
                  and res[3]["stack"][496:496 + n] == (a & mask).to_bytes(n, "little")
                  and res[3]["stack"][480:480 + n] == (imm & mask).to_bytes(n, "little"),
                  f"store/load size {n}: a={a:#x} imm={imm}")
    for opcode, n in ((isa.OP_XADD_W, 4), (isa.OP_XADD_DW, 8)):
        for _ in range(rounds):
            a, b = rnd64(rng), rnd64(rng)
            prog = (ins(0x7b, 10, 3, -8) + ins(opcode, 10, 4, -8)
                    + ins(0x79, 5, 10, -8) + EXIT)
            res = run_concrete(prog, env, regs={0: 0, 3: a, 4: b})
            mask = (1 << 8 * n) - 1
            count += 1
            check(res[2][5] == (a & ~mask & M64) | ((a + b) & mask),
                  f"xadd {n}: {a:#x} + {b:#x} -> {res[2][5]:#x}")
    a = rnd64(rng)
    res = run_concrete(ld_imm64(3, a) + EXIT, env, regs={0: 0})
    check(res[2][3] == a, "ld_imm64")
    print(f"1. ALU/JMP/memory unit checks: {count} cases")


# ---- 2. kernel differential test ---------------------------------------------
STACK_AREA = 64         # bytes below r10 used by the random programs
REGS = [0, 2, 3, 4, 5, 6, 7, 8, 9]      # r1 keeps the context


def random_program(rng, length):
    out = []
    for r in REGS:
        if rng.random() < 0.6:
            out.append(ld_imm64(r, rnd64(rng)))
        else:
            out.append(ins(rng.choice((0xb7, 0xb4)), r, 0, 0, rnd_imm(rng)))
    for off in range(8, STACK_AREA + 1, 8):
        out.append(ins(0x7b, 10, rng.choice(REGS), -off))
    for _ in range(length):
        kind = rng.random()
        dst, src = rng.choice(REGS), rng.choice(REGS)
        if kind < 0.50:
            cls = rng.choice((isa.ALU, isa.ALU64))
            code = rng.choice(BINARY_OPS)
            if rng.random() < 0.5:
                if code in (isa.DIV, isa.MOD) and rng.random() < 0.3 and src != dst:
                    # division by zero: 0 in the low half, or all 64 bits
                    out.append(ins(0xb7, src) if rng.random() < 0.5
                               else ins(0x67, src, 0, 0, 32))
                out.append(ins(cls | code | isa.X, dst, src))
            else:
                imm = rnd_imm(rng)
                bits = 64 if cls == isa.ALU64 else 32
                if code in (isa.DIV, isa.MOD) and imm == 0:
                    imm = 7                 # the verifier rejects these
                if code in (isa.LSH, isa.RSH, isa.ARSH):
                    imm = imm % bits
                out.append(ins(cls | code, dst, 0, 0, imm))
        elif kind < 0.56:
            out.append(ins(rng.choice((isa.ALU, isa.ALU64)) | isa.NEG, dst))
        elif kind < 0.62:
            out.append(ins(rng.choice((isa.OP_LE, isa.OP_BE)), dst, 0, 0,
                           rng.choice((16, 32, 64))))
        elif kind < 0.66:
            out.append(ld_imm64(dst, rnd64(rng)))
        elif kind < 0.82:
            size = rng.choice((isa.B, isa.H, isa.W, isa.DW))
            n = isa.SIZE_BYTES[size]
            off = -n * rng.randint(1, STACK_AREA // n)     # aligned
            what = rng.random()
            if what < 0.35:
                out.append(ins(isa.STX | isa.MODE_MEM | size, 10, src, off))
            elif what < 0.5:
                out.append(ins(isa.ST | isa.MODE_MEM | size, 10, 0, off, rnd_imm(rng)))
            elif what < 0.6 and n >= 4:
                out.append(ins(isa.STX | isa.MODE_ATOMIC | size, 10, src, off))
            else:
                out.append(ins(isa.LDX | isa.MODE_MEM | size, dst, 10, off))
        else:
            cls = rng.choice((isa.JMP, isa.JMP32))
            code = rng.choice(sorted(isa.CONDITIONAL_JUMPS))
            if rng.random() < 0.3:          # make equality likely
                out.append(ins(0xbf, dst, src))
                if rng.random() < 0.5:
                    out.append(ins(0x07, dst, 0, 0, rng.choice((-1, 0, 1))))
            if rng.random() < 0.5:
                out.append(ins(cls | code | isa.X, dst, src, 1))
            else:
                out.append(ins(cls | code, dst, 0, 1, rnd_imm(rng)))
            out.append(ins(0xa7, rng.choice(REGS), 0, 0, rnd_imm(rng)))  # xor
    # fold everything into the low 32 bits of r0
    for off in range(8, STACK_AREA + 1, 8):
        out.append(ins(0x79, 2 + off // 8 % 8, 10, -off))
        out.append(ins(0xaf, 0, 2 + off // 8 % 8))
        out.append(ins(0x27, 0, 0, 0, 0x01000193))    # r0 *= prime: keep order
    for r in REGS[1:]:
        out.append(ins(0xaf, 0, r))
        out.append(ins(0x27, 0, 0, 0, 0x01000193))
    out += [ins(0xbf, 2, 0), ins(0x77, 2, 0, 0, 32), ins(0xaf, 0, 2), EXIT]
    return b"".join(out)


def kernel_run(bpf, code, data=bytes(64)):
    """retval of the program in the kernel, or the string 'rejected'"""
    try:
        fd, _ = bpf.prog_load(bpf.ProgType.XDP, code, "GPL")
    except OSError as e:
        if e.errno in (errno.EPERM, errno.ENOSYS):
            raise
        try:
            bpf.prog_load(bpf.ProgType.XDP, code, "GPL", log_level=1,
                          log_size=1 << 20)
        except OSError as e2:
            return "rejected: " + str(e2)[-600:]
        return "rejected"
    try:
        _, retval, _, data_out, _ = bpf.prog_test_run(fd, data, 256, 0, 0)
        return retval
    finally:
        os.close(fd)


def test_kernel_differential(rng, programs=400):
    try:
        from ebpfcat import bpf
        probe = kernel_run(bpf, ins(0xb7, 0, 0, 0, 2) + EXIT)
    except (PermissionError, OSError, ImportError) as e:
        print(f"2. kernel unavailable, skipped ({e})")
        return
    if probe != 2:
        print(f"2. kernel unavailable, skipped (probe gave {probe!r})")
        return
    env = Env(ctx="xdp")
    compared = rejected = 0
    for n in range(programs):
        code = random_program(rng, rng.choice((5, 15, 40, 80)))
        got = kernel_run(bpf, code)
        if isinstance(got, str):
            rejected += 1
            check(False, f"kernel verifier rejected generated program {n}: {got}\n"
                  + "\n".join(disasm_program(code)))
            continue
        res = run_concrete(code, env, pkt=bytes(64))
        compared += 1
        ok = res[0] == "EXIT" and res[1] is not None and res[1] & M32 == got
        if not check(ok, f"program {n}: kernel {got:#x}, model {res[0]} "
                     f"{res[1]!r} {[str(f) for f in res.failed]}"):
            print("\n".join(disasm_program(code)))
            print("model trace:", res.trace)
    print(f"2. kernel differential: {compared} random programs compared, "
          f"{rejected} rejected by the verifier, "
          f"{sum('program' in f for f in FAILURES)} disagreements")
    test_kernel_maps(bpf)


def test_kernel_maps(bpf):
    """hash and array map helpers against the real maps"""
    hfd = bpf.create_map(bpf.MapType.HASH, 4, 8, 4)
    afd = bpf.create_map(bpf.MapType.ARRAY, 4, 16, 1)
    try:
        env = Env(ctx="xdp", maps={hfd: MapModel("hash", 4, 8),
                                   afd: MapModel("array", 4, 16)})
        key = 0x11223344

        def hash_call(helper, flags=None, value=None):
            """r0 = helper(map, &key [, &value, flags]); key at r10-4"""
            out = [ins(0x62, 10, 0, -4, key)]
            if value is not None:
                out += [ld_imm64(3, value), ins(0x7b, 10, 3, -16),
                        ins(0xbf, 3, 10), ins(0x07, 3, 0, 0, -16),
                        ins(0xb7, 4, 0, 0, flags)]
            out += [ld_imm64(1, hfd, src=1), ins(0xbf, 2, 10),
                    ins(0x07, 2, 0, 0, -4), ins(0x85, 0, 0, 0, helper)]
            return b"".join(out)

        # r6 accumulates the observations, 8 bits each
        def note():
            return ins(0x67, 6, 0, 0, 8) + ins(0x57, 0, 0, 0, 0xff) + ins(0x4f, 6, 0)

        def note_lookup():     # 0xee if absent else low byte of the value
            return (ins(0x15, 0, 0, 2) + ins(0x71, 0, 0, 0) + ins(0x05, 0, 0, 1)
                    + ins(0xb7, 0, 0, 0, 0xee) + note())

        script = [(3, None, None), (1, None, None), (2, 2, 0x51), (2, 1, 0x52),
                  (1, None, None), (2, 1, 0x53), (2, 0, 0x54), (1, None, None),
                  (2, 2, 0x55), (1, None, None), (3, None, None), (1, None, None)]
        for upto in (4, 8, len(script)):
            code = ins(0xb7, 6, 0, 0, 0)
            for helper, flags, value in script[:upto]:
                code += hash_call(helper, flags, value)
                code += note_lookup() if helper == 1 else note()
            code += ins(0xbf, 0, 6) + ins(0x77, 6, 0, 0, 32) + ins(0xaf, 0, 6) + EXIT
            try:
                bpf.delete_elem(hfd, pack("<I", key))
            except (KeyError, OSError):
                pass
            got = kernel_run(bpf, code)
            name = hash_region_name(hfd, pack("<I", key))
            res = run_concrete(code, env, pkt=bytes(64),
                               helper_script={"present": {name: False}})
            check(not isinstance(got, str) and res[0] == "EXIT"
                  and res[1] & M32 == got,
                  f"hash map script[:{upto}]: kernel {got!r}, model {res[0]} {res[1]!r}")
            try:
                final = bytes(bpf.lookup_elem(hfd, pack("<I", key), 8))
            except KeyError:
                final = None
            model_final = res[3][name] if z3.is_true(res.state.present[name]) else None
            check(final == model_final, f"hash map final value: kernel {final!r}, "
                  f"model {model_final!r}")
        # array map: lookup key 0 -> pointer, add to the value; key 1 -> null
        code = b"".join([
            ins(0x62, 10, 0, -4, 0), ld_imm64(1, afd, src=1), ins(0xbf, 2, 10),
            ins(0x07, 2, 0, 0, -4), ins(0x85, 0, 0, 0, 1), ins(0x55, 0, 0, 2),
            ins(0xb7, 0, 0, 0, 99), EXIT,
            ins(0xbf, 6, 0), ld_imm64(3, 0x0102030405060708), ins(0xdb, 6, 3, 8),
            ins(0xb7, 3, 0, 0, 5), ins(0xc3, 6, 3, 0),
            ins(0x62, 10, 0, -4, 1), ld_imm64(1, afd, src=1), ins(0xbf, 2, 10),
            ins(0x07, 2, 0, 0, -4), ins(0x85, 0, 0, 0, 1),
            ins(0x15, 0, 0, 2), ins(0xb7, 0, 0, 0, 98), EXIT,
            ins(0x61, 0, 6, 8), EXIT])
        before = bytes(bpf.lookup_elem(afd, pack("<I", 0), 16))
        got = kernel_run(bpf, code)
        res = run_concrete(code, env, pkt=bytes(64), mem={f"map{afd}": before})
        after = bytes(bpf.lookup_elem(afd, pack("<I", 0), 16))
        check(got == 0x05060708 and res[1] == got and res[3][f"map{afd}"] == after,
              f"array map: kernel {got!r} {after.hex()}, model {res[1]!r} "
              f"{res[3][f'map{afd}'].hex()}")
        code = b"".join([
            ins(0x62, 10, 0, -4, 0), ld_imm64(1, afd, src=1), ins(0xbf, 2, 10),
            ins(0x07, 2, 0, 0, -4), ins(0x85, 0, 0, 0, 3), EXIT])
        got = kernel_run(bpf, code)
        res = run_concrete(code, env, pkt=bytes(64))
        check(got == -22 & M32 and res[1] == -22 & M64,
              f"array map delete: kernel {got!r}, model {res[1]!r}")
        print("   map helpers (hash lookup/update flags/delete, array lookup, "
              "atomic add) agree with the kernel")
    finally:
        os.close(hfd)
        os.close(afd)


# ---- 3. symbolic scalar program --------------------------------------------
def prove(hyps, goal):
    s = z3.Solver()
    s.set("timeout", 60000)
    s.add(*hyps)
    s.add(z3.Not(goal))
    return s.check() == z3.unsat


def test_symbolic_scalar():
    code = (ins(0xbf, 0, 1) + ins(0x27, 0, 0, 0, 3) + ins(0x07, 0, 0, 0, 7)
            + ins(0x77, 0, 0, 0, 2) + EXIT)
    env = Env(ctx=None)
    r1 = env.initial_state().regs[1]
    res = run(code, env)
    check(len(res.paths) == 1 and not res.aborted and not res.obligations,
          "scalar program: one path, no obligations")
    path, = res.paths
    check(path.exit == "EXIT" and prove(path.pc, path.r0 == z3.LShR(r1 * 3 + 7, 2)),
          "r0 == (r1 * 3 + 7) >> 2 for all r1")
    check(not prove(path.pc, path.r0 == (r1 * 3 + 7) >> 2),
          "...and the arithmetic shift is told apart")
    # the same with every register symbolic, preset through Env(regs=...)
    x, y = z3.BitVecs("x y", 64)
    code = ins(0x3f, 6, 7) + ins(0x9c, 6, 7) + ins(0xbf, 0, 6) + EXIT
    res = run(code, Env(regs={6: x, 7: y}))
    path, = res.paths
    q = z3.If(y == 0, z3.BitVecVal(0, 64), z3.UDiv(x, y))
    q32, y32 = z3.Extract(31, 0, q), z3.Extract(31, 0, y)
    want = z3.ZeroExt(32, z3.If(y32 == 0, q32, z3.URem(q32, y32)))
    check(prove(path.pc, path.r0 == want), "div64 then mod32, symbolic")
    print("3. symbolic scalar programs proved")


# ---- 4. packet program from the real library -----------------------------
def test_packet_program():
    from ebpfcat.xdp import XDP, PacketVar, XDPExitCode

    class P(XDP):
        minimumPacketSize = 20
        license = "GPL"
        v = PacketVar(14, "!H")

        def program(self):
            with self.v == 0x1234:
                self.v = 0x5678
                self.exit(XDPExitCode.TX)

    code = P().assemble()
    pkt_len = z3.BitVec("pkt_len", 64)
    pkt0 = z3.Array("pkt0", z3.BitVecSort(64), z3.BitVecSort(8))
    env = Env(ctx="xdp", pkt_len=pkt_len, pkt_mem=pkt0)
    res = run(code, env)
    check(not res.aborted, f"packet program: aborted paths {res.aborted}")
    failed = res.failed_obligations()
    check(not failed, f"packet program: unproved safety obligations {failed}")
    check(len(res.obligations) >= 2, "packet accesses produce obligations")
    i = z3.BitVec("i", 64)
    tx_paths = 0
    for path in res.paths:
        final = path.regions["pkt"].mem
        check(path.exit == "EXIT", "path exits")
        tx = path.r0 == 3
        tx_post = z3.And(
            z3.UGT(pkt_len, 20),
            pkt0[14] == 0x12, pkt0[15] == 0x34,
            final[14] == 0x56, final[15] == 0x78,
            z3.Implies(z3.And(i != 14, i != 15), final[i] == pkt0[i]))
        pass_post = z3.And(path.r0 == 2, final[i] == pkt0[i], final == pkt0)
        check(prove(path.pc + [tx], tx_post), f"TX postcondition, trace {path.trace}")
        check(prove(path.pc + [z3.Not(tx)], pass_post),
              f"PASS postcondition, trace {path.trace}")
        s = z3.Solver()
        s.add(*path.pc)
        s.add(tx)
        tx_paths += s.check() == z3.sat
    check(len(res.paths) == 3 and tx_paths == 1,
          f"3 paths, one of them TX (got {len(res.paths)}, {tx_paths})")
    # without the length check the access must be refuted:
    # r9 = ctx.data; r0 = *(u16*)(r9+14); exit
    bad = ins(0x61, 9, 1, 0) + ins(0x69, 0, 9, 14) + EXIT
    failed = run(bad, env).failed_obligations()
    check(len(failed) == 1 and failed[0][1] == "refuted"
          and failed[0][0].kind == "bounds", "unchecked packet access is refuted")
    # replay of the TX path and of a short packet in concrete mode
    pkt = bytearray(range(40))
    pkt[14:16] = b"\x12\x34"
    r = run_concrete(code, Env(ctx="xdp"), pkt=bytes(pkt))
    check(r[0] == "EXIT" and r[1] == 3 and r[3]["pkt"][14:16] == b"\x56\x78"
          and r[3]["pkt"][:14] == bytes(pkt[:14]), "concrete replay TX")
    r = run_concrete(code, Env(ctx="xdp"), pkt=bytes(pkt[:20]))
    check(r[0] == "EXIT" and r[1] == 2 and r[3]["pkt"] == bytes(pkt[:20]),
          "concrete replay short packet")
    r = run_concrete(bad, Env(ctx="xdp"), pkt=bytes(15))
    check(r[0] == "FAULT" and r.failed[0].kind == "bounds", "concrete replay fault")
    print(f"4. packet program ({len(code) // 8} instructions, "
          f"{len(res.paths)} paths) proved")


# ---- 5. machine features ---------------------------------------------------
def kinds(res):
    return sorted({ob.kind for ob, _ in res.failed_obligations()})


def test_machine_features():
    lookup = lambda fd: b"".join([          # r0 = lookup(fd, &key at r10-4)
        ld_imm64(1, fd, src=1), ins(0xbf, 2, 10), ins(0x07, 2, 0, 0, -4),
        ins(0x85, 0, 0, 0, 1)])
    # array map: concrete key 0 -> only the pointer path; value bounds checked
    code = (ins(0x62, 10, 0, -4, 0) + lookup(5) + ins(0x15, 0, 0, 1)
            + ins(0x61, 0, 0, 4) + EXIT)
    res = run(code, Env(maps={5: MapModel("array", 4, 8)}))
    check(len(res.paths) == 1 and not res.failed_obligations()
          and not res.aborted, "array lookup, key 0")
    v = res.paths[0].regions["map5"].read(4, 4)
    check(prove([], res.paths[0].r0 == z3.ZeroExt(32, v)), "array value loaded")
    res = run(code, Env(maps={5: MapModel("array", 4, 6)}))
    check(kinds(res) == ["bounds"], "array value too small -> bounds refuted")
    # symbolic key: two paths
    code = ins(0x63, 10, 3, -4) + lookup(5) + ins(0x15, 0, 0, 1) \
        + ins(0xb7, 0, 0, 0, 1) + EXIT
    k = z3.BitVec("k", 64)
    res = run(code, Env(maps={5: MapModel("array", 4, 8)}, regs={3: k}))
    check(len(res.paths) == 2 and all(
        prove(p.pc, p.r0 == z3.If(z3.Extract(31, 0, k) == 0, z3.BitVecVal(1, 64), 0))
        for p in res.paths), "array lookup forks on the key")
    # without the null check the dereference of scalar 0 is a failure
    code = ins(0x63, 10, 3, -4) + lookup(5) + ins(0x61, 0, 0, 0) + EXIT
    res = run(code, Env(maps={5: MapModel("array", 4, 8)}, regs={3: k}))
    check(kinds(res) == ["deref"] and len(res.aborted) == 1 and len(res.paths) == 1,
          "missing null check -> deref failure on the null path only")
    # hash map: lookup forks on presence; update makes present
    hmaps = {7: MapModel("hash", 4, 8, update_may_fail=True)}
    name = hash_region_name(7, pack("<I", 9))
    update = b"".join([
        ins(0x7b, 10, 3, -16), ins(0xbf, 3, 10), ins(0x07, 3, 0, 0, -16),
        ins(0xb7, 4, 0, 0, 0), ld_imm64(1, 7, src=1), ins(0xbf, 2, 10),
        ins(0x07, 2, 0, 0, -4), ins(0x85, 0, 0, 0, 2)])
    code = (ins(0x62, 10, 0, -4, 9) + update + ins(0x55, 0, 0, 6) + lookup(7)
            + ins(0x79, 0, 0, 0) + EXIT)
    res = run(code, Env(maps=hmaps, regs={3: k}))
    present = z3.Bool(name + "_present")
    ok = [p for p in res.paths if prove(p.pc, p.r0 == k)]
    full = [p for p in res.paths if prove(p.pc, z3.And(p.r0 == -7 & M64, z3.Not(present)))]
    check(len(res.paths) == 3 and len(ok) == 2 and len(full) == 1
          and not res.aborted and not res.failed_obligations(),
          f"hash update/lookup: {len(res.paths)} paths, {len(ok)} ok, {len(full)} full")
    check(all(z3.is_true(p.present[name]) for p in ok), "present after update")
    code = ins(0x63, 10, 3, -4) + lookup(7) + EXIT
    res = run(code, Env(maps=hmaps, regs={3: k}))
    check(kinds(res) == ["unsupported"] and not res.paths,
          "symbolic hash key -> unsupported")
    # helpers: ktime, prandom, clobbering
    code = ins(0x85, 0, 0, 0, 5) + ins(0xbf, 6, 0) + ins(0x85, 0, 0, 0, 7) \
        + ins(0x0f, 0, 6) + EXIT
    res = run(code, Env())
    p, = res.paths
    t, rnd = p.calls[0]["result"], p.calls[1]["result"]
    check(prove([], z3.And(p.r0 == t + rnd, z3.ULE(rnd, M32))), "ktime + prandom")
    r = run_concrete(code, Env(), helper_script={"fresh": [1000, 7]})
    check(r[:2] == ("EXIT", 1007), "scripted helpers in concrete mode")
    res = run(ins(0x85, 0, 0, 0, 5) + ins(0xbf, 0, 1) + EXIT, Env())
    check(kinds(res) == ["uninit"] and not res.paths, "r1 is clobbered by a call")
    res = run(ins(0x85, 0, 0, 0, 6) + EXIT, Env())
    check(kinds(res) == ["unsupported"], "unknown helper -> unsupported")
    # tail call
    registered = lambda idx: z3.And(z3.ULT(idx, 4), idx != 2)
    env = Env(ctx="xdp", maps={3: MapModel("prog_array", 4, 4)},
              registered=registered, regs={3: k})
    code = ld_imm64(2, 3, src=1) + ins(0x85, 0, 0, 0, 12) + ins(0xb7, 0, 0, 0, 2) + EXIT
    res = run(code, env)
    k32 = z3.Extract(31, 0, k)
    tails = [p for p in res.paths if p.exit == "TAILCALL"]
    exits = [p for p in res.paths if p.exit == "EXIT"]
    check(len(tails) == 1 and len(exits) == 1
          and prove(tails[0].pc, z3.And(tails[0].tail_index == k32, registered(k32)))
          and prove(exits[0].pc, z3.And(z3.Not(registered(k32)), exits[0].r0 == 2)),
          "tail call forks on registered(index)")
    r = run_concrete(code, Env(ctx="xdp", maps=env.maps), regs={3: 1}, pkt=bytes(20),
                     helper_script={"registered": [1], "fresh": []})
    check(r[0] == "TAILCALL" and r.tail_index == 1, "concrete tail call")
    # safety failures must surface
    cases = {
        "uninit": ins(0xbf, 0, 5) + EXIT,
        "unsupported": ins(0xb7, 0, 0, 0, 0) + ins(0x05, 0, 0, -2) + EXIT,   # loop
        "bad-jump": ins(0xb7, 0, 0, 0, 0) + ins(0x05, 0, 0, 5) + EXIT,
        "fall-off-end": ins(0xb7, 0, 0, 0, 0),
        "bounds": ins(0xb7, 0, 0, 0, 0) + ins(0x7b, 10, 0, 0) + EXIT,  # at r10+0
        "readonly": ins(0xb7, 0, 0, 0, 0) + ins(0x63, 1, 0, 0) + EXIT,   # ctx
        "ptr-arith": ins(0xb7, 0, 0, 0, 0) + ins(0x27, 1, 0, 0, 2) + EXIT,
        "ptr-leak": ins(0xbf, 0, 10) + EXIT,
        "deref": ins(0xb7, 0, 0, 0, 0) + ins(0x61, 0, 0, 0) + EXIT,
        "ptr-compare": ins(0xb7, 0, 0, 0, 0) + ins(0x2d, 1, 10, 0) + EXIT,
        "ctx-access": ins(0x69, 0, 1, 0) + EXIT,
        "reserved": ins(0xb7, 0, 3, 0, 0) + EXIT,
    }
    for kind, code in cases.items():
        res = run(code, Env(ctx="xdp"))
        check(kinds(res) == [kind], f"{kind} must surface, got {kinds(res)}")
    for bad in (ins(0xd7, 0, 0, 0, 16), ins(0x37, 0, 0, 1, 3), ins(0x20, 0, 0, 0, 0),
                ins(0xc3, 10, 0, -8, 1), ins(0x06, 0, 0, 0, 0), ins(0x85, 0, 1, 0, 1),
                ins(0x91, 0, 10, -8), ins(0xe7, 0, 0, 0, 1)):
        res = run(ins(0xb7, 0, 0, 0, 0) + bad + EXIT, Env())
        check(kinds(res) == ["unsupported"] and not res.paths,
              f"opcode {bad[0]:#x} -> unsupported, got {kinds(res)}")
    # negative stack offset wrap-around: r2 = r10 - 520 is before the region
    code = ins(0xb7, 0, 0, 0, 0) + ins(0xbf, 2, 10) + ins(0x07, 2, 0, 0, -520) \
        + ins(0x73, 2, 0, 0) + EXIT
    check(kinds(run(code, Env())) == ["bounds"], "access before the stack")
    # path explosion is reported, not truncated silently
    code = ins(0xb7, 0, 0, 0, 0) + b"".join(
        ins(0x6d, 2 + n % 4, 6 + n % 4, 1) + ins(0x07, 0, 0, 0, 1)
        for n in range(8)) + EXIT
    regs = {r: z3.BitVec(f"q{r}", 64) for r in range(2, 10)}
    res = run(code, Env(regs=regs), max_paths=10)
    check(res.stats.get("truncated") and kinds(res) == ["unsupported"],
          "max_paths exceeded is a failure")
    res = run(code, Env(regs=regs))
    check(len(res.paths) == 16, f"16 feasible paths of 256, got {len(res.paths)}")
    print("5. machine features (maps, helpers, tail call, failures) checked")


def main():
    seed = int(os.environ.get("BPFVC_SEED", "20260921"))
    rng = random.Random(seed)
    test_alu_units(rng)
    test_kernel_differential(rng, int(os.environ.get("BPFVC_KERNEL_PROGRAMS", "400")))
    test_symbolic_scalar()
    test_packet_program()
    test_machine_features()
    if FAILURES:
        print(f"{len(FAILURES)} FAILURES (seed {seed})")
        return 1
    print("bpfvc selftest: all passed")
    return 0


if __name__ == "__main__":
    sys.exit(main())
