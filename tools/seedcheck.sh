#!/bin/bash
# tools/seedcheck.sh <ID> <dir with patch.diff demo.py meta.json> [check ids...]
# confirms a seeded change on a scratch copy of /repo and runs the checks against it
ID=$1; SRC=$(realpath "$2"); shift 2; CHECKS=${@:-$ID}
W=/tmp/seedcheck-$ID
rm -rf $W && cp -r /repo $W && cd $W || exit 9
mkdir -p seed_$ID && cp $SRC/demo.py seed_$ID/demo.py
/venv/bin/python seed_$ID/demo.py >/tmp/seed_base_$ID.log 2>&1; echo "demo on unchanged code: exit $?"
git apply $SRC/patch.diff || { echo "PATCH DOES NOT APPLY"; exit 8; }
/venv/bin/python -m pytest -q -p no:cacheprovider --timeout=900 --continue-on-collection-errors 2>&1 | tail -1
/venv/bin/python seed_$ID/demo.py >/tmp/seed_mut_$ID.log 2>&1; echo "demo with the change: exit $?"
cd /verif
for c in $CHECKS; do
  VERIF_REPO=$W ./check $c > /tmp/seed_check_${ID}_$c.log 2>&1; echo "check $c on the changed tree: exit $?"
  grep -E "VIOLATION|CHECKER|UNDECIDED" /tmp/seed_check_${ID}_$c.log | cut -c1-220 | head -5
done
rm -rf $W
