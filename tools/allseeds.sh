#!/bin/bash
# tools/allseeds.sh [dirs...]: every kept seeded change (seeded/<ID>[-2]) applied to a scratch copy of /repo; the
# property's quick check must exit 1 with a VIOLATION line on it.  Regression suite of the checks themselves.
cd "$(dirname "$0")/.."
ROOT=$PWD
DIRS=${@:-$(ls seeded)}
rc=0
for d in $DIRS; do
  ID=${d%%-*}
  W=/tmp/allseeds-$d
  rm -rf $W && cp -r /repo $W
  if ! (cd $W && git apply $ROOT/seeded/$d/patch.diff 2>/dev/null); then
    echo "$d: PATCH DOES NOT APPLY (the repaired tree has moved on)"; rm -rf $W; continue
  fi
  s=$(date +%s)
  VERIF_REPO=$W ./check $ID > /tmp/allseeds_$d.log 2>&1; e=$?
  n=$(grep -c '^VIOLATION' /tmp/allseeds_$d.log)
  echo "$d: exit $e, $n VIOLATION lines, $(( $(date +%s)-s ))s  $(grep -m1 '^VIOLATION' /tmp/allseeds_$d.log | cut -c1-160)"
  want=$(python3 -c "import json,sys;print(json.load(open('$ROOT/seeded/$d/meta.json')).get('expected_exit',1))" 2>/dev/null || echo 1)
  [ $e -ne $want ] && { rc=1; echo "$d: UNEXPECTED exit $e (expected $want)"; }
  rm -rf $W
done
exit $rc
