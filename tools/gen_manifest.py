#!/usr/bin/env python3
"""regenerate MANIFEST.json from the table below (keeps it schema-valid)"""
import json
import os

ROOT = os.path.dirname(os.path.dirname(os.path.abspath(__file__)))

PYVC_TRUST = ("trusted: the pyvc encoding of the Python subset (vc/pyvc, defended by native replay of "
              "counter-models, canaries and scratch-copy mutations, not proved), z3 5.1 / cvc5 1.0, "
              "assumed contracts of struct/builtins listed in the evidence file")
BPFVC_TRUST = ("trusted: the eBPF ISA model of vc/bpfvc (cross-checked against the kernel with "
               "BPF_PROG_TEST_RUN by selftest/test_bpfvc.py), helper contracts, z3 5.1")

CLAIMS = {
    "C11": dict(
        engine="pyvc", category="proof", design_ref="DESIGN.md section 4 C11",
        technique="contract-based deductive verification: sidecar contracts on the real source of "
                  "Packet.append/full/assemble and SterilePacket.sterile/append_writer, VCs generated from the AST on "
                  "every run, z3/cvc5",
        text="Packet.append, Packet.full and Packet.assemble are proved against contracts taken from the "
             "frame layout and the property text for all datagram lists of any length (loop invariant, ghost "
             "offsets) and all field values; every obligation is discharged on every run. The sterile-copy "
             "clause: SterilePacket.sterile is proved relative to the assembled frame (same length, the command "
             "byte at every recorded writer position is NOP, every other byte is the frame's - any number of "
             "writers, loop invariant with two ghost parameters), and append_writer records exactly the accepted "
             "write datagrams (a rejected one leaves no entry).",
        note=PYVC_TRUST + "; type invariant of datagram fields (wire ranges) is a precondition of assemble"),
    "C26": dict(
        engine="bpfvc", category="proof", design_ref="DESIGN.md section 4 C26",
        technique="contract-based deductive verification of the generated program: postcondition from the "
                  "property text on the bytes of FastSyncGroup(Motor, EL7041).assemble(), all paths, "
                  "bit-vector inputs fully symbolic, z3",
        text="The assembled bytes of the real Motor program are executed symbolically on every path; for all "
             "values of all inputs (bit-vectors) satisfying the property's preconditions the 16-bit velocity "
             "field equals the limited control law, the enable bit follows set_enable, nothing else in the "
             "terminal's output region changes, and every memory access is in bounds. The program is loop free, "
             "so this is complete, not bounded. The three 'consequently' clauses are lemmas over the spec.",
        note=BPFVC_TRUST + "; the EL7041 PDO layout is fixed as in contracts/c26_motor.py; 64-bit products of "
             "non-constants are uninterpreted in the proof (lemma L-MUL ties them to the mathematical product)"),
    "C27": dict(
        engine="pyvc", category="proof", design_ref="DESIGN.md section 4 C27",
        technique="contract-based deductive verification: step contract on the real source of Valve.update/reset "
                  "(booleans, real-valued clock), VCs from the AST, z3",
        text="Valve.update and Valve.reset are proved against the step contract written from the property for all "
             "switch readings, targets, clock values, moving times and both safe-state settings; the history "
             "statement is the invariant this step contract establishes after a reset.",
        note=PYVC_TRUST + "; TerminalVar/DeviceVar behave as plain boolean fields (assumed, C19/C08); monotonic clock"),
    "C14": dict(
        engine="pyvc", category="proof", design_ref="DESIGN.md section 4 C14",
        technique="contract-based deductive verification: the real source of Terminal.to_operational/get_state "
                  "against protocol obligations at every bus write (ghost state in the bus contract), loop "
                  "invariant for polling, z3",
        text="For every start state, error flag, target, and any number of polls per transition (loop invariant, "
             "no bound) the requests written to AL control follow the property's order/acknowledge/confirmation "
             "clauses, the coroutine returns only at or above the target and raises exactly on an error during "
             "the walk. Termination of polling is not claimed.",
        note=PYVC_TRUST + "; environment contract of the bus: valid AL state codes, arbitrary otherwise"),
    "C20": dict(
        engine="pyvc", category="proof", design_ref="DESIGN.md section 4 C20",
        technique="contract-based deductive verification: Terminal.map_fmmu (asynccontextmanager) split at its "
                  "yield into enter/exit contracts over the abstract view of the FMMU table, z3",
        text="For FMMU tables of any length and contents, both directions, a failing bus, and normal, exceptional "
             "and cancelled exits: the yielded index is a free slot of the table, only that slot changes, and "
             "leaving the block frees exactly that slot even if other mappings changed theirs meanwhile (rely).",
        note=PYVC_TRUST + "; rely: other mappings only change their own slots; bus writes may fail"),
    "C22": dict(
        engine="bpfvc", category="other", design_ref="DESIGN.md section 4 C22",
        technique="contract-based deductive verification of the generated dispatcher: step contract on the bytes "
                  "of EtherXDP().assemble() (all paths, symbolic packet/maps/program table), history clauses as "
                  "z3 lemmas over the proved step relation",
        text="Step contract (never drop; foreign frames untouched; resync / normal / stale cases with exact counter "
             "and index updates; tail call or PASS with the identification ethertype) is proved for all inputs - "
             "complete, the program is loop free. H1 follows directly. H3 is refuted by a history that replays on "
             "the real bytes (recorded finding); the weaker bound (never four in a row) is checked for histories up "
             "to a stated length only. H2 (liveness) is not claimed.",
        note=BPFVC_TRUST + "; rate = 0; H3-weak bounded in history length; H2 not decided by this technique"),
    "C21": dict(
        engine="bpfvc+pyvc", category="other", design_ref="DESIGN.md section 4 C21",
        technique="contract-based deductive verification of the generated group program: postcondition on the "
                  "bytes of FastSyncGroup.assemble() for real layouts, all paths, symbolic frames and counters",
        text="For five datagram layouts built by the real allocators (0-3 write datagrams) the group program is "
             "proved for all frames, lengths and counters to re-enable exactly its write datagrams, clear their "
             "working counters, count one error per wrong counter, and to do so only when the frame is long "
             "enough and output is enabled; otherwise frame and counters are untouched. Bounded in the number of "
             "write datagrams by the layouts checked. User side: what user space emits is the sterile copy "
             "(SterilePacket.sterile / append_writer, pyvc, any number of datagrams). The dispatcher's step "
             "contract, on which the clause about frames that go back unprocessed rests, is re-proved on the "
             "assembled bytes of EtherXDP.",
        note=BPFVC_TRUST + "; " + PYVC_TRUST + "; the history argument over the dispatcher's step relation is "
             "C22's; layouts are a finite sample"),
    "C07": dict(
        engine="bpfvc", category="other", design_ref="DESIGN.md section 4 C07 (Stage A)",
        technique="contract-based deductive verification of generated programs: struct.pack/unpack postconditions "
                  "and guard semantics on the assembled bytes of enumerated packet-variable programs",
        text="Stage A: 192 (quick) / 384 (thorough) programs - every format B H I Q b h i q with native, <, > and ! "
             "byte order, read / write / in-place update, several offset/guard pairs including the access that just "
             "fits - are built with the real DSL and each is proved for all packet contents, all packet lengths and "
             "all values: value read = struct.unpack, bytes written = struct.pack, no other byte touched, body runs "
             "iff the packet is longer than the guard, every access in bounds. Bounded in the enumerated offsets.",
        note=BPFVC_TRUST + "; host is little endian (A-LE); offsets enumerated, not symbolic"),
    "C06": dict(
        engine="bpfvc+lean", category="other", design_ref="DESIGN.md section 4 C06",
        technique="contract-based deductive verification of generated statements (single atomic add, proved "
                  "semantics) plus a machine-checked Lean lemma for arbitrary interleavings",
        text="Stage A: every enumerated in-place addition/subtraction (formats q Q i I x; local, array-map, packet, "
             "pointer variables; constant, 64-bit constant, register and expression amounts) compiles to exactly "
             "one access of the variable, an atomic add of its width, and run alone adds the amount modulo 2**width "
             "for all initial values. Lemma L-XADD (Lean 4 + Mathlib, no axioms beyond propext) proves that any "
             "number of such instances under any instruction interleaving ends at x0 + sum of the amounts.",
        note=BPFVC_TRUST + "; atomicity of BPF_ATOMIC|BPF_ADD is the ISA's contract; bounded in statement shapes"),
    "C01": dict(
        engine="bpfvc", category="other", design_ref="DESIGN.md section 4 C01 (Stage A)",
        technique="contract-based deductive verification of generated statements: denotational postcondition from "
                  "the property on the assembled bytes of every enumerated `dest = expr`, all register/memory "
                  "contents symbolic",
        text="Stage A: about 5400 (quick) statements - every operator + - * // % & | ^ << >> unary minus abs at "
             "depth 1 over registers (r sr w sw), local variables of all formats and small/negative/64-bit "
             "constants, four destination classes, plus depth-2 shapes - are built with the real DSL; each is "
             "proved for all inputs against the exact-value spec (ring operators unconditionally, the others under "
             "the property's range precondition, signed division either rounding). Five regions violate the "
             "property on the real bytes and are recorded findings; everything outside them is discharged. "
             "Bounded in program shape (no Stage B).",
        note=BPFVC_TRUST + "; products/quotients of non-constants are uninterpreted in the first proof attempt, "
             "with the real operations as fallback; bounded in program shape"),
    "C13": dict(
        engine="pyvc", category="other", design_ref="DESIGN.md section 4 C13",
        technique="contract-based deductive verification: the real source of EtherCat.roundtrip against "
                  "payload/decoding spec functions, struct expanded byte-wise, z3",
        text="For eight argument shapes (the format strings used by the package, up to four positional arguments), "
             "all field values, raw data given as bytes of any length (including empty) or as any count, and all "
             "response bytes: the queued payload is the little-endian encoding followed by zeros for a trailing "
             "read-only format and the raw data, and the result is the response decoded with the same formats "
             "plus the raw tail. Bounded in the shape of *args.",
        note=PYVC_TRUST + "; asyncio.Queue/Future modelled as FIFO / response delivery; bounded in arity"),
    "C30": dict(
        engine="pyvc", category="other", design_ref="DESIGN.md section 4 C30",
        technique="contract-based deductive verification: the real source of SyncGroup.update_devices against the "
                  "working-counter clauses (16-bit counters), z3",
        text="For frames with 0..3 datagrams, any counter positions and expected counts, any response bytes and "
             "error count: the error counter rises by exactly the number of datagrams whose 16-bit working counter "
             "differs from the expected count, both bytes of every counter are cleared, every other byte of the "
             "response is what devices see and what is sent next. Bounded in the number of datagrams. The expected "
             "counts come from SterilePacket.append/append_fmmu (re-proved). SyncGroupBase.run: in each of the "
             "first three cycles, with every combination of response and timeout, the frame put onto the bus is "
             "the assembled one at first and afterwards the one the last update_devices returned - also when it "
             "is resent after a timeout (loop unrolled: bounded).",
        note=PYVC_TRUST + "; devices under their own contracts; bounded in datagram count"),
    "C03": dict(
        engine="bpfvc", category="other", design_ref="DESIGN.md section 4 C03 (Stage A)",
        technique="contract-based deductive verification of generated constructs: branch-marker postconditions on "
                  "the assembled bytes of every enumerated with/Else construct, all inputs symbolic",
        text="Stage A: about 1100 (quick) constructs - the six comparisons over registers, local variables of "
             "several formats and constants, bit tests with &, single- and multi-bit fields, ~, &/| combinations of "
             "depth <= 2, with and without Else, nested and sequenced - are built with the real DSL; each is proved "
             "for all inputs within the property's range precondition: body iff true, Else iff false, execution "
             "continues. Two regions violate the property on the real bytes and are recorded findings: an unsigned "
             "8-byte left operand ordered against a signed operand of at most 4 bytes, and a signed 32-bit register "
             "view compared with a fixed-point operand.",
        note=BPFVC_TRUST + "; bounded in program shape; two recorded findings"),
    "C25": dict(
        engine="pyvc", category="proof", design_ref="DESIGN.md section 4 C25",
        technique="contract-based deductive verification: the real source of EtherCat.find_free_address / "
                  "assigned_address with a loop invariant under a rely condition for concurrent callers, z3",
        text="For any used-address set, any random choices and any bus answers: the returned address lies in the "
             "configured range, was not in the used set when the call started, is recorded in the set before the "
             "coroutine first awaits (so no concurrent caller can pick it: obligation at the probe), the set only "
             "grows, and no terminal answered at the address. The bus contract's 'EtherCatError iff not processed' is "
             "backed by process_packet under a transport fault (pending requests fail with the fault itself). "
             "Termination of the retry loop is not claimed.",
        note=PYVC_TRUST + "; bus contract; rely: concurrent tasks only add addresses; randint returns any value in range"),
    "C12": dict(
        engine="pyvc", category="other", design_ref="DESIGN.md section 4 C12",
        technique="contract-based deductive verification: the real source of EtherCat.process_packet (per-request "
                  "outcome clauses over a ghost asyncio.Future model) and of EtherCat.sendloop (loop invariant: the "
                  "frame holds exactly the dequeued requests at the windows Packet.append reported; iteration "
                  "postcondition: progress), z3",
        text="process_packet: for frames with 0..3 requests, any windows, any response bytes and any subset of "
             "requests already cancelled, every pending request completes exactly once with its own bytes or with "
             "EtherCatError when its working counter is 0, cancelled ones are left alone, and nothing else is "
             "raised (O3/O4). sendloop: for any stream of requests the frame handed to process_packet is well "
             "formed and carries exactly its own requests at their own windows (O1/O2), and an iteration that did "
             "not dequeue a request disposes of the pending one (O6, no stall); a taken request is put back only onto "
             "an empty queue (submission order); under a transport fault pending requests fail with the fault "
             "itself. datagram_received/roundtrip_packet "
             "(O5) are not under contract yet.",
        note=PYVC_TRUST + "; asyncio.Future/Queue contracts assumed; Packet.append by its C11 contract; bounded in "
             "requests per frame for process_packet"),
    "C02": dict(
        engine="pyvc+bpfvc", category="other", design_ref="DESIGN.md section 4 C02",
        technique="contract-based deductive verification: the real source of Constant.__init__ and "
                  "ArrayGlobalVarDesc.__set__ under the IEEE-754 standard model (z3 reals), and Stage A on the "
                  "generated bytes of statements mixing fixed-point and integer operands against the property's "
                  "scaled-integer formula",
        text="Conversions: for every decimal k/100000 with |k| < 2**50 the scaled integer the generator uses for a "
             "constant and the raw int64 a Python-side write stores are exactly k. Arithmetic, Stage A: about 750 "
             "statements dest = A op B (+ - * / // %, x registers, x variables, decimal and integer constants, "
             "8-byte integer operands, fixed and integer destinations) are built with the real DSL and proved "
             "equal to the property's formula (typing: / always fixed, // always integer; scaling; dropping to the "
             "destination) for all register and memory contents. Bounded in program shape (depth 1, 8-byte "
             "operands); negative operands of statements that need a division fall into C01's recorded finding "
             "R-SDIV; comparisons mixing fixed and integer operands (C03's family, re-proved here, including 32-bit "
             "registers; one recorded finding: a signed 32-bit register view against a fixed-point operand). "
             "Concrete decimal samples of both signs decide the conversions where the IEEE model times out.",
        note=PYVC_TRUST + "; " + BPFVC_TRUST + "; binary64 standard model assumed; products and unsigned quotients "
             "uninterpreted in the Stage-A proofs, lemma L-MUL-U links them to exact arithmetic"),
    "C04": dict(
        engine="pyvc+bpfvc", category="other", design_ref="DESIGN.md section 4 C04",
        technique="contract-based deductive verification: the real source of LocalVar/Member/Dict.__set_name__, "
                  "EBPF.get_stack and LocalVar.fmt_addr against the abstract view of disjoint byte ranges below the "
                  "frame bottom; frame postconditions on the bytes of generated programs whose statements use "
                  "temporaries",
        text="Layout: every declaration takes a slot strictly below all earlier ones, aligned to its size (any number "
             "and order of declarations, by induction over the stack counter); Dict key/value areas likewise; a "
             "temporary of get_stack lies below every declared variable of the main program and the bottom is "
             "restored; a main-program variable's address never depends on the current stack. Frame: ten generated "
             "programs (hash-map reads and writes with their key temporaries, spilled intermediate values, saved "
             "registers around helper calls, bit-field and fixed-point stores) change no declared local, array-map "
             "or hash-map variable other than their destination, for all inputs. Locals of SubPrograms violate the "
             "property on the real code (two recorded findings); Dict structure members on the program side are "
             "not covered.",
        note=PYVC_TRUST + "; " + BPFVC_TRUST + "; bounded in the frame programs; two recorded findings"),
    "C08": dict(
        engine="pyvc+bpfvc", category="other", design_ref="DESIGN.md section 4 C08",
        technique="contract-based deductive verification: the real source of ArrayMap.collect over generated class "
                  "hierarchies with symbolic variable sizes (layout invariant over the effective descriptors), "
                  "byte-level postconditions on ArrayGlobalVarDesc.__get__/__set__ and PerCPUVar.__getitem__, and "
                  "bpfvc on a generated program per format",
        text="collect: for four hierarchy shapes (flat with a foreign map, inherited, re-declared name, program with "
             "three subprogram instances of two classes) and all variable sizes, every effective variable of the map "
             "has an offset, lies inside the map, shares no byte with any other, and the map size is a multiple of 8. "
             "User side: for formats B H I Q b h i q and multi-element formats, any address and map content, set "
             "changes exactly the variable's bytes and get returns the value (tuple) stored there; per-CPU variables "
             "decode CPU c's copy at stride map.size. Program side: a generated program reads and writes exactly "
             "the variable's bytes of the map value for every format. Bounded in hierarchy shapes and formats; "
             "fixed-point conversion is left to C02.",
        note=PYVC_TRUST + "; " + BPFVC_TRUST + "; host little endian; mmap and per-CPU layout are kernel contracts"),
    "C09": dict(
        engine="pyvc+bpfvc", category="other", design_ref="DESIGN.md section 4 C09",
        technique="contract-based deductive verification: lemmas over the real HashGlobalVarDesc.__set__/__get__, "
                  "HashMap.load/globalVar against a ghost kernel hash map; byte-level contracts of "
                  "Member.__get__/__set__/fmt_addr/__set_name__; bpfvc on generated programs for hash reads/writes "
                  "and Dict update/lookup",
        text="Hash variables: distinct one-byte keys; after loading every cell holds its default; a value written "
             "from Python is read back unchanged and writing one variable leaves the other's cell alone (all "
             "values of the formats); the generated program reads the cell of the variable's key with its format "
             "and writes the whole 8-byte cell. Dict: Structure members are packed, read and written at "
             "data[relative_addr : +size] on the Python side and addressed at the same relative offset by the "
             "program; a generated update stores the value structure under exactly the key bytes Python builds, "
             "members at the Python offsets; a generated lookup runs the body with the stored member when the key "
             "is present and the Else block otherwise. Bounded: two hash variables, one Key/Value definition with "
             "constant keys, four generated programs.",
        note=PYVC_TRUST + "; " + BPFVC_TRUST + "; kernel hash-map behaviour assumed; Python-side TheDict methods "
             "(buffer sizes) are under C10; x-format hash variables and delete/iteration are not covered"),
    "C10": dict(
        engine="pyvc", category="other", design_ref="DESIGN.md section 4 C10",
        technique="contract-based deductive verification: preconditions at call sites. The kernel ABI of the bpf() "
                  "map commands is the contract of bpf.bpf (ghost pointers carry buffer lengths, ghost registry of "
                  "map sizes); bpf._lookup_elem/update_elem/delete_elem/get_next_key/create_map are proved against "
                  "buffer preconditions, and every caller in the package is proved to meet them",
        text="For every file descriptor, count, buffer content and number of possible CPUs: each map lookup, update, "
             "delete, lookup-and-delete and key iteration issued by HashGlobalVarDesc, HashMap.init, Dict.init, "
             "TheDict (set/get/pop/del/iter), PerCPUArrayMap.create_map / PerCPUReader.read and "
             "FastEtherCat.register_sync_group passes key and value buffers at least as large as what the kernel "
             "transfers; per-CPU buffers cover roundup8(value size) times the possible CPUs. Formats and Structure "
             "definitions enumerated.",
        note=PYVC_TRUST + "; kernel ABI assumed; sysfs contract of possible_cpus assumed; create_map arguments of "
             "FastEtherCat.connect read off the source as class invariant"),
    "C15": dict(
        engine="pyvc", category="other", design_ref="DESIGN.md section 4 C15",
        technique="contract-based deductive verification: sidecar contracts on the real source of "
                  "MailboxLock/ParallelMailboxLock.next_counter, ParallelMailboxLock.__aenter__/__aexit__ (resource "
                  "invariant of the counter byte, rely/guarantee against assumed lockf and asyncio.Lock contracts), "
                  "LockFile.__init__ (guarantee towards concurrent openers) and Terminal.mbx_send; lock-held "
                  "preconditions at every mailbox call site of Terminal",
        text="next_counter is one step of the cycle 1..7 from the counter the message carries; mbx_send writes that "
             "counter into the header while the lock is held; entering a ParallelMailboxLock gives exclusive "
             "ownership of the terminal's counter byte among processes (lockf) and among tasks (asyncio.Lock), "
             "yields a counter in 0..7 even on a still empty file, and leaving writes the counter back before "
             "unlocking; the creator of the lock file never overwrites counters stored meanwhile; every mbx_send / "
             "mbx_recv / next_counter call of Terminal is under `async with self.mbx_lock`. All proved for every "
             "value and any number of users; interleavings are covered by the ownership argument (assumed lock "
             "contracts), not enumerated. The no-repeat-no-gap statement over a whole history is the composition "
             "of these step contracts, not a separately mechanised lemma.",
        note=PYVC_TRUST + "; POSIX lockf (per-process) and asyncio.Lock contracts assumed; lexical enclosure in "
             "`async with` decides the call-site obligations (backend ast-dominance); level other because the "
             "history statement is composed by hand"),
    "C17": dict(
        engine="pyvc", category="other", design_ref="DESIGN.md section 4 C17",
        technique="contract-based deductive verification: the real source of Terminal._eeprom_read_one, read_eeprom "
                  "(nested get_data), parse_sync_managers and parse_pdos against the register-level contract of the "
                  "ESC's EEPROM interface (ghost image, loop invariants over busy polls, refills and sync-manager "
                  "entries), z3; parse_pdos and the number of categories by bounded unrolling (labelled bounded)",
        text="For any image, 4- or 8-byte interface and any number of busy polls, _eeprom_read_one returns the eight "
             "bytes stored at the address (loop invariants). read_eeprom returns the identity fields and every "
             "category up to the end marker, keyed by type, exactly as stored: category lengths and contents are "
             "unbounded (invariant of get_data: the unconsumed bytes are the image between cursor and read "
             "position), the number of categories is bounded (0-2). parse_sync_managers gives "
             "each mailbox and process-data area the offset, size and register address of the last entry of its "
             "kind, for any number of entries (loop invariant with a ghost entry). parse_pdos (EEPROM source): the "
             "nested generator yields exactly the stored entries in order for categories of any number of PDOs and "
             "entries (ghost slot structure, two loop invariants), and the nested consumer gives every mapped entry "
             "of any sequence its byte offset and bit position or format and returns the bit total (ghost prefix "
             "sums, dict observed at an arbitrary ghost key); their composition inside parse_pdos is checked end to "
             "end for categories of up to 3 (thorough 4) eight-byte slots. The SDO source of parse_pdos is not "
             "covered.",
        note=PYVC_TRUST + "; EEPROM interface contract written from ETG.1000.4; parse_pdos over the SDO source "
             "(sdo_read_format) and EBPFTerminal.apply_eeprom's size rounding are not under contract"),
    "C16": dict(
        engine="pyvc", category="other", design_ref="DESIGN.md section 4 C16",
        technique="contract-based deductive verification: the real source of Terminal.sdo_read / sdo_write against "
                  "the assumed contract of a protocol-conformant SDO server behind mbx_send / mbx_recv (ghost "
                  "server state, loop invariant over segments, region predicates for recorded findings), z3",
        text="Transport: mbx_recv reads the receive mailbox from its first to its last byte and returns the mail's "
             "type and exactly its declared service data; mbx_send writes the mail (length, counter nibble, header, "
             "service data byte for byte) at the start of the send mailbox, nothing overwrites it before the "
             "terminal takes it, and the mailbox's last byte is written for every mail length the mailbox holds. "
             "Upload: for values of any length, any mailbox sizes, any split chosen by the server, with or without "
             "subindex and with unrelated mail before the response, sdo_read returns exactly the terminal's value "
             "bytes; segment toggles alternate from 0 (obligation at every request), every message fits the mailbox "
             "and is sent under the mailbox lock - any number of segments through the loop invariant. Download: the "
             "expedited transfer (1-4 bytes with subindex) reaches the server byte for byte. Normal and segmented "
             "downloads violate the property on the real code (two recorded findings, witnesses replayed against an "
             "executable conformant server); inside those regions nothing is claimed.",
        note=PYVC_TRUST + "; SDO server contract written from ETG.1000.6; two recorded findings (regions of "
             "sdo_write)"),
    "C18": dict(
        engine="pyvc", category="other", design_ref="DESIGN.md section 4 C18",
        technique="contract-based deductive verification: sidecar contracts on the real source of "
                  "SterilePacket.append/append_writer/append_fmmu, EBPFTerminal.allocate, AerotechBase.allocate, "
                  "EtherCat.get_fmmu_addr and SyncGroupBase.allocate (Packet.append by its C11 contract), VCs from "
                  "the AST, z3",
        text="The packet methods and the two terminal allocators are proved for packets of any length against "
             "contracts over the whole frame layout (what is reserved, exact sizes, everything else kept, frame "
             "invariant, expected working counts). SyncGroupBase.allocate is proved for groups of 0-1 terminals "
             "(quick) and all pairs of EBPF/Aerotech terminals (thorough), all sizes, offsets, flags and addressing "
             "modes symbolic: every region lies in the data window of the datagram that transports it at exactly "
             "its size, direct regions are the whole window of a datagram addressed to the terminal, FMMU logical "
             "addresses map to the region, regions never overlap, the group's logical windows stay apart, and a "
             "group that does not fit is rejected. Bounded in the number of terminals per group.",
        note=PYVC_TRUST + "; Packet.append by its proved C11 contract; get_fmmu_addr of the single-process master "
             "only (the lock-file variant belongs to C23); Aerotech declared input size positive"),
    "C19": dict(
        engine="pyvc+bpfvc", category="other", design_ref="DESIGN.md section 4 C19",
        technique="contract-based deductive verification: byte-level little-endian postconditions on the real "
                  "source of PacketVar.get/set/_start/fmt_addr (pyvc, symbolic positions and frames) and on the "
                  "bytes of FastSyncGroup.assemble() for a probe device per format and bit (bpfvc, all paths)",
        text="Python path: for every format B H I Q b h i q and every bit, both sync managers, any position and "
             "any frame, get returns the little-endian value (or the bit) of exactly the variable's bytes, set "
             "changes exactly those bytes (that bit) and nothing else, out-of-range values are rejected with the "
             "frame untouched. Program path: for every format and bit the generated program reads and writes "
             "exactly those bytes with the same value semantics for all frames, lengths and map contents, and the "
             "address it uses is the Python start plus the Ethernet header. Bounded in the enumerated positions "
             "on the program path; float formats are out of the encoder's reach.",
        note=PYVC_TRUST + "; " + BPFVC_TRUST + "; host little endian; descriptor resolution (ProcessDesc/StructDesc) "
             "is exercised on the real objects when the probe programs are built, not symbolically"),
    "C23": dict(
        engine="pyvc", category="other", design_ref="DESIGN.md section 9.6",
        technique="contract-based deductive verification, rely/guarantee: the real source of lock.FMMULock "
                  "(__init__/get_next_addr/remove) and of ParallelEtherCat.get_ethertype/run executed for one "
                  "participant against atomic-action contracts of the POSIX / bpf calls; resource invariant of the "
                  "address bitmap under lockf; global invariant of lock directory, pin and attached dispatcher as "
                  "the guarantee of every action; the other participants are the rely (any number); z3",
        text="FMMU windows: every access to the address bitmap happens under the file lock, the invariant (64 bytes, "
             "every live participant's bit set) is re-established at every unlock, a new participant gets a number "
             "no live participant has, get_next_addr never leaves the window of its number, remove clears only its "
             "own bit - for any number of participants and any bitmap. Ethertypes: the lock file is created "
             "exclusively, so a participant's ethertype differs from that of every other registered participant, "
             "and it is the one its socket is bound to. Dispatcher: a successful rename makes a participant the only "
             "installer (I1); every action of a participant that is not the last one to leave and that fetches the "
             "program table while nobody installs keeps the global invariant, and its table is the attached "
             "dispatcher's while it runs. Two regions violate the property on the real code (recorded findings, "
             "interleavings replayed on the real run() over a simulated file system): the last leaver's "
             "uninstall is not atomic; a joiner can fetch a stale table during an installation.",
        note=PYVC_TRUST + "; POSIX/bpf atomic-action contracts assumed; the rely is the symmetric image of the "
             "guarantee (all participants run the same code) - composed by hand, not mechanised; installation "
             "failures and crashes not covered; two recorded findings"),
    "C24": dict(
        engine="pyvc", category="other", design_ref="DESIGN.md section 4 C24",
        technique="contract-based deductive verification: exceptional postconditions on the real source of "
                  "SyncGroupBase.run / map_fmmu, FastSyncGroup.run, FastEtherCat.register_sync_group and "
                  "ProcessSyncGroup.wait_for_process with CancelledError as an exceptional exit of every await "
                  "(assumed contracts of gather, wait_for, AsyncExitStack, the program table and the pidfd)",
        text="For a cancellation at any await before the clean-up starts (each await is an exceptional exit, not "
             "an enumerated injection point): the coroutine ends with CancelledError and nothing else; every "
             "terminal that may have been written OPERATIONAL (any subset of a cancelled gather) is written "
             "SAFE-OPERATIONAL afterwards; every FMMU mapping entered is left; a fast group's program-table entry "
             "is deleted under the key it was registered with and the group is no longer listed; a process group "
             "tells the child to stop and ends only after the child's pidfd became readable. Proved for groups "
             "of 1-2 terminals (any flags, any subset of mappings) - bounded in the number of terminals.",
        note=PYVC_TRUST + "; asyncio contracts assumed (gather cancels its children, any subset may have run); "
             "Terminal.map_fmmu by its C20 contract; one cancellation per run; ProcessSyncGroup.start/subprocess "
             "side (spawn) is not under contract"),
    "C28": dict(
        engine="pyvc", category="other", design_ref="DESIGN.md section 4 C28",
        technique="contract-based deductive verification: step contract of the handshake on the real source of "
                  "Serial.update (ghost sequences for the two pipes, all terminal inputs and pipe outcomes "
                  "symbolic), invariant established by the initialisation step, z3",
        text="For every state of the handshake bits, every in_string and every outcome of the non-blocking pipe "
             "read: a toggle of receive_request delivers in_string exactly once and toggles receive_accept once, "
             "nothing is delivered or acknowledged otherwise; while a chunk is outstanding nothing is read, "
             "out_string keeps it and transmit_request does not move; a free channel takes the next chunk once, "
             "presents it and announces it with exactly one toggle; initialisation transfers nothing and "
             "establishes the invariant. The exactly-once / in-order statement over a whole history is the "
             "induction over cycles with these clauses (composed by hand, hence level other).",
        note=PYVC_TRUST + "; TerminalVar attributes as plain fields (C19); pipe contract for os.read/os.write; "
             "terminal behaviour unconstrained"),
    "C29": dict(
        engine="pyvc", category="other", design_ref="DESIGN.md section 4 C29",
        technique="contract-based deductive verification: layout postcondition on the real source of "
                  "SimulatedEBPF.__init__ (EBPFBase.__init__ and ArrayMap.collect inlined) for a ProcessSyncGroup "
                  "whose devices declare DeviceVars with symbolic sizes, z3",
        text="After a process sync group has been constructed, every DeviceVar of every device has an offset inside "
             "the shared array of its map and shares no byte with any other variable of the same or another device, "
             "for all variable sizes; devices are attached to the group. Reading and writing at (format, address) "
             "is the ArrayGlobalVarDesc contract proved under C08. One generated configuration (three devices of "
             "two classes); cross-process visibility is the assumed contract of multiprocessing's shared Array.",
        note=PYVC_TRUST + "; bounded in the device configuration; spawn/pickling and shared memory assumed"),
}

NA = {
    "C05": "the deciding oracle is the Linux eBPF verifier (external C code); no contract within reach can "
           "express it without a hand-written model of the verifier (DESIGN.md section 5)",
}

ENGINES = [
    {"name": "pyvc", "path": "vc/pyvc", "kind_free_text":
     "AST -> SMT verification-condition generator for Python functions of /repo (symbolic execution path by "
     "path, loop invariants, call by contract), contracts in contracts/*.py"},
    {"name": "bpfvc", "path": "vc/bpfvc", "kind_free_text":
     "symbolic executor (weakest-precondition style, all paths) for the eBPF bytes returned by EBPF.assemble()"},
    {"name": "lean", "path": "lean", "kind_free_text": "Lean 4 + Mathlib lemma L-XADD (C06)"},
]


def main():
    props = [json.loads(l) for l in open(os.path.join(ROOT, "properties.jsonl"))]
    checks, na = [], []
    for p in props:
        pid = p["id"]
        c = CLAIMS.get(pid)
        if c is None:
            na.append({"property_id": pid, "reason": NA.get(
                pid, "check not built yet in this round (see DESIGN.md section 4 for the planned contracts)")})
            continue
        checks.append({
            "property_id": pid,
            "quick_cmd": f"./check {pid} --tier quick",
            "thorough_cmd": f"./check {pid} --tier thorough",
            "evidence_file": f"evidence/{pid}.json",
            "replay_cmd_template": f"./check {pid} --replay {{path}}",
            "engine": c["engine"],
            "level_claimed": {"category": c["category"], "text": c["text"],
                              "design_ref": c["design_ref"]},
            "level_note": c["note"],
            "technique": c["technique"],
        })
    for e in ENGINES:
        e["serves_properties"] = [k for k, c in CLAIMS.items() if e["name"] in c["engine"]]
    m = {
        "version": 1,
        "setup_cmd": "python3-vt -m compileall -q vc contracts props >/dev/null && ./check --smoke",
        "hooks": {
            "guard": "EBPFCAT_VERIF",
            "enable": "no source hooks: contracts are sidecar files under /verif/contracts; the real source is "
                      "re-read from /repo (or $VERIF_REPO) on every run",
            "baseline_off_cmd": "cd /repo && /venv/bin/python -m pytest -ra -q -p no:cacheprovider --timeout=900 "
                                "--continue-on-collection-errors",
            "source_commits": [],
            "add_only": True,
        },
        "engines": ENGINES,
        "checks": checks,
        "notes": "Contract-based deductive verification of the real code; see DESIGN.md. Exit codes of ./check: "
                 "0 all obligations discharged, 1 violation, 2 undecided, 3 checker broken.",
        "not_applicable": na,
    }
    with open(os.path.join(ROOT, "MANIFEST.json"), "w") as f:
        json.dump(m, f, indent=1)
    print(f"{len(checks)} checks claimed, {len(na)} not claimed")


if __name__ == "__main__":
    main()
