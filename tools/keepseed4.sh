#!/bin/bash
# tools/keepseed2.sh <ID> <srcdir> "<result>": a third seeded change of a property, kept under seeded/<ID>-4
ID=$1; SRC=$2; NOTE=$3
D=/verif/seeded/$ID-4
mkdir -p $D && cp $SRC/patch.diff $SRC/demo.py $D/
python3 - "$ID" "$SRC" "$NOTE" <<'PY'
import json,sys
ID,SRC,NOTE=sys.argv[1:4]
m=json.load(open(SRC+'/meta.json'))
m['confirmed']="applied to a scratch copy of /repo: suite 44 passed / 5 failed as baseline; demo exits 0 without and 1 with the change (tools/seedcheck.sh)"
m['checks_result']=NOTE
json.dump(m,open(f'/verif/seeded/{ID}-4/meta.json','w'),indent=1)
PY
git -C /repo worktree remove --force /tmp/seedwt4-$ID
