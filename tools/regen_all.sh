#!/bin/bash
# tools/regen_all.sh [ids...]: run every registered quick command on the unchanged /repo (sequentially, the
# environment of the fresh-restore exercise), refresh baseline_obligations.json and validate the evidence files
cd "$(dirname "$0")/.."
export VERIF_SEED=1 VERIF_TIER=quick
IDS=${@:-$(python3 -c "import json;print(' '.join(c['property_id'] for c in json.load(open('MANIFEST.json'))['checks']))")}
rc=0
for p in $IDS; do
  s=$(date +%s)
  ./check $p --tier quick --write-baseline > /tmp/regen_$p.log 2>&1; e=$?
  echo "$p exit $e $(( $(date +%s)-s ))s $(grep -c '^VIOLATION' /tmp/regen_$p.log) violations; $(grep '^RESULT' /tmp/regen_$p.log | cut -d' ' -f4-7)"
  [ $e -ne 0 ] && rc=1
done
python3-vt - <<'PY'
import json, jsonschema, glob
sch = json.load(open('/root/.vp/EVIDENCE.schema.json'))
for f in sorted(glob.glob('evidence/*.json')):
    d = json.load(open(f))
    jsonschema.validate(d, sch)
    c = d['coverage']
    flag = '' if (d['violations'] == 0 and c['discharged'] + c.get('known_finding_obligations', 0) >= c['obligations']) else '  <-- CHECK'
    print(f, d['level'], c['obligations'], c['discharged'], d['violations'], c.get('verified_tree'), flag)
PY
exit $rc
