"""Stage A support: build small programs with the real DSL of /repo and state
their meaning for the bpfvc proofs (bounded in program shape, complete in the
inputs of each program)."""
import struct

import z3

BV64 = z3.BitVecSort(64)
BV8 = z3.BitVecSort(8)
FMT_SIZE = {"B": 1, "b": 1, "H": 2, "h": 2, "I": 4, "i": 4, "Q": 8, "q": 8, "x": 8}


def sel(mem, off):
    return z3.Select(mem, off if z3.is_bv(off) else z3.BitVecVal(off, 64))


def rd_le(mem, off, n):
    """n bytes at concrete or symbolic offset, little endian -> BV(8n)"""
    base = off if z3.is_bv(off) else z3.BitVecVal(off, 64)
    bs = [z3.Select(mem, base + k) for k in range(n)]
    return z3.Concat(*reversed(bs)) if n > 1 else bs[0]


def rd_be(mem, off, n):
    base = off if z3.is_bv(off) else z3.BitVecVal(off, 64)
    bs = [z3.Select(mem, base + k) for k in range(n)]
    return z3.Concat(*bs) if n > 1 else bs[0]


def value_of(mem, off, fmt, width=64):
    """the value struct.unpack(fmt, mem[off:off+n]) gives, as a BV of `width`
    bits (sign- or zero-extended); native order is little endian here (A-LE)"""
    order = fmt[0] if fmt[0] in "<>!=@" else "<"
    code = fmt[-1]
    n = FMT_SIZE[code]
    raw = rd_be(mem, off, n) if order in ">!" else rd_le(mem, off, n)
    if width == 8 * n:
        return raw
    return z3.SignExt(width - 8 * n, raw) if code.islower() or code == "x" \
        else z3.ZeroExt(width - 8 * n, raw)


def bytes_of(value, fmt):
    """struct.pack(fmt, value mod 2**(8n)) as a list of BV8 in memory order"""
    order = fmt[0] if fmt[0] in "<>!=@" else "<"
    n = FMT_SIZE[fmt[-1]]
    v = z3.Extract(8 * n - 1, 0, value)
    bs = [z3.Extract(8 * k + 7, 8 * k, v) for k in range(n)]     # LSB first
    if order in ">!":
        bs.reverse()
    return bs


def stack_off(relative_addr):
    """offset inside bpfvc's 512-byte stack region of r10 + relative_addr"""
    return 512 + relative_addr
