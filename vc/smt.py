"""Solver layer: one query per obligation, z3 (python API) first, then the
cvc5 and z3-new command line tools on `unknown`.

Verdicts:  PROVED  (hyps /\\ not goal is unsat)
           REFUTED (sat, with a model)
           UNKNOWN (every back end gave up) -- never reported as a violation.
"""
import os
import subprocess
import tempfile
import time

import z3

PROVED, REFUTED, UNKNOWN = "proved", "refuted", "unknown"

STATS = {"queries": 0, "time_s": 0.0, "max_s": 0.0,
         "by_backend": {}, "unknown": 0}

DEFAULT_TIMEOUT_MS = int(os.environ.get("VERIF_Z3_TIMEOUT_MS", "20000"))


class Result:
    def __init__(self, verdict, backend, seconds, model=None, raw=""):
        self.verdict = verdict
        self.backend = backend
        self.seconds = seconds
        self.model = model
        self.raw = raw

    def __repr__(self):
        return f"<{self.verdict} by {self.backend} in {self.seconds:.3f}s>"


def _account(res):
    STATS["queries"] += 1
    STATS["time_s"] += res.seconds
    STATS["max_s"] = max(STATS["max_s"], res.seconds)
    STATS["by_backend"][res.backend] = STATS["by_backend"].get(res.backend, 0) + 1
    if res.verdict == UNKNOWN:
        STATS["unknown"] += 1
    return res


def _cli(cmd, smt2, timeout_s):
    with tempfile.NamedTemporaryFile("w", suffix=".smt2", delete=False) as f:
        f.write(smt2)
        name = f.name
    try:
        out = subprocess.run(cmd + [name], capture_output=True, text=True,
                             timeout=timeout_s + 5)
        text = (out.stdout + out.stderr).strip()
    except subprocess.TimeoutExpired:
        text = "timeout"
    finally:
        os.unlink(name)
    first = text.split("\n", 1)[0].strip() if text else ""
    return first, text


def check_sat(formulas, timeout_ms=None, want_model=True, use_fallback=True):
    """is the conjunction of `formulas` satisfiable?
    returns Result with verdict REFUTED (=sat, model), PROVED (=unsat) or UNKNOWN"""
    timeout_ms = timeout_ms or DEFAULT_TIMEOUT_MS
    t0 = time.time()
    s = z3.Solver()
    s.set("timeout", timeout_ms)
    for f in formulas:
        s.add(f)
    r = s.check()
    dt = time.time() - t0
    if r == z3.unsat:
        return _account(Result(PROVED, "z3-5.1(api)", dt))
    if r == z3.sat:
        return _account(Result(REFUTED, "z3-5.1(api)", dt,
                               s.model() if want_model else None))
    if not use_fallback:
        return _account(Result(UNKNOWN, "z3-5.1(api)", dt, raw=s.reason_unknown()))
    # fall back to the command line solvers on the exported query
    smt2 = "(set-logic ALL)\n" + s.to_smt2()
    for backend, cmd in (
            ("cvc5-1.0(cli)", ["/usr/bin/cvc5", "--strings-exp",
                               f"--tlimit={2 * timeout_ms}"]),
            ("z3-4.8(cli)", ["/usr/bin/z3", f"-T:{2 * timeout_ms // 1000 + 1}"])):
        t1 = time.time()
        first, text = _cli(cmd, smt2, 2 * timeout_ms / 1000)
        dt1 = time.time() - t1
        if first == "unsat":
            return _account(Result(PROVED, backend, dt + dt1, raw=text))
        if first == "sat":
            # no model from the cli tools: the caller sees REFUTED without a
            # model and reports `no-failing-input-found`
            return _account(Result(REFUTED, backend, dt + dt1, None, raw=text))
    return _account(Result(UNKNOWN, "z3+cvc5", time.time() - t0,
                           raw=s.reason_unknown()))


def prove(hyps, goal, timeout_ms=None):
    """hyps ==> goal, for all values of the free symbols"""
    return check_sat(list(hyps) + [z3.Not(goal)], timeout_ms)


def feasible(hyps, timeout_ms=2000):
    """cheap path-feasibility test; `unknown` counts as feasible"""
    s = z3.Solver()
    s.set("timeout", timeout_ms)
    for f in hyps:
        s.add(f)
    return s.check() != z3.unsat


def smoke():
    x = z3.Int("x")
    assert prove([x > 2], x > 1).verdict == PROVED
    r = prove([x > 1], x > 2)
    assert r.verdict == REFUTED and r.model[x].as_long() == 2
    b = z3.BitVec("b", 64)
    assert prove([], z3.LShR(b, 63) <= 1).verdict == PROVED
    s = z3.Const("s", z3.SeqSort(z3.BitVecSort(8)))
    assert prove([z3.Length(s) == 2], z3.Length(z3.Concat(s, s)) == 4).verdict == PROVED
    first, _ = _cli(["/usr/bin/cvc5"], "(set-logic ALL)(declare-const x Int)(assert (> x 1))(assert (< x 1))(check-sat)", 5)
    assert first == "unsat", first
    return True
