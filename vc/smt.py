"""Solver layer: one query per obligation, z3 (python API) first, then the
cvc5 and z3-new command line tools on `unknown`.

Verdicts:  PROVED  (hyps /\\ not goal is unsat)
           REFUTED (sat, with a model)
           UNKNOWN (every back end gave up) -- never reported as a violation.
"""
import os
import subprocess
import tempfile
import time

import z3

PROVED, REFUTED, UNKNOWN = "proved", "refuted", "unknown"

STATS = {"queries": 0, "time_s": 0.0, "max_s": 0.0,
         "by_backend": {}, "unknown": 0}

DEFAULT_TIMEOUT_MS = int(os.environ.get("VERIF_Z3_TIMEOUT_MS", "20000"))


class Result:
    def __init__(self, verdict, backend, seconds, model=None, raw=""):
        self.verdict = verdict
        self.backend = backend
        self.seconds = seconds
        self.model = model
        self.raw = raw

    def __repr__(self):
        return f"<{self.verdict} by {self.backend} in {self.seconds:.3f}s>"


def _account(res):
    STATS["queries"] += 1
    STATS["time_s"] += res.seconds
    STATS["max_s"] = max(STATS["max_s"], res.seconds)
    STATS["by_backend"][res.backend] = STATS["by_backend"].get(res.backend, 0) + 1
    if res.verdict == UNKNOWN:
        STATS["unknown"] += 1
    return res


def _cli(cmd, smt2, timeout_s):
    with tempfile.NamedTemporaryFile("w", suffix=".smt2", delete=False) as f:
        f.write(smt2)
        name = f.name
    try:
        out = subprocess.run(cmd + [name], capture_output=True, text=True,
                             timeout=timeout_s + 5)
        text = (out.stdout + out.stderr).strip()
    except subprocess.TimeoutExpired:
        text = "timeout"
    finally:
        os.unlink(name)
    first = text.split("\n", 1)[0].strip() if text else ""
    return first, text


def check_sat(formulas, timeout_ms=None, want_model=True, use_fallback=True):
    """is the conjunction of `formulas` satisfiable?
    returns Result with verdict REFUTED (=sat, model), PROVED (=unsat) or UNKNOWN"""
    timeout_ms = timeout_ms or DEFAULT_TIMEOUT_MS
    t0 = time.time()
    s = z3.Solver()
    s.set("timeout", timeout_ms)
    for f in formulas:
        s.add(f)
    r = s.check()
    dt = time.time() - t0
    if r == z3.unsat:
        return _account(Result(PROVED, "z3-5.1(api)", dt))
    if r == z3.sat:
        return _account(Result(REFUTED, "z3-5.1(api)", dt,
                               s.model() if want_model else None))
    if not use_fallback:
        return _account(Result(UNKNOWN, "z3-5.1(api)", dt, raw=s.reason_unknown()))
    # fall back to the command line solvers on the exported query
    smt2 = "(set-logic ALL)\n" + s.to_smt2()
    for backend, cmd in (
            ("cvc5-1.0(cli)", ["/usr/bin/cvc5", "--strings-exp",
                               f"--tlimit={2 * timeout_ms}"]),
            ("z3-4.8(cli)", ["/usr/bin/z3", f"-T:{2 * timeout_ms // 1000 + 1}"])):
        t1 = time.time()
        first, text = _cli(cmd, smt2, 2 * timeout_ms / 1000)
        dt1 = time.time() - t1
        if first == "unsat":
            return _account(Result(PROVED, backend, dt + dt1, raw=text))
        if first == "sat":
            # no model from the cli tools: the caller sees REFUTED without a
            # model and reports `no-failing-input-found`
            return _account(Result(REFUTED, backend, dt + dt1, None, raw=text))
    return _account(Result(UNKNOWN, "z3+cvc5", time.time() - t0,
                           raw=s.reason_unknown()))


def prove(hyps, goal, timeout_ms=None):
    """hyps ==> goal, for all values of the free symbols"""
    return check_sat(list(hyps) + [z3.Not(goal)], timeout_ms)


def feasible(hyps, timeout_ms=1000):
    """cheap path-feasibility test; `unknown` counts as feasible.
    Quantified hypotheses are dropped (over-approximation: more paths are
    explored, never fewer)."""
    s = z3.Solver()
    s.set("timeout", timeout_ms)
    quant = False
    for f in hyps:
        if not _has_quant(f):
            s.add(f)
        else:
            quant = True
    if s.check() == z3.unsat:
        return False
    if quant and GROUND_FEASIBILITY[0]:
        # second try with the universal hypotheses instantiated at the ground
        # index terms (instances are consequences: unsat is still a proof of
        # infeasibility, anything else counts as feasible)
        try:
            fs = ground_formulas(list(hyps), rounds=2, cap=12)
        except z3.Z3Exception:
            return True
        s2 = z3.Solver()
        s2.set("timeout", timeout_ms)
        for f in fs:
            s2.add(f)
        return s2.check() != z3.unsat
    return True


GROUND_FEASIBILITY = [False]


def smoke():
    x = z3.Int("x")
    assert prove([x > 2], x > 1).verdict == PROVED
    r = prove([x > 1], x > 2)
    assert r.verdict == REFUTED and r.model[x].as_long() == 2
    b = z3.BitVec("b", 64)
    assert prove([], z3.LShR(b, 63) <= 1).verdict == PROVED
    s = z3.Const("s", z3.SeqSort(z3.BitVecSort(8)))
    assert prove([z3.Length(s) == 2], z3.Length(z3.Concat(s, s)) == 4).verdict == PROVED
    first, _ = _cli(["/usr/bin/cvc5"], "(set-logic ALL)(declare-const x Int)(assert (> x 1))(assert (< x 1))(check-sat)", 5)
    assert first == "unsat", first
    return True


# ----------------------------------------------------------------------
# Ground instantiation of universally quantified hypotheses.
#
# Hypotheses coming from spec clauses are of the form  forall j. guard -> body
# (range quantifiers, byte-string equalities).  z3's own instantiation (MBQI,
# e-matching) is unstable on them when mixed with lambda arrays and div/mod
# arithmetic.  Here the negated goal is skolemised, and every universal
# hypothesis is replaced by its instances at the ground index terms that occur
# in array selects.  Instances are consequences of the hypotheses, so `unsat`
# of the ground formula is a proof; `sat` is only a *candidate* counter-model.

def _ground_selects(fs, table):
    """array-term id -> {index term id: index term} for every ground select"""
    seen = set()

    def visit(t):
        if not z3.is_app(t) and not z3.is_quantifier(t):
            return
        key = t.get_id()
        if key in seen:
            return
        seen.add(key)
        if z3.is_quantifier(t):
            visit(t.body())
            return
        if z3.is_select(t) and z3.is_int(t.arg(1)) and _ground(t.arg(1)) \
                and _ground(t.arg(0)):
            i = z3.simplify(t.arg(1))
            table.setdefault(t.arg(0).get_id(), {})[i.get_id()] = i
        for c in t.children():
            visit(c)
    for f in fs:
        visit(f)


_GROUND = {}


def _ground(t):
    k = t.get_id()
    r = _GROUND.get(k)
    if r is None:
        if z3.is_var(t) or z3.is_quantifier(t):
            v = False
        else:
            v = all(_ground(c) for c in t.children())
        r = _GROUND[k] = (t, v)    # keeping t alive keeps its id unique
    return r[1]


def _patterns(body, nvars):
    """selects A[j + c] in a quantifier body with A ground, j a bound
    variable (de Bruijn index) and c ground: [(array, var index, offset c)].
    Nested quantifier bodies are searched too (indices shifted)."""
    out, seen = [], set()

    def visit(t, shift):
        if z3.is_quantifier(t):
            visit(t.body(), shift + t.num_vars())
            return
        if not z3.is_app(t):
            return
        key = (t.get_id(), shift)
        if key in seen:
            return
        seen.add(key)
        if z3.is_select(t) and z3.is_int(t.arg(1)) and _ground(t.arg(0)) \
                and not _ground(t.arg(1)):
            idx = t.arg(1)
            for v in range(nvars):
                var = z3.Var(v + shift, z3.IntSort())
                off = z3.simplify(idx - var)
                if _ground(off):
                    out.append((t.arg(0), v, off, 1))
                    break
                # A[k*j + c]: the instance j := (i - c) div k (any instance
                # of a universal hypothesis is sound)
                hit = False
                for k in (2, 4, 8, 3, 6, 10, 12, 16, 32):
                    off = z3.simplify(idx - k * var)
                    if _ground(off):
                        out.append((t.arg(0), v, off, k))
                        hit = True
                        break
                if hit:
                    break
        for c in t.children():
            visit(c, shift)
    visit(body, 0)
    return out


def _size_key(t):
    x = t.sexpr()
    return (len(x), x)


def _candidates(f, table, extra, cap):
    """for a forall: per variable the terms to instantiate it with"""
    n = f.num_vars()
    cands = [dict() for _ in range(n)]
    for arr, v, off, k in _patterns(f.body(), n):
        for i in table.get(arr.get_id(), {}).values():
            t = z3.simplify(i - off) if k == 1 else z3.simplify((i - off) / k)
            cands[v][t.get_id()] = t
    for v in range(n):
        if not cands[v]:
            for t in extra:
                cands[v][t.get_id()] = t
    return [sorted(c.values(), key=_size_key)[:cap]
            for c in cands]


def _instantiate(f, table, extra, done, out, cap):
    """append to `out` the instances of the universal (sub)formulas of f
    that are not yet in `done`; returns the ground skeleton of f"""
    if z3.is_quantifier(f):
        if not f.is_forall():
            return f
        n = f.num_vars()
        if any(f.var_sort(i) != z3.IntSort() for i in range(n)):
            return z3.BoolVal(True)
        import itertools
        cands = _candidates(f, table, extra, cap if n == 1 else max(4, cap // 3))
        insts = []
        # de Bruijn index 0 is the innermost (last) variable
        for combo in itertools.product(*cands):
            key = (f.get_id(),) + tuple(t.get_id() for t in combo)
            inst = z3.substitute_vars(f.body(), *combo)
            insts.append(_instantiate(inst, table, extra, done, out, cap))
        return z3.And(*insts) if insts else z3.BoolVal(True)
    if z3.is_and(f):
        return z3.And(*[_instantiate(c, table, extra, done, out, cap)
                        for c in f.children()])
    if z3.is_or(f):
        return z3.Or(*[_instantiate(c, table, extra, done, out, cap)
                       for c in f.children()])
    if _has_quant(f):
        # quantifier in a position we do not instantiate: weaken to true
        # (sound for hypotheses in negation normal form)
        return z3.BoolVal(True)
    return f


_HASQ = {}


def _has_quant(t):
    k = t.get_id()
    r = _HASQ.get(k)
    if r is None:
        if z3.is_quantifier(t):
            v = not t.is_lambda() or _has_quant(t.body())
        else:
            v = any(_has_quant(c) for c in t.children())
        r = _HASQ[k] = (t, v)      # keeping t alive keeps its id unique
    return r[1]


_SK = [0]


def _nnf(f, pos, under_forall):
    """negation normal form with skolemisation of existentials that are not
    under a universal; sub-formulas that cannot be handled are weakened to
    true (all formulas are hypotheses of an unsat check: sound)"""
    if not _has_quant(f):
        return f if pos else z3.Not(f)
    if z3.is_not(f):
        return _nnf(f.arg(0), not pos, under_forall)
    if z3.is_and(f) or z3.is_or(f):
        kids = [_nnf(c, pos, under_forall) for c in f.children()]
        conj = z3.is_and(f) == pos
        return z3.And(*kids) if conj else z3.Or(*kids)
    if z3.is_implies(f):
        a = _nnf(f.arg(0), not pos, under_forall)
        b = _nnf(f.arg(1), pos, under_forall)
        return z3.Or(a, b) if pos else z3.And(a, b)
    if z3.is_quantifier(f) and not f.is_lambda():
        universal = f.is_forall() == pos
        n = f.num_vars()
        if universal:
            body = _nnf(f.body(), pos, True)
            vs = [z3.Const(f.var_name(i) + "!q", f.var_sort(i)) for i in range(n)]
            # rebuild a forall over fresh constants (keeps de Bruijn handling
            # inside z3)
            inst = z3.substitute_vars(body, *reversed(vs))
            return z3.ForAll(vs, inst)
        if under_forall:
            return z3.BoolVal(True)
        _SK[0] += 1
        sk = [z3.Const(f"{f.var_name(i)}!sk{_SK[0]}", f.var_sort(i))
              for i in range(n)]
        return _nnf(z3.substitute_vars(f.body(), *reversed(sk)), pos, False)
    if z3.is_app_of(f, z3.Z3_OP_ITE) and z3.is_bool(f):
        c, a, b = f.children()
        if not _has_quant(c):
            return z3.And(z3.Or(z3.Not(c), _nnf(a, pos, under_forall)),
                          z3.Or(c, _nnf(b, pos, under_forall)))
    if (z3.is_eq(f) or z3.is_app_of(f, z3.Z3_OP_IFF)) and z3.is_bool(f.arg(0)):
        a, b = f.children()
        both = z3.And(z3.Implies(a, b), z3.Implies(b, a))
        return _nnf(both, pos, under_forall)
    return z3.BoolVal(True)


def ground_formulas(formulas, rounds=3, cap=40):
    # ast ids are recycled once terms are garbage collected: the id-keyed
    # caches are only valid while `formulas` keeps the terms alive
    _GROUND.clear()
    _HASQ.clear()
    _SK[0] = 0
    base = []
    for f in formulas:
        f = z3.simplify(f)          # beta-reduces selects of lambda arrays
        if _has_quant(f):
            f = _nnf(f, True, False)
        if z3.is_and(f):
            base.extend(f.children())
        else:
            base.append(f)
    ground = [f for f in base if not _has_quant(f)]
    quant = [f for f in base if _has_quant(f)]
    insts = []
    extra = []
    for r in range(rounds):
        table = {}
        _ground_selects(ground + insts, table)
        insts = [z3.simplify(_instantiate(q, table, extra, None, None, cap))
                 for q in quant]
    return ground + insts


def prove_ground(hyps, goal, timeout_ms=None):
    """try the ground-instantiated query first; returns Result.  A `sat`
    answer here is a candidate only (Result.candidate = True)."""
    timeout_ms = timeout_ms or DEFAULT_TIMEOUT_MS
    t0 = time.time()
    try:
        fs = ground_formulas(list(hyps) + [z3.Not(goal)])
    except z3.Z3Exception as e:
        return None
    s = z3.Solver()
    s.set("timeout", timeout_ms)
    for f in fs:
        s.add(f)
    r = s.check()
    dt = time.time() - t0
    if r == z3.unsat:
        return _account(Result(PROVED, "z3-5.1(api,ground-inst)", dt))
    if r == z3.sat:
        res = Result(REFUTED, "z3-5.1(api,ground-inst)", dt, s.model())
        res.candidate = True
        return res
    return None


_plain_prove = prove


def prove(hyps, goal, timeout_ms=None, quick_refute=False):
    hyps = list(hyps)
    if z3.is_true(z3.simplify(goal)):
        return _account(Result(PROVED, "trivial", 0.0))
    _GROUND.clear()
    _HASQ.clear()
    if not any(_has_quant(h) for h in hyps) and not _has_quant(goal):
        return _plain_prove(hyps, goal, timeout_ms)
    g = prove_ground(hyps, goal, timeout_ms)
    if g is not None and g.verdict == PROVED:
        return g
    if quick_refute and g is not None and g.verdict == REFUTED:
        return _account(g)
    full = _plain_prove(hyps, goal, timeout_ms)
    if full.verdict == UNKNOWN and g is not None and g.verdict == REFUTED:
        _account(g)
        return g       # candidate counter-model; must be confirmed by replay
    return full
