"""Expression trees for the Stage-A checks of the DSL (C01-C04): one tree,
three readings -- the real DSL objects (built on a program instance), the
specification as z3 terms, and the specification on Python integers."""
import z3

from . import stagea as A

SIZE = A.FMT_SIZE
REGS = {"r": (8, False), "sr": (8, True), "w": (4, False), "sw": (4, True),
        "x": (8, True)}
FIXED = 100000


class E:
    pass


class Reg(E):
    def __init__(self, kind, no):
        self.kind, self.no = kind, no
        self.size, self.signed = REGS[kind]
        self.fixed = kind == "x"

    def label(self):
        return f"{self.kind}{self.no}"

    def cls(self):
        return self.kind

    def dsl(self, p):
        return getattr(p, self.kind)[self.no]

    def atoms(self):
        return [self]


class Loc(E):
    """a LocalVar of the program (name v_<fmt>[_n])"""

    def __init__(self, fmt, name=None):
        self.fmt = fmt
        self.name = name or "v_" + fmt
        self.size = SIZE[fmt]
        self.signed = fmt.islower()
        self.fixed = fmt == "x"

    def label(self):
        return self.name

    def cls(self):
        return "mem:" + self.fmt

    def dsl(self, p):
        return getattr(p, self.name)

    def atoms(self):
        return [self]


class Const(E):
    def __init__(self, value):
        self.value = value
        self.size = 8
        self.signed = value < 0
        self.fixed = isinstance(value, float)

    def label(self):
        return repr(self.value)

    def cls(self):
        return "const"

    def dsl(self, p):
        return self.value

    def atoms(self):
        return []


class Bin(E):
    def __init__(self, op, l, r):
        self.op, self.l, self.r = op, l, r
        self.signed = l.signed or r.signed
        self.size = 8
        self.fixed = False

    def label(self):
        return f"({self.l.label()} {self.op} {self.r.label()})"

    def dsl(self, p):
        a, b = self.l.dsl(p), self.r.dsl(p)
        import operator as o
        f = {"+": o.add, "-": o.sub, "*": o.mul, "//": o.floordiv, "%": o.mod,
             "&": o.and_, "|": o.or_, "^": o.xor, "<<": o.lshift,
             ">>": o.rshift, "/": o.truediv}[self.op]
        return f(a, b)

    def atoms(self):
        return self.l.atoms() + self.r.atoms()


class Un(E):
    def __init__(self, op, x):
        self.op, self.x = op, x
        self.signed = True if op == "neg" else False
        self.size = 8
        self.fixed = x.fixed

    def label(self):
        return f"{'-' if self.op == 'neg' else 'abs'}({self.x.label()})"

    def dsl(self, p):
        return -self.x.dsl(p) if self.op == "neg" else abs(self.x.dsl(p))

    def atoms(self):
        return self.x.atoms()


def min_size(e):
    """narrowest operand size of the tree (constants do not count)"""
    if isinstance(e, Const):
        return 8
    if isinstance(e, (Reg, Loc)):
        return e.size
    if isinstance(e, Un):
        return min_size(e.x)
    return min(min_size(e.l), min_size(e.r))


# ------------------------------------------------------------------ z3 spec

class SymState:
    """symbolic initial state: registers and the stack"""

    def __init__(self, layout):
        self.regs = {n: z3.BitVec(f"r{n}_0", 64) for n in range(2, 6)}
        self.stack = z3.Array("stack_init", z3.BitVecSort(64), z3.BitVecSort(8))
        self.layout = layout          # local name -> relative address

    def atom(self, a, width):
        """the value the operand's own size and signedness define, as a
        signed BV of `width` bits"""
        if isinstance(a, Const):
            return z3.BitVecVal(int(a.value), width)
        if isinstance(a, Reg):
            raw = z3.Extract(8 * a.size - 1, 0, self.regs[a.no])
        else:
            raw = A.rd_le(self.stack, A.stack_off(self.layout[a.name]), a.size)
        n = 8 * a.size
        if width == n:
            return raw
        if width < n:
            return z3.Extract(width - 1, 0, raw)
        return z3.SignExt(width - n, raw) if a.signed else z3.ZeroExt(width - n, raw)


def ring(e, st, width=64):
    """value modulo 2**width of a tree of ring operations"""
    if isinstance(e, (Reg, Loc, Const)):
        return st.atom(e, width)
    if isinstance(e, Un):
        assert e.op == "neg"
        return -ring(e.x, st, width)
    a, b = ring(e.l, st, width), ring(e.r, st, width)
    return {"+": lambda: a + b, "-": lambda: a - b, "*": lambda: a * b,
            "&": lambda: a & b, "|": lambda: a | b, "^": lambda: a ^ b,
            "<<": lambda: a << b}[e.op]()


MW = 80      # width of "mathematical" values of sums/differences of atoms
SW = 100     # width of values scaled to the fixed-point representation


def math(e, st):
    """exact value (no wrap) of a tree of + - neg over atoms, MW bits"""
    if isinstance(e, (Reg, Loc, Const)):
        return st.atom(e, MW)
    if isinstance(e, Un) and e.op == "neg":
        return -math(e.x, st)
    if isinstance(e, Bin) and e.op in "+-":
        a, b = math(e.l, st), math(e.r, st)
        return a + b if e.op == "+" else a - b
    raise ValueError(e.label())


def scaled(e, st):
    """exact value times 100000 (the fixed-point representation), SW bits"""
    if isinstance(e, Const):
        v = round(e.value * FIXED) if isinstance(e.value, float) else e.value * FIXED
        return z3.BitVecVal(v, SW)
    if isinstance(e, (Reg, Loc)):
        v = z3.SignExt(SW - MW, st.atom(e, MW))
        return v if e.fixed else v * FIXED
    raise ValueError(e.label())


def pyscaled(e, regs, stack, layout):
    if isinstance(e, Const):
        return round(e.value * FIXED) if isinstance(e.value, float) else e.value * FIXED
    v = pyatom(e, regs, stack, layout)
    return v if e.fixed else v * FIXED


def fits(v, bits, signed):
    if signed:
        return z3.And(v >= -(1 << (bits - 1)), v < (1 << (bits - 1)))
    return z3.And(v >= 0, v < (1 << bits))


# ------------------------------------------------------------ python oracle

def pyatom(a, regs, stack, layout):
    if isinstance(a, Const):
        return int(a.value)
    if isinstance(a, Reg):
        raw = regs[a.no] & ((1 << 8 * a.size) - 1)
    else:
        o = A.stack_off(layout[a.name])
        raw = int.from_bytes(stack[o:o + a.size], "little")
    if a.signed and raw >= 1 << (8 * a.size - 1):
        raw -= 1 << 8 * a.size
    return raw


def pyval(e, regs, stack, layout, floor=True):
    if isinstance(e, (Reg, Loc, Const)):
        return pyatom(e, regs, stack, layout)
    if isinstance(e, Un):
        v = pyval(e.x, regs, stack, layout, floor)
        return -v if e.op == "neg" else abs(v)
    a, b = pyval(e.l, regs, stack, layout, floor), pyval(e.r, regs, stack, layout, floor)
    if e.op == "//":
        return a // b if floor else int(a / b) if abs(a) < 2**52 and abs(b) < 2**52 else (abs(a) // abs(b)) * (1 if (a < 0) == (b < 0) else -1)
    if e.op == "%":
        q = pyval(Bin("//", e.l, e.r), regs, stack, layout, floor)
        return a - q * b
    return {"+": a + b, "-": a - b, "*": a * b, "&": a & b, "|": a | b,
            "^": a ^ b, "<<": a << b if 0 <= b < 256 else 0,
            ">>": a >> b if 0 <= b < 256 else 0}[e.op]


# ------------------------------------------------------------- conditions

class Cmp:
    OPS = {"<": lambda a, b: a < b, "<=": lambda a, b: a <= b, ">": lambda a, b: a > b,
           ">=": lambda a, b: a >= b, "==": lambda a, b: a == b, "!=": lambda a, b: a != b}

    def __init__(self, op, l, r):
        self.op, self.l, self.r = op, l, r

    def label(self):
        return f"{self.l.label()} {self.op} {self.r.label()}"

    def dsl(self, p):
        return self.OPS[self.op](self.l.dsl(p), self.r.dsl(p))

    def atoms(self):
        return self.l.atoms() + self.r.atoms()

    def mixed_fixed(self):
        return bool(getattr(self.l, "fixed", False) or getattr(self.r, "fixed", False))

    def spec(self, st):
        """(truth, FITS): both compared values fit the narrowest width
        involved (signed range if either side is signed).  If one side is
        fixed-point the comparison is on the exact decimal values, i.e. on the
        values scaled by 100000, which must fit the narrowest width too"""
        if self.mixed_fixed():
            a, b = scaled(self.l, st), scaled(self.r, st)
            sg = self.l.signed or self.r.signed
            W = 32 if min(min_size(self.l), min_size(self.r)) <= 4 else 64
            return self.OPS[self.op](a, b), z3.And(fits(a, W, sg), fits(b, W, sg))
        a, b = math(self.l, st), math(self.r, st)
        W = 32 if min(min_size(self.l), min_size(self.r)) <= 4 else 64
        sg = self.l.signed or self.r.signed
        return self.OPS[self.op](a, b), z3.And(fits(a, W, sg), fits(b, W, sg))

    def py(self, regs, stack, layout):
        if self.mixed_fixed():
            return self.OPS[self.op](pyscaled(self.l, regs, stack, layout),
                                     pyscaled(self.r, regs, stack, layout))
        return self.OPS[self.op](pyval(self.l, regs, stack, layout), pyval(self.r, regs, stack, layout))


class Truth:
    """an expression used as a condition (true iff non-zero); `e & mask`
    compiles to the special test instruction"""

    def __init__(self, e):
        self.e = e

    def label(self):
        return self.e.label()

    def dsl(self, p):
        return self.e.dsl(p)

    def atoms(self):
        return self.e.atoms()

    def spec(self, st):
        v = ring(self.e, st, 64)
        W = 32 if min_size(self.e) <= 4 else 64
        cond = z3.BoolVal(True)
        for a in self.e.atoms():
            cond = z3.And(cond, fits(st.atom(a, MW), W, a.signed))
        return v != 0, cond

    def py(self, regs, stack, layout):
        return pyval(self.e, regs, stack, layout) != 0


class Bits:
    """a bit field LocalVar((pos, nbits)); `negated` is ~field (single bit)"""

    def __init__(self, pos, nbits, name, negated=False, equals=None):
        self.pos, self.nbits, self.name = pos, nbits, name
        self.negated, self.equals = negated, equals
        self.fmt = (pos, nbits)

    def label(self):
        s = f"{self.name}[{self.pos}:{self.nbits}]"
        if self.equals is not None:
            return f"{s} == {self.equals}"
        return ("~" if self.negated else "") + s

    def dsl(self, p):
        f = getattr(p, self.name)
        if self.equals is not None:
            return f == self.equals
        return ~f if self.negated else f

    def atoms(self):
        return [self]

    def field(self, st):
        byte = A.sel(st.stack, A.stack_off(st.layout[self.name]))
        return z3.Extract(self.pos + self.nbits - 1, self.pos, byte)

    def spec(self, st):
        f = self.field(st)
        if self.equals is not None:
            return f == self.equals, z3.BoolVal(True)
        t = f != 0
        return (z3.Not(t) if self.negated else t), z3.BoolVal(True)

    def py(self, regs, stack, layout):
        byte = stack[A.stack_off(layout[self.name])]
        f = (byte >> self.pos) & ((1 << self.nbits) - 1)
        if self.equals is not None:
            return f == self.equals
        return (f == 0) if self.negated else (f != 0)


def as_condition(x):
    from ebpfcat.ebpf import Expression
    return (x != 0) if isinstance(x, Expression) else x


class Not:
    def __init__(self, c):
        self.c = c

    def label(self):
        return f"~({self.c.label()})"

    def dsl(self, p):
        return ~as_condition(self.c.dsl(p))

    def atoms(self):
        return self.c.atoms()

    def spec(self, st):
        t, f = self.c.spec(st)
        return z3.Not(t), f

    def py(self, *a):
        return not self.c.py(*a)


class Junction:
    def __init__(self, is_and, l, r):
        self.is_and, self.l, self.r = is_and, l, r

    def label(self):
        return f"({self.l.label()}) {'&' if self.is_and else '|'} ({self.r.label()})"

    def dsl(self, p):
        # `&` and `|` of plain expressions are bitwise operators of the DSL;
        # conditions are combined as comparisons
        a, b = as_condition(self.l.dsl(p)), as_condition(self.r.dsl(p))
        return a & b if self.is_and else a | b

    def atoms(self):
        return self.l.atoms() + self.r.atoms()

    def spec(self, st):
        (ta, fa), (tb, fb) = self.l.spec(st), self.r.spec(st)
        return (z3.And(ta, tb) if self.is_and else z3.Or(ta, tb)), z3.And(fa, fb)

    def py(self, *a):
        x, y = self.l.py(*a), self.r.py(*a)
        return (x and y) if self.is_and else (x or y)
