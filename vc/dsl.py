"""Expression trees for the Stage-A checks of the DSL (C01-C04): one tree,
three readings -- the real DSL objects (built on a program instance), the
specification as z3 terms, and the specification on Python integers."""
import z3

from . import stagea as A

SIZE = A.FMT_SIZE
REGS = {"r": (8, False), "sr": (8, True), "w": (4, False), "sw": (4, True),
        "x": (8, True)}
FIXED = 100000


class E:
    pass


class Reg(E):
    def __init__(self, kind, no):
        self.kind, self.no = kind, no
        self.size, self.signed = REGS[kind]
        self.fixed = kind == "x"

    def label(self):
        return f"{self.kind}{self.no}"

    def cls(self):
        return self.kind

    def dsl(self, p):
        return getattr(p, self.kind)[self.no]

    def atoms(self):
        return [self]


class Loc(E):
    """a LocalVar of the program (name v_<fmt>[_n])"""

    def __init__(self, fmt, name=None):
        self.fmt = fmt
        self.name = name or "v_" + fmt
        self.size = SIZE[fmt]
        self.signed = fmt.islower()
        self.fixed = fmt == "x"

    def label(self):
        return self.name

    def cls(self):
        return "mem:" + self.fmt

    def dsl(self, p):
        return getattr(p, self.name)

    def atoms(self):
        return [self]


class Const(E):
    def __init__(self, value):
        self.value = value
        self.size = 8
        self.signed = value < 0
        self.fixed = isinstance(value, float)

    def label(self):
        return repr(self.value)

    def cls(self):
        return "const"

    def dsl(self, p):
        return self.value

    def atoms(self):
        return []


class Bin(E):
    def __init__(self, op, l, r):
        self.op, self.l, self.r = op, l, r
        self.signed = l.signed or r.signed
        self.size = 8
        self.fixed = False

    def label(self):
        return f"({self.l.label()} {self.op} {self.r.label()})"

    def dsl(self, p):
        a, b = self.l.dsl(p), self.r.dsl(p)
        import operator as o
        f = {"+": o.add, "-": o.sub, "*": o.mul, "//": o.floordiv, "%": o.mod,
             "&": o.and_, "|": o.or_, "^": o.xor, "<<": o.lshift,
             ">>": o.rshift, "/": o.truediv}[self.op]
        return f(a, b)

    def atoms(self):
        return self.l.atoms() + self.r.atoms()


class Un(E):
    def __init__(self, op, x):
        self.op, self.x = op, x
        self.signed = True if op == "neg" else False
        self.size = 8
        self.fixed = x.fixed

    def label(self):
        return f"{'-' if self.op == 'neg' else 'abs'}({self.x.label()})"

    def dsl(self, p):
        return -self.x.dsl(p) if self.op == "neg" else abs(self.x.dsl(p))

    def atoms(self):
        return self.x.atoms()


def min_size(e):
    """narrowest operand size of the tree (constants do not count)"""
    if isinstance(e, Const):
        return 8
    if isinstance(e, (Reg, Loc)):
        return e.size
    if isinstance(e, Un):
        return min_size(e.x)
    return min(min_size(e.l), min_size(e.r))


# ------------------------------------------------------------------ z3 spec

class SymState:
    """symbolic initial state: registers and the stack"""

    def __init__(self, layout):
        self.regs = {n: z3.BitVec(f"r{n}_0", 64) for n in range(2, 6)}
        self.stack = z3.Array("stack_init", z3.BitVecSort(64), z3.BitVecSort(8))
        self.layout = layout          # local name -> relative address

    def atom(self, a, width):
        """the value the operand's own size and signedness define, as a
        signed BV of `width` bits"""
        if isinstance(a, Const):
            return z3.BitVecVal(int(a.value), width)
        if isinstance(a, Reg):
            raw = z3.Extract(8 * a.size - 1, 0, self.regs[a.no])
        else:
            raw = A.rd_le(self.stack, A.stack_off(self.layout[a.name]), a.size)
        n = 8 * a.size
        if width == n:
            return raw
        if width < n:
            return z3.Extract(width - 1, 0, raw)
        return z3.SignExt(width - n, raw) if a.signed else z3.ZeroExt(width - n, raw)


def ring(e, st, width=64):
    """value modulo 2**width of a tree of ring operations"""
    if isinstance(e, (Reg, Loc, Const)):
        return st.atom(e, width)
    if isinstance(e, Un):
        assert e.op == "neg"
        return -ring(e.x, st, width)
    a, b = ring(e.l, st, width), ring(e.r, st, width)
    return {"+": lambda: a + b, "-": lambda: a - b, "*": lambda: a * b,
            "&": lambda: a & b, "|": lambda: a | b, "^": lambda: a ^ b,
            "<<": lambda: a << b}[e.op]()


MW = 80      # width of "mathematical" values of sums/differences of atoms


def math(e, st):
    """exact value (no wrap) of a tree of + - neg over atoms, MW bits"""
    if isinstance(e, (Reg, Loc, Const)):
        return st.atom(e, MW)
    if isinstance(e, Un) and e.op == "neg":
        return -math(e.x, st)
    if isinstance(e, Bin) and e.op in "+-":
        a, b = math(e.l, st), math(e.r, st)
        return a + b if e.op == "+" else a - b
    raise ValueError(e.label())


def fits(v, bits, signed):
    if signed:
        return z3.And(v >= -(1 << (bits - 1)), v < (1 << (bits - 1)))
    return z3.And(v >= 0, v < (1 << bits))


# ------------------------------------------------------------ python oracle

def pyatom(a, regs, stack, layout):
    if isinstance(a, Const):
        return int(a.value)
    if isinstance(a, Reg):
        raw = regs[a.no] & ((1 << 8 * a.size) - 1)
    else:
        o = A.stack_off(layout[a.name])
        raw = int.from_bytes(stack[o:o + a.size], "little")
    if a.signed and raw >= 1 << (8 * a.size - 1):
        raw -= 1 << 8 * a.size
    return raw


def pyval(e, regs, stack, layout, floor=True):
    if isinstance(e, (Reg, Loc, Const)):
        return pyatom(e, regs, stack, layout)
    if isinstance(e, Un):
        v = pyval(e.x, regs, stack, layout, floor)
        return -v if e.op == "neg" else abs(v)
    a, b = pyval(e.l, regs, stack, layout, floor), pyval(e.r, regs, stack, layout, floor)
    if e.op == "//":
        return a // b if floor else int(a / b) if abs(a) < 2**52 and abs(b) < 2**52 else (abs(a) // abs(b)) * (1 if (a < 0) == (b < 0) else -1)
    if e.op == "%":
        q = pyval(Bin("//", e.l, e.r), regs, stack, layout, floor)
        return a - q * b
    return {"+": a + b, "-": a - b, "*": a * b, "&": a & b, "|": a | b,
            "^": a ^ b, "<<": a << b if 0 <= b < 256 else 0,
            ">>": a >> b if 0 <= b < 256 else 0}[e.op]
