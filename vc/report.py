"""Evidence, verdict mapping, known findings, replay files.

exit codes: 0 every obligation discharged (known findings reproduced or gone)
            1 an obligation that is not a listed known finding failed
            2 undecided (solver unknown / function out of reach)
            3 the checker itself is broken (canary verified, replay contradicts
              the model, zero obligations)
"""
import hashlib
import json
import os
import sys
import time

from . import smt

ROOT = os.path.dirname(os.path.dirname(os.path.abspath(__file__)))
REPO = os.environ.get("VERIF_REPO", "/repo")


def evidence_dir():
    """evidence/ records runs on /repo only.  A run against another tree
    (VERIF_REPO=<scratch copy with a seeded change>, tools/seedcheck.sh) writes
    to $VERIF_EVIDENCE_DIR or evidence-scratch/ (not committed), so that it can
    never leave the record of a changed tree behind in evidence/."""
    d = os.environ.get("VERIF_EVIDENCE_DIR")
    if d:
        return d
    if os.path.realpath(REPO) != "/repo":
        return os.path.join(ROOT, "evidence-scratch")
    return os.path.join(ROOT, "evidence")


def load_known():
    path = os.path.join(ROOT, "known_findings.json")
    if not os.path.exists(path):
        return {"findings": [], "fixed": []}
    with open(path) as f:
        return json.load(f)


def jsonable(x):
    if isinstance(x, (bytes, bytearray, memoryview)):
        return {"hex": bytes(x).hex()}
    if isinstance(x, dict):
        return {str(k): jsonable(v) for k, v in x.items()}
    if isinstance(x, (list, tuple, set, frozenset)):
        return [jsonable(v) for v in x]
    if isinstance(x, (int, float, str, bool)) or x is None:
        return x
    return repr(x)


class Report:
    def __init__(self, pid, tier="quick", seed=0, technique=""):
        self.pid = pid
        self.tier = tier
        self.seed = seed
        self.technique = technique
        self.t0 = time.time()
        self.functions = {}       # qualname -> sha256 of the source text verified
        self.obligations = []     # dicts
        self.failed = []          # names
        self.known_seen = []
        self.unknown = []
        self.broken = []
        self.canaries = 0
        self.covers = 0
        self.assumptions = []
        self.bounded = []
        self.samples = []
        self.extra = {}
        self.violations = 0
        self.known = [k for k in load_known()["findings"] if k["property"] == pid]
        d = os.path.join(ROOT, "replays", pid)
        if os.path.isdir(d):                 # replay files of earlier runs
            for f in os.listdir(d):
                if f.endswith(".json"):
                    try:
                        os.unlink(os.path.join(d, f))
                    except FileNotFoundError:   # a concurrent run of the same check
                        pass
        self._names = set()

    # ------------------------------------------------------------------
    def function(self, qualname, source_text):
        self.functions[qualname] = hashlib.sha256(
            source_text.encode()).hexdigest()[:16]

    def assume(self, text):
        if text not in self.assumptions:
            self.assumptions.append(text)

    def bound(self, text):
        if text not in self.bounded:
            self.bounded.append(text)

    def sample(self, obj):
        if len(self.samples) < 8:
            self.samples.append(jsonable(obj))

    # ------------------------------------------------------------------
    def _known_for(self, name):
        for k in self.known:
            if k["obligation"] == name:
                return k
        return None

    def discharged(self, name, res, func="", text=""):
        """record an obligation the solver proved"""
        self._record(name, res, func, text)

    def _record(self, name, res, func, text):
        assert name not in self._names, f"duplicate obligation name {name}"
        self._names.add(name)
        self.obligations.append({
            "name": name, "function": func, "verdict": res.verdict,
            "backend": res.backend, "seconds": round(res.seconds, 4)})
        if text and res.verdict == smt.PROVED:
            self.sample({"obligation": name, "function": func, "clause": text,
                         "verdict": res.verdict, "backend": res.backend})

    def obligation(self, name, res, func="", text="", replay=None,
                   candidate=False):
        """record the outcome of one obligation.

        replay: callable(model) -> dict(inputs=..., reproduced=bool|None,
                detail=str), run only if the obligation is refuted."""
        self._record(name, res, func, text)
        if res.verdict == smt.PROVED:
            return True
        if getattr(self, "quiet", False):
            # a scratch report (region of a recorded finding): only collect
            (self.unknown if res.verdict == smt.UNKNOWN else self.failed).append(name)
            return False
        if res.verdict == smt.UNKNOWN:
            self.unknown.append(name)
            print(f"UNDECIDED property={self.pid} obligation={name} "
                  f"({res.raw})")
            return False
        # refuted
        info = {"inputs": None, "reproduced": None, "detail": ""}
        if replay is not None:
            try:
                info.update(replay(res.model) or {})
            except Exception as e:   # the replay harness failed: keep going
                info["detail"] = f"replay harness error: {e!r}"
        known = self._known_for(name)
        if candidate and info["reproduced"] is not True:
            # the counter-model comes from the ground-instantiated query only
            # (the full query was `unknown`): without a replay it is no verdict
            if self.baseline_proved(name) and known is None:
                info["detail"] += " [obligation was discharged on the unchanged " \
                                  "tree; now undischarged, no replayable model]"
            else:
                self.unknown.append(name)
                print(f"UNDECIDED property={self.pid} obligation={name} "
                      f"(candidate counter-model did not replay: {info['detail']})")
                return False
        elif info["reproduced"] is False:
            # the real code satisfies the clause on the model's input:
            # the encoding is wrong, never a verdict about the code
            self.broken.append(f"{name}: counterexample does not replay "
                               f"({info['detail']})")
            print(f"CHECKER-BROKEN property={self.pid} obligation={name}: "
                  f"model does not replay on the real code: {info['detail']}")
            return False
        if known is not None:
            self.known_seen.append(name)
            print(f"KNOWN-FINDING: property={self.pid} {known['what']}")
            return False
        self.failed.append(name)
        self.violations += 1
        d = os.path.join(ROOT, "replays", self.pid)
        os.makedirs(d, exist_ok=True)
        import hashlib as _h
        safe = "".join(c if c.isalnum() or c in "-_." else "_" for c in name)[:120] + \
            "_" + _h.sha1(name.encode()).hexdigest()[:6]
        path = os.path.join(d, safe + ".json")
        with open(path, "w") as f:
            json.dump({
                "property": self.pid, "obligation": name, "function": func,
                "clause": text, "solver": res.backend,
                "solver_output": res.raw or (str(res.model) if res.model is not None else ""),
                "inputs": jsonable(info["inputs"]),
                "reproduced_on_real_code": info["reproduced"],
                "detail": info["detail"],
                "rerun": f"./check {self.pid} --replay {path}"}, f, indent=1)
        tail = "" if info["reproduced"] else " no-failing-input-found"
        print(f"VIOLATION property={self.pid} replay={path}{tail}")
        return False

    def baseline_proved(self, name):
        path = os.path.join(ROOT, "baseline_obligations.json")
        if not os.path.exists(path):
            return False
        with open(path) as f:
            return name in json.load(f).get(self.pid, [])

    def fold_region(self, scratch, region, witness):
        """`scratch` holds the obligations of a part of the input space where a
        genuine defect is recorded (region predicate, DESIGN 3.2).  Proved
        obligations count as discharged.  If anything in the region is not
        proved, the finding's witness must reproduce on the real code; then the
        whole region is one known finding (a failure with another obligation
        name inside the same region is the same finding)."""
        bad = []
        for o in scratch.obligations:
            if o["verdict"] == smt.PROVED:
                self._record(o["name"], smt.Result(smt.PROVED, o["backend"], o["seconds"]), o["function"], "")
            else:
                bad.append(o)
        self.canaries += scratch.canaries
        self.broken += [b for b in scratch.broken if "no path reaches a normal return" not in b]
        for k, v in scratch.functions.items():
            self.functions.setdefault(k, v)
        if not bad:
            return
        name = f"region[{region}]"
        info = witness()
        res = smt.Result(smt.REFUTED, bad[0]["backend"], sum(o["seconds"] for o in bad), None,
                         "undischarged in this region: " + "; ".join(o["name"] for o in bad)[:1500])
        self.obligation(name, res, func=bad[0]["function"],
                        text="obligations of the region: " + ", ".join(o["name"] for o in bad)[:600],
                        replay=lambda m: info)

    def canary(self, name, res):
        """a deliberately wrong clause: it must be refuted"""
        self.canaries += 1
        if res.verdict != smt.REFUTED:
            self.broken.append(f"canary {name} was not refuted ({res.verdict})")

    def cover(self, name, res):
        """a reachability query: must be satisfiable (REFUTED = sat)"""
        self.covers += 1
        if res.verdict == smt.PROVED:
            self.broken.append(f"cover {name} is unsatisfiable: vacuous")

    def out_of_reach(self, what):
        self.unknown.append(what)
        print(f"UNDECIDED property={self.pid} out-of-reach: {what}")

    # ------------------------------------------------------------------
    def finish(self, explanation, trusted_base, level="proof", checker_cmd=None):
        n = len(self.obligations)
        ndis = sum(1 for o in self.obligations if o["verdict"] == smt.PROVED)
        nknown = len(self.known_seen)
        if n == 0:
            self.broken.append("zero obligations generated")
        # known findings that no longer reproduce are simply not printed
        backends = {}
        for o in self.obligations:
            backends[o["backend"]] = backends.get(o["backend"], 0) + 1
        if self.bounded and level == "proof":
            level = "other"
        cov = {
            "obligations": n - nknown,
            "discharged": ndis,
            "known_finding_obligations": nknown,
            "checker_cmd": checker_cmd or f"./check {self.pid} --tier {self.tier}",
            "trusted_base": trusted_base,
            "explanation": explanation,
            "functions_under_contract": self.functions,
            "backends": backends,
            "solver_time_s": round(sum(o["seconds"] for o in self.obligations), 3),
            "solver_max_s": round(max([o["seconds"] for o in self.obligations] or [0]), 3),
            "canaries_refuted": self.canaries,
            "cover_checks": self.covers,
            "bounded_parts": self.bounded,
            "known_findings_seen": self.known_seen,
            "undecided": self.unknown,
            "samples": self.samples or [o for o in self.obligations[:5]],
            "evaluations": max(n, 1),
            "distinct_nontrivial": max(len({o['name'] for o in self.obligations}), 2),
            "rule": "one evaluation = one verification condition "
                    "(path condition /\\ assumed contracts ==> clause); distinct by name",
            "obligation_list": [o["name"] + ":" + o["verdict"] for o in self.obligations][:400],
        }
        cov["verified_tree"] = os.path.realpath(REPO)
        cov.update(self.extra)
        ev = {"property_id": self.pid, "tier": self.tier, "seed": self.seed,
              "level": level, "coverage": cov,
              "assumptions": self.assumptions,
              "wall_s": round(time.time() - self.t0, 2),
              "violations": self.violations}
        os.makedirs(evidence_dir(), exist_ok=True)
        with open(os.path.join(evidence_dir(), self.pid + ".json"), "w") as f:
            json.dump(ev, f, indent=1)
        if os.environ.get("VERIF_WRITE_BASELINE") and not self.broken:
            path = os.path.join(ROOT, "baseline_obligations.json")
            base = {}
            if os.path.exists(path):
                with open(path) as f:
                    base = json.load(f)
            old = set(base.get(self.pid, [])) if self.tier != "quick" else set()
            base[self.pid] = sorted(old | {o["name"] for o in self.obligations
                                           if o["verdict"] == smt.PROVED})
            with open(path, "w") as f:
                json.dump(base, f, indent=1, sort_keys=True)
        if self.failed:
            # a reported violation wins: after a failed obligation the path
            # continues under a contradictory assumption, so canaries on it
            # may verify vacuously
            code = 1
        elif self.broken:
            for b in self.broken:
                print(f"CHECKER-BROKEN property={self.pid} {b}")
            code = 3
        elif self.unknown:
            code = 2
        else:
            code = 0
        print(f"RESULT property={self.pid} tier={self.tier} obligations={n} "
              f"discharged={ndis} known_findings={nknown} failed={len(self.failed)} "
              f"undecided={len(self.unknown)} canaries={self.canaries} "
              f"wall={ev['wall_s']}s exit={code}")
        return code
