"""./check front end: dispatch to props/<id>.py"""
import argparse
import importlib
import os
import sys
import traceback


def main():
    ap = argparse.ArgumentParser()
    ap.add_argument("pid", nargs="?")
    ap.add_argument("--tier", default=os.environ.get("VERIF_TIER", "quick"))
    ap.add_argument("--replay")
    ap.add_argument("--smoke", action="store_true")
    ap.add_argument("--write-baseline", action="store_true",
                    help="record the obligations discharged on this tree in "
                         "baseline_obligations.json (run on the unchanged tree only)")
    a = ap.parse_args()
    if a.smoke:
        from . import smt
        smt.smoke()
        import ebpfcat.ebpfcat  # noqa: the repository imports under this interpreter
        print("smoke ok")
        return 0
    seed = int(os.environ.get("VERIF_SEED", "0"))
    try:
        mod = importlib.import_module("props." + a.pid.lower())
    except ModuleNotFoundError as e:
        print(f"no check for {a.pid}: {e}")
        return 2
    try:
        if a.replay:
            return mod.replay_file(a.replay)
        if a.write_baseline:
            os.environ["VERIF_WRITE_BASELINE"] = "1"
        return mod.run(a.tier, seed)
    except Exception:
        # a crash of the checker is never a verdict about the code
        traceback.print_exc()
        print(f"CHECKER-CRASH property={a.pid}")
        return 3


if __name__ == "__main__":
    sys.exit(main())
