"""Discharge a list of verification conditions in forked worker processes.

z3 terms cannot be pickled, so the job list is a module global that the
workers inherit through fork(); only plain data comes back."""
import multiprocessing as mp
import os

from . import smt

_JOBS = []


def _work(i):
    name, hyps, goal, timeout_ms, on_model, quick = _JOBS[i]
    res = smt.prove(hyps, goal, timeout_ms, quick_refute=quick)
    data = None
    if res.verdict == smt.REFUTED and res.model is not None and on_model is not None:
        try:
            data = on_model(res.model)
        except Exception as e:
            data = {"__error__": repr(e)}
    return {"i": i, "name": name, "verdict": res.verdict, "backend": res.backend,
            "seconds": res.seconds, "data": data,
            "raw": res.raw or ("" if res.model is None else str(res.model)[:3000]),
            "candidate": getattr(res, "candidate", False)}


def discharge(jobs, procs=None):
    """jobs: [(name, hyps, goal, timeout_ms, on_model, quick_refute)]
    returns the result dicts in job order"""
    global _JOBS
    procs = procs or int(os.environ.get("VERIF_PROCS", "14"))
    _JOBS = jobs
    try:
        if len(jobs) <= 1 or procs <= 1:
            return [_work(i) for i in range(len(jobs))]
        ctx = mp.get_context("fork")
        with ctx.Pool(min(procs, len(jobs))) as pool:
            out = list(pool.imap_unordered(_work, range(len(jobs)), chunksize=4))
    finally:
        _JOBS = []
    out.sort(key=lambda r: r["i"])
    return out


def aggregate(results):
    """clause name -> merged result (first failure wins, times summed)"""
    merged = {}
    for r in results:
        m = merged.get(r["name"])
        if m is None:
            m = merged[r["name"]] = dict(r, queries=0, seconds=0.0)
            m["verdict"] = smt.PROVED
        m["queries"] += 1
        m["seconds"] += r["seconds"]
        if r["verdict"] != smt.PROVED and m["verdict"] == smt.PROVED or \
                (r["verdict"] == smt.REFUTED and m["verdict"] == smt.UNKNOWN):
            for k in ("verdict", "backend", "data", "raw", "candidate"):
                m[k] = r[k]
        elif r["verdict"] == smt.PROVED and m["verdict"] == smt.PROVED:
            m["backend"] = r["backend"]
    return merged


def to_result(m):
    res = smt.Result(m["verdict"], m["backend"], m["seconds"], m.get("data"), m["raw"])
    return res
