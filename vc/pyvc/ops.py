"""Python operator semantics on symbolic values (mathematical integers,
Seq(Int) bytes with exact slice semantics)."""
import ast
import enum

import z3

from .values import (ZERO_ARR, b_arr, b_len, mkb)
from .values import (BOOL, BYTES, INT, REAL, BytesSort, MutBytes, Obj, PDict,
                     PList, PSet, Sym, SymEnum, SymList, SymMap, SymSet,
                     concrete_bool, concrete_int, is_byteslike, lift_bool,
                     lift_bytes, lift_int, lift_real, mk_bool, mk_bytes,
                     mk_int)


class OutOfReach(Exception):
    """a construct outside the supported subset: the function is undecided"""


def is_intlike(v):
    return isinstance(v, (int, bool)) or \
        (isinstance(v, Sym) and v.ty in (INT, BOOL))


def is_real(v):
    return isinstance(v, float) or (isinstance(v, Sym) and v.ty == REAL)


def _runs(c):
    """maximal runs of one-bits of a non-negative int: [(lo, hi)]"""
    out, i = [], 0
    while c >> i:
        if (c >> i) & 1:
            lo = i
            while (c >> i) & 1:
                i += 1
            out.append((lo, i))
        else:
            i += 1
    return out


def and_const(x, c):
    """x & c for a z3 Int x and a python int c (exact for all integers)"""
    if c >= 0:
        terms = [((x / (1 << lo)) % (1 << (hi - lo))) * (1 << lo)
                 for lo, hi in _runs(c)]
        if not terms:
            return z3.IntVal(0)
        return z3.simplify(z3.Sum(*terms) if len(terms) > 1 else terms[0])
    return x - and_const(x, ~c)


def _if_const(t):
    """t == If(b, c1, c2) with numerals c1, c2 ?"""
    if z3.is_app_of(t, z3.Z3_OP_ITE) and z3.is_int_value(t.arg(1)) \
            and z3.is_int_value(t.arg(2)):
        return t.arg(0), t.arg(1).as_long(), t.arg(2).as_long()
    return None


def bitop(ex, op, a, b):
    """& | ^ on integers; at least one side symbolic"""
    ca = a if isinstance(a, int) else concrete_int(lift_int(a))
    cb = b if isinstance(b, int) else concrete_int(lift_int(b))
    if ca is not None and cb is not None:
        return {"&": ca & cb, "|": ca | cb, "^": ca ^ cb}[op]
    if ca is not None:
        a, b, ca, cb = b, a, cb, ca
    x = lift_int(a)
    if cb is not None:
        n = and_const(x, cb)
        if op == "&":
            return mk_int(n)
        if op == "|":
            return mk_int(x + cb - n)
        return mk_int(x + cb - 2 * n)
    y = z3.simplify(lift_int(b))
    x = z3.simplify(x)
    for p, q in ((x, y), (y, x)):
        ic = _if_const(q)
        if ic is not None:
            cond, c1, c2 = ic
            r1 = lift_int(bitop(ex, op, Sym(p, INT), c1))
            r2 = lift_int(bitop(ex, op, Sym(p, INT), c2))
            return mk_int(z3.If(cond, r1, r2))
    # general case: 64-bit bit-vectors, both operands must be in range
    if ex.opt.get("bv_bitops") is False:
        raise OutOfReach(f"bit operation {op} on two symbolic integers")
    # general case: 64-bit two's complement (Python's infinite-precision
    # result agrees with it when both operands fit signed 64 bits)
    W = 64
    ex.check_internal("bit operation operands within -2^63..2^63-1",
                      z3.And(x >= -2**(W - 1), x < 2**(W - 1), y >= -2**(W - 1), y < 2**(W - 1)))
    bx, by = z3.Int2BV(x, W), z3.Int2BV(y, W)
    r = {"&": bx & by, "|": bx | by, "^": bx ^ by}[op]
    u = z3.BV2Int(r)
    return mk_int(z3.If(u >= 2**(W - 1), u - 2**W, u))


def floordiv(ex, a, b):
    """python floor division (z3's integer division floors for a positive
    divisor; for a negative divisor negate both operands)"""
    x, y = lift_int(a), lift_int(b)
    cy = concrete_int(y)
    if cy is not None:
        if cy == 0:
            ex.raise_builtin(ZeroDivisionError)
        return mk_int(x / y if cy > 0 else (-x) / (-y))
    if ex.fork(y == 0, "division by zero"):
        ex.raise_builtin(ZeroDivisionError)
    return mk_int(z3.If(y > 0, x / y, (-x) / (-y)))


def pymod(ex, a, b):
    x, y = lift_int(a), lift_int(b)
    cy = concrete_int(y)
    if cy is not None and cy > 0:
        return mk_int(x % y)
    if cy == 0:
        ex.raise_builtin(ZeroDivisionError)
    q = lift_int(floordiv(ex, a, b))
    return mk_int(x - q * y)


def shift(ex, op, a, b):
    x = lift_int(a)
    cb = b if isinstance(b, int) else concrete_int(lift_int(b))
    if cb is None:
        # a symbolic amount: one path per feasible amount 0..63
        bt = lift_int(b)
        if ex.fork(bt < 0, "negative shift amount"):
            ex.raise_builtin(ValueError)
        for k in range(64):
            if ex.fork(bt == k, f"shift amount == {k}"):
                cb = k
                break
        else:
            raise OutOfReach("shift by a symbolic amount of 64 or more")
    if cb < 0:
        ex.raise_builtin(ValueError)
    if op == "<<":
        return mk_int(_scale(x, z3.IntVal(1 << cb)))
    return mk_int(x / (1 << cb))


def _scale(x, y):
    """x * y, distributing over If(c, k1, k2) with numerals"""
    for p, q in ((x, y), (y, x)):
        ic = _if_const(z3.simplify(p))
        cq = concrete_int(q)
        if ic is not None and cq is not None:
            return z3.If(ic[0], z3.IntVal(ic[1] * cq), z3.IntVal(ic[2] * cq))
    return x * y


def arith(ex, op, a, b):
    """binary arithmetic on two int-like or real values"""
    if is_real(a) or is_real(b):
        x, y = lift_real(a), lift_real(b)
        if op not in "+-*/":
            raise OutOfReach(f"real operator {op}")
        exact = {"+": x + y, "-": x - y, "*": x * y, "/": x / y}[op]
        if ex.opt.get("ieee"):
            # binary64 standard model: fl(a o b) = (a o b)(1 + d), |d| <= 2**-53
            # (no overflow / underflow in the range the contracts state)
            d = z3.Real(ex.fresh_name("ulp"))
            u = z3.RealVal(1) / z3.RealVal(2 ** 53)
            ex.assume(z3.And(d >= -u, d <= u))
            return Sym(exact * (1 + d), REAL)
        return Sym(exact, REAL)
    if isinstance(a, (int, bool)) and isinstance(b, (int, bool)) and op != "/":
        import operator as o
        try:
            return {"+": o.add, "-": o.sub, "*": o.mul, "//": o.floordiv,
                    "%": o.mod, "&": o.and_, "|": o.or_, "^": o.xor,
                    "<<": o.lshift, ">>": o.rshift, "**": o.pow}[op](a, b)
        except ZeroDivisionError:
            ex.raise_builtin(ZeroDivisionError)
    if op == "+":
        return mk_int(lift_int(a) + lift_int(b))
    if op == "-":
        return mk_int(lift_int(a) - lift_int(b))
    if op == "*":
        return mk_int(_scale(lift_int(a), lift_int(b)))
    if op == "//":
        return floordiv(ex, a, b)
    if op == "%":
        return pymod(ex, a, b)
    if op in "&|^":
        return bitop(ex, op, a, b)
    if op in ("<<", ">>"):
        return shift(ex, op, a, b)
    if op == "/":
        return Sym(lift_real(a) / lift_real(b), REAL)
    raise OutOfReach(f"operator {op} on symbolic integers")


# ---------------------------------------------------------------- bytes ----

def blen(v):
    if isinstance(v, (bytes, bytearray)):
        return len(v)
    return mk_int(b_len(lift_bytes(v)))


def norm_index(i, n, lo_default):
    """python slice bound normalisation: i may be None; n = length (z3 Int)"""
    if i is None:
        return lo_default
    i = lift_int(i)
    ci = concrete_int(i)
    if ci is not None and ci >= 0:
        return z3.If(i > n, n, i)
    j = z3.If(i < 0, i + n, i)
    return z3.If(j < 0, z3.IntVal(0), z3.If(j > n, n, j))


def _k():
    return z3.Int("k!b")


def shifted(arr, a):
    """the array k -> arr[k + a]"""
    a = z3.simplify(a)
    if z3.is_int_value(a) and a.as_long() == 0:
        return arr
    k = _k()
    return z3.Lambda([k], z3.Select(arr, k + a))


def bslice_t(s, a, ln):
    return mkb(shifted(b_arr(s), a), z3.simplify(ln))


def bslice(v, lo, hi):
    """v[lo:hi] with Python's clamping and negative-index rules"""
    s = lift_bytes(v)
    n = b_len(s)
    a = norm_index(lo, n, z3.IntVal(0))
    b = norm_index(hi, n, n)
    ln = z3.If(b > a, b - a, z3.IntVal(0))
    return mk_bytes(bslice_t(s, a, ln))


def byte_at(ex, s, j):
    """element j of bytes term s (no bounds check), with its range fact"""
    e = z3.simplify(z3.Select(b_arr(s), z3.simplify(j)))
    if not z3.is_int_value(e):
        key = e.get_id()
        if key not in ex.byte_facts:
            ex.byte_facts.add(key)
            ex.assume(z3.And(e >= 0, e < 256))
    return e


def bindex(ex, v, i):
    """v[i] on bytes: an int 0..255, IndexError when out of range"""
    if isinstance(v, (bytes, bytearray)) and isinstance(i, int):
        try:
            return v[i]
        except IndexError:
            ex.raise_builtin(IndexError)
    s = lift_bytes(v)
    n = b_len(s)
    i = lift_int(i)
    if ex.opt.get("spec_mode"):
        return mk_int(byte_at(ex, s, i))
    j = z3.If(i < 0, i + n, i)
    if ex.fork(z3.Or(j < 0, j >= n), "bytes index out of range"):
        ex.raise_builtin(IndexError)
    return mk_int(byte_at(ex, s, j))


def bconcat_t(x, y):
    lx, ly = b_len(x), b_len(y)
    clx = concrete_int(lx)
    if clx == 0:
        return y
    if concrete_int(ly) == 0:
        return x
    ax, ay = b_arr(x), b_arr(y)
    k = _k()
    return mkb(z3.Lambda([k], z3.If(k < lx, z3.Select(ax, k),
                                    z3.Select(ay, k - lx))),
               z3.simplify(lx + ly))


def bconcat(a, b):
    if isinstance(a, (bytes, bytearray)) and isinstance(b, (bytes, bytearray)):
        return bytes(a) + bytes(b)
    return mk_bytes(bconcat_t(lift_bytes(a), lift_bytes(b)))


def zeros(ex, n, byte=0):
    """bytes(n) / b'\\0' * n for a symbolic n"""
    if isinstance(n, int):
        return bytes([byte]) * max(n, 0)
    n = lift_int(n)
    return Sym(mkb(z3.K(z3.IntSort(), z3.IntVal(byte)),
                   z3.simplify(z3.If(n > 0, n, 0))), BYTES)


def byte_fact(ex, s, k):
    return byte_at(ex, s, k)


def bytes_eq(ex, a, b):
    """python equality of two byte strings as a z3 Bool"""
    x, y = lift_bytes(a), lift_bytes(b)
    lx, ly = b_len(x), b_len(y)
    cx, cy = concrete_int(lx), concrete_int(ly)
    if cx is not None and cy is not None and cx != cy:
        return z3.BoolVal(False)
    ax, ay = b_arr(x), b_arr(y)
    if x.eq(y):
        return z3.BoolVal(True)
    n = cx if cx is not None else cy
    if n is not None and n <= 32:
        return z3.And(lx == ly, *[z3.Select(ax, i) == z3.Select(ay, i)
                                  for i in range(n)])
    k = z3.Int(ex.fresh_name("k!eq"))
    return z3.And(lx == ly,
                  z3.ForAll([k], z3.Implies(z3.And(k >= 0, k < lx),
                                            z3.Select(ax, k) == z3.Select(ay, k))))


# ---------------------------------------------------------------- compare --

def values_equal(ex, a, b):
    """a == b as python value or Sym bool (no forking)"""
    if isinstance(a, SymEnum) or isinstance(b, SymEnum):
        ta = a.t if isinstance(a, SymEnum) else (
            z3.IntVal(a.value) if isinstance(a, enum.Enum) else None)
        tb = b.t if isinstance(b, SymEnum) else (
            z3.IntVal(b.value) if isinstance(b, enum.Enum) else None)
        if ta is None or tb is None:
            return False
        ca = a.cls if isinstance(a, SymEnum) else type(a)
        cb = b.cls if isinstance(b, SymEnum) else type(b)
        if ca is not cb:
            return False
        return mk_bool(ta == tb)
    from .values import SymOpt
    if isinstance(a, SymOpt) or isinstance(b, SymOpt):
        def enc(x):
            if isinstance(x, SymOpt):
                return x.t
            if x is None:
                return z3.IntVal(-1)
            if is_intlike(x):
                return lift_int(x)
            return None
        ta, tb = enc(a), enc(b)
        if ta is None or tb is None:
            return False
        return mk_bool(ta == tb)
    if a is None or b is None:
        if a is None and b is None:
            return True
        return False if not isinstance(a, Sym) and not isinstance(b, Sym) else False
    if is_real(a) or is_real(b):
        if (is_real(a) or is_intlike(a)) and (is_real(b) or is_intlike(b)):
            return mk_bool(lift_real(a) == lift_real(b))
        return False
    if is_intlike(a) and is_intlike(b):
        if isinstance(a, (int, bool)) and isinstance(b, (int, bool)):
            return a == b
        if isinstance(a, Sym) and isinstance(b, Sym) and a.ty == BOOL and b.ty == BOOL:
            return mk_bool(a.t == b.t)
        return mk_bool(lift_int(a) == lift_int(b))
    if is_byteslike(a) and is_byteslike(b):
        if isinstance(a, (bytes, bytearray)) and isinstance(b, (bytes, bytearray)):
            return bytes(a) == bytes(b)
        return mk_bool(bytes_eq(ex, a, b))
    from .values import SymTuple
    if isinstance(a, SymTuple) or isinstance(b, SymTuple):
        if isinstance(b, SymTuple):
            a, b = b, a
        if isinstance(b, SymTuple):
            if len(a.fixed) != len(b.fixed) or a.lens != b.lens:
                return False
            r = values_equal(ex, tuple(a.fixed), tuple(b.fixed))
            if r is False:
                return False
            ts = [lift_bool(r), a.n == b.n]
            for k in range(max(a.lens)):
                rk = values_equal(ex, a.rest[k], b.rest[k])
                ts.append(z3.Implies(a.n > k, lift_bool(rk)))
            return mk_bool(z3.And(*ts))
        if not isinstance(b, tuple):
            return False
        k = len(b) - len(a.fixed)
        if k not in a.lens:
            return False
        comps = list(a.fixed) + a.rest[:k]
        r = values_equal(ex, tuple(comps), b)
        if r is False:
            return False
        return mk_bool(z3.And(a.n == k, lift_bool(r)))
    if isinstance(a, tuple) and isinstance(b, tuple):
        if len(a) != len(b):
            return False
        parts = [values_equal(ex, x, y) for x, y in zip(a, b)]
        if any(p is False for p in parts):
            return False
        syms = [lift_bool(p) for p in parts if p is not True]
        if not syms:
            return True
        return mk_bool(z3.And(*syms))
    if isinstance(a, PList) and isinstance(b, PList):
        return values_equal(ex, tuple(a.items), tuple(b.items))
    if isinstance(a, (Obj, PDict, SymList, SymMap, MutBytes, PSet, SymSet)) or \
            isinstance(b, (Obj, PDict, SymList, SymMap, MutBytes, PSet, SymSet)):
        return a is b
    if isinstance(a, Sym) or isinstance(b, Sym):
        # different kinds (e.g. int vs bytes): never equal in Python
        return False
    return a == b


def order(ex, op, a, b):
    from .values import SymOpt
    if isinstance(a, SymOpt):     # spec mode only: guarded by `is None` tests
        a = Sym(a.t, INT)
    if isinstance(b, SymOpt):
        b = Sym(b.t, INT)
    if is_real(a) or is_real(b):
        x, y = lift_real(a), lift_real(b)
    elif is_intlike(a) and is_intlike(b):
        if isinstance(a, (int, bool)) and isinstance(b, (int, bool)):
            return {"<": a < b, "<=": a <= b, ">": a > b, ">=": a >= b}[op]
        x, y = lift_int(a), lift_int(b)
    else:
        raise OutOfReach(f"ordering comparison of {a!r} and {b!r}")
    return mk_bool({"<": x < y, "<=": x <= y, ">": x > y, ">=": x >= y}[op])
