"""Schemas: how symbolic inputs of a function under contract are shaped.

A schema describes the *type invariant* of an input (what every well-typed
caller passes), not a bound: Int is any integer, Bytes any byte string of any
length, List(...) a list of any length.
"""
import enum

import z3

from .values import (BOOL, BYTES, INT, REAL, BytesSort, MutBytes, Obj, PDict,
                     PList, Sym, SymEnum, SymList, SymMap, SymSet)


class Schema:
    pass


class _Leaf(Schema):
    def __init__(self, ty):
        self.ty = ty

    def __repr__(self):
        return f"T.{self.ty}"


class T:
    Int = _Leaf(INT)
    Bool = _Leaf(BOOL)
    Bytes = _Leaf(BYTES)
    Real = _Leaf(REAL)

    class Range(Schema):
        """an int with lo <= v <= hi (either bound may be None)"""
        def __init__(self, lo=None, hi=None):
            self.lo, self.hi = lo, hi

    class Enum(Schema):
        """any member of the Enum class (optionally restricted)"""
        def __init__(self, cls, members=None):
            self.cls = cls
            self.members = list(members) if members is not None else list(cls)

    class Tuple(Schema):
        def __init__(self, *comps):
            self.comps = comps

    class VarTuple(Schema):
        """tuple with fixed leading components and 1..n trailing ones"""
        def __init__(self, fixed, rest, lens):
            self.fixed, self.rest, self.lens = list(fixed), rest, tuple(lens)

    class List(Schema):
        """a list of unknown length"""
        def __init__(self, elem):
            self.elem = elem

    class FixedList(Schema):
        """a list of the given concrete length (used inside OneOf)"""
        def __init__(self, elem, n):
            self.elem, self.n = elem, n

    class IntSet(Schema):
        pass

    class Map(Schema):
        """dict with int keys and values of one schema, unknown size"""
        def __init__(self, value):
            self.value = value

    class Obj(Schema):
        def __init__(self, cls, **fields):
            self.cls, self.fields = cls, fields

    class Opt(Schema):
        def __init__(self, inner):
            self.inner = inner

    class OneOf(Schema):
        def __init__(self, *alts):
            self.alts = alts

    class Const(Schema):
        def __init__(self, value):
            self.value = value

    class ByteArray(Schema):
        pass

    class Shared(Schema):
        """refer to an already created value by key (aliasing on purpose)"""
        def __init__(self, key):
            self.key = key


def sort_of(schema):
    if isinstance(schema, _Leaf):
        return {INT: z3.IntSort(), BOOL: z3.BoolSort(), BYTES: BytesSort,
                REAL: z3.RealSort()}[schema.ty]
    if isinstance(schema, (T.Range, T.Enum, T.Opt)):
        return z3.IntSort()
    raise TypeError(f"no scalar sort for {schema}")


def leaves(schema, prefix=""):
    """scalar leaves of an element schema: [(path, leaf schema)]"""
    if isinstance(schema, (_Leaf, T.Range, T.Enum)):
        return [(prefix or "v", schema)]
    if isinstance(schema, T.Opt):
        # optional int encoded in one Int: None is NONE_CODE
        return [(prefix or "v", schema)]
    if isinstance(schema, T.Tuple):
        out = []
        for i, c in enumerate(schema.comps):
            out += leaves(c, f"{prefix}{i}.")
        return out
    if isinstance(schema, T.VarTuple):
        out = []
        for i, c in enumerate(schema.fixed):
            out += leaves(c, f"{prefix}{i}.")
        out.append((f"{prefix}n", T.Int))
        for i in range(max(schema.lens)):
            out += leaves(schema.rest, f"{prefix}r{i}.")
        return out
    raise TypeError(f"schema {schema} cannot be a list element")


NONE_CODE = -1   # encoding of None inside Opt(Int) list elements


def fresh(ex, schema, name):
    """create a fresh symbolic value of the schema; may fork the execution"""
    if isinstance(schema, _Leaf):
        t = z3.Const(ex.fresh_name(name), sort_of(schema))
        if schema.ty == BYTES:
            from .values import b_len
            ex.assume(b_len(t) >= 0)
        return Sym(t, schema.ty)
    if isinstance(schema, T.Range):
        v = z3.Int(ex.fresh_name(name))
        if schema.lo is not None:
            ex.assume(v >= schema.lo)
        if schema.hi is not None:
            ex.assume(v <= schema.hi)
        return Sym(v, INT)
    if isinstance(schema, T.Enum):
        if len(schema.members) == 1:
            return schema.members[0]
        v = z3.Int(ex.fresh_name(name))
        ex.assume(z3.Or(*[v == m.value for m in schema.members]))
        return SymEnum(schema.cls, v)
    if isinstance(schema, T.Const):
        return schema.value
    if isinstance(schema, T.Tuple):
        return tuple(fresh(ex, c, f"{name}.{i}")
                     for i, c in enumerate(schema.comps))
    if isinstance(schema, T.VarTuple):
        k = schema.lens[ex.choose(len(schema.lens), f"arity of {name}")]
        return tuple([fresh(ex, c, f"{name}.{i}")
                      for i, c in enumerate(schema.fixed)]
                     + [fresh(ex, schema.rest, f"{name}.r{i}")
                        for i in range(k)])
    if isinstance(schema, T.Opt):
        if ex.choose(2, f"{name} is None?") == 0:
            return None
        return fresh(ex, schema.inner, name)
    if isinstance(schema, T.OneOf):
        return fresh(ex, schema.alts[ex.choose(len(schema.alts),
                                               f"alternative of {name}")], name)
    if isinstance(schema, T.List):
        n = z3.Int(ex.fresh_name(name + ".len"))
        ex.assume(n >= 0)
        arrays = {p: z3.Array(ex.fresh_name(f"{name}.{p}"), z3.IntSort(),
                              sort_of(s))
                  for p, s in leaves(schema.elem)}
        return SymList(schema.elem, n, arrays, name)
    if isinstance(schema, T.FixedList):
        return PList([fresh(ex, schema.elem, f"{name}[{i}]")
                      for i in range(schema.n)])
    if isinstance(schema, T.IntSet):
        return SymSet(z3.Array(ex.fresh_name(name), z3.IntSort(),
                               z3.BoolSort()), name)
    if isinstance(schema, T.Map):
        arrays = {p: z3.Array(ex.fresh_name(f"{name}.{p}"), z3.IntSort(),
                              sort_of(s))
                  for p, s in leaves(schema.value)}
        dom = z3.Array(ex.fresh_name(name + ".dom"), z3.IntSort(),
                       z3.BoolSort())
        return SymMap(schema.value, dom, arrays, name)
    if isinstance(schema, T.ByteArray):
        return MutBytes(fresh(ex, T.Bytes, name).t)
    if isinstance(schema, T.Obj):
        o = Obj(schema.cls, {}, name)
        ex.shared[name] = o
        for k, s in schema.fields.items():
            o.fields[k] = fresh(ex, s, f"{name}.{k}")
        return o
    if isinstance(schema, T.Shared):
        return ex.shared[schema.key]
    raise TypeError(f"cannot create a fresh value for {schema!r}")


# ---------------------------------------------------------------- SymList --

def elem_from_arrays(ex, schema, arrays, idx, prefix=""):
    """rebuild the element value stored at position idx (z3 Int)"""
    if isinstance(schema, _Leaf):
        t = z3.simplify(z3.Select(arrays[prefix or "v"], idx))
        if schema.ty == BYTES:
            from .values import b_len
            ex.assume(b_len(t) >= 0)
        return Sym(t, schema.ty)
    if isinstance(schema, T.Range):
        v = z3.Select(arrays[prefix or "v"], idx)
        if schema.lo is not None:
            ex.assume(v >= schema.lo)
        if schema.hi is not None:
            ex.assume(v <= schema.hi)
        return Sym(v, INT)
    if isinstance(schema, T.Enum):
        v = z3.Select(arrays[prefix or "v"], idx)
        ex.assume(z3.Or(*[v == m.value for m in schema.members]))
        return SymEnum(schema.cls, v)
    if isinstance(schema, T.Opt):
        v = z3.Select(arrays[prefix or "v"], idx)
        if ex.opt.get("spec_mode"):
            from .values import SymOpt
            return SymOpt(z3.simplify(v))
        if ex.fork(v == NONE_CODE, "list element is None"):
            return None
        return Sym(v, INT)
    if isinstance(schema, T.Tuple):
        return tuple(elem_from_arrays(ex, c, arrays, idx, f"{prefix}{i}.")
                     for i, c in enumerate(schema.comps))
    if isinstance(schema, T.VarTuple):
        from .values import SymTuple
        n = z3.Select(arrays[f"{prefix}n"], idx)
        ex.assume(z3.Or(*[n == k for k in schema.lens]))
        return SymTuple(
            [elem_from_arrays(ex, c, arrays, idx, f"{prefix}{i}.")
             for i, c in enumerate(schema.fixed)], n,
            [elem_from_arrays(ex, schema.rest, arrays, idx, f"{prefix}r{i}.")
             for i in range(max(schema.lens))], schema.lens)
    raise TypeError(schema)


def elem_to_arrays(ex, schema, arrays, idx, value, prefix=""):
    """functional update of the leaf arrays with `value` at position idx"""
    from .values import lift_bool, lift_bytes, lift_int, lift_real
    if isinstance(schema, (_Leaf, T.Range, T.Enum, T.Opt)):
        key = prefix or "v"
        if isinstance(schema, T.Enum):
            t = value.t if isinstance(value, SymEnum) else z3.IntVal(value.value)
        elif isinstance(schema, T.Opt):
            from .values import SymOpt
            t = z3.IntVal(NONE_CODE) if value is None else (
                value.t if isinstance(value, SymOpt) else lift_int(value))
        elif isinstance(schema, T.Range) or schema.ty == INT:
            if isinstance(value, Obj) and "id" in value.fields:
                value = value.fields["id"]      # objects are stored by their ghost id
            t = lift_int(value)
        elif schema.ty == BOOL:
            t = lift_bool(value)
        elif schema.ty == BYTES:
            t = lift_bytes(value)
        else:
            t = lift_real(value)
        arrays[key] = z3.Store(arrays[key], idx, t)
        return
    if isinstance(schema, T.Tuple):
        if not isinstance(value, tuple) or len(value) != len(schema.comps):
            raise TypeError(f"element {value!r} does not fit {schema}")
        for i, c in enumerate(schema.comps):
            elem_to_arrays(ex, c, arrays, idx, value[i], f"{prefix}{i}.")
        return
    if isinstance(schema, T.VarTuple):
        nf = len(schema.fixed)
        if not isinstance(value, tuple) or len(value) - nf not in schema.lens:
            raise TypeError(f"element {value!r} does not fit {schema}")
        for i, c in enumerate(schema.fixed):
            elem_to_arrays(ex, c, arrays, idx, value[i], f"{prefix}{i}.")
        arrays[f"{prefix}n"] = z3.Store(arrays[f"{prefix}n"], idx,
                                        z3.IntVal(len(value) - nf))
        for i in range(len(value) - nf):
            elem_to_arrays(ex, schema.rest, arrays, idx, value[nf + i],
                           f"{prefix}r{i}.")
        return
    raise TypeError(schema)
