"""pyvc executor: symbolic execution of the real function source (ast of the
file under /repo, read on every run), path by path.

Forking is done by deterministic re-execution with a decision prefix; every
run of `Executor` follows one path.  Statement executors are Python generators
so that interpreted generator functions (`@contextmanager`,
`@asynccontextmanager`, async generators) can be suspended at their `yield`.
"""
import ast
import builtins
import enum
import inspect
import sys
import textwrap
import types

import z3

from . import ops
from .ops import OutOfReach
from .values import (BOOL, BYTES, INT, REAL, Bound, BytesSort, Func, Ghost,
                     MutBytes, Obj, PDict, PList, PSet, Sym, SymEnum, SymList,
                     SymMap, SymSet, concrete_bool, concrete_int, is_byteslike,
                     lift_bool, lift_bytes, lift_int, mk_bool, mk_bytes,
                     mk_int, snapshot)
from .. import smt


class PathEnd(Exception):
    """this path stops here (infeasible, or end of an arbitrary loop
    iteration): not an error"""


class PyRaise(Exception):
    """a Python exception raised by the interpreted program"""

    def __init__(self, exc):
        self.exc = exc          # Obj whose cls is the exception class


class _Return(Exception):
    def __init__(self, value):
        self.value = value


class _Break(Exception):
    pass


class _Continue(Exception):
    pass


class Env:
    def __init__(self, parent=None):
        self.vars = {}
        self.parent = parent
        self.nonlocals = set()

    def lookup(self, name):
        e = self
        while e is not None:
            if name in e.vars:
                return e.vars[name]
            e = e.parent
        raise KeyError(name)

    def has(self, name):
        e = self
        while e is not None:
            if name in e.vars:
                return True
            e = e.parent
        return False

    def set(self, name, value):
        if name in self.nonlocals:
            e = self.parent
            while e is not None:
                if name in e.vars:
                    e.vars[name] = value
                    return
                e = e.parent
        self.vars[name] = value


class Unbound:
    """marker: a local name that was unbound (e.g. after `except E as name`)"""


class OpaqueStr:
    """an f-string or other string the engine does not look into; `parts`
    keeps the literal pieces and the evaluated values for models that need to
    recognise a name (e.g. a path built from a directory and a number)"""

    def __init__(self, parts=()):
        self.parts = list(parts)

    def flat(self):
        out = []
        for p in self.parts:
            out.extend(p.flat() if isinstance(p, OpaqueStr) else [p])
        return out

    def __repr__(self):
        return "<opaque str>"


class GenValue:
    """an interpreted generator (the Python generator running its body)"""

    def __init__(self, gen, func):
        self.gen = gen
        self.func = func
        self.started = False


class BuiltinMethod:
    def __init__(self, recv, name):
        self.recv = recv
        self.name = name


class Frame:
    def __init__(self, func, env, self_cls=None):
        self.func = func
        self.env = env
        self.loop_no = 0
        self.current_exc = None


_AST_CACHE = {}


def function_ast(pyfunc):
    """AST of a real function, from its source file as it is on disk now"""
    key = pyfunc
    if key not in _AST_CACHE:
        try:
            src = textwrap.dedent(inspect.getsource(pyfunc))
        except (OSError, TypeError):
            from .ops import OutOfReach as _OOR
            raise _OOR(f"no source for {getattr(pyfunc, '__module__', '?')}."
                       f"{getattr(pyfunc, '__qualname__', pyfunc)} and no model of it")
        tree = ast.parse(src)
        node = tree.body[0]
        _AST_CACHE[key] = (node, src)
    return _AST_CACHE[key]


def qualname_of(pyfunc):
    return f"{pyfunc.__module__}:{pyfunc.__qualname__}"


class Executor:
    def __init__(self, decisions, registry, options=None):
        self.decisions = list(decisions)
        self.pos = 0
        self.new_alternatives = []     # decision prefixes to explore later
        self.pc = []                   # path condition (z3 Bool list)
        self.obligations = []          # (name, pc snapshot, goal, text)
        self.registry = registry       # qualname -> Contract
        self.opt = options or {}
        self.counter = {}
        self.shared = {}
        self.frames = []
        self.notes = []                # human readable path description
        self.ghost = {}                # ghost state of contracts
        self.await_count = 0
        self.target = None
        self.depth = 0
        self.cancel_at = None
        self.byte_facts = set()
        self.lib = None                # set by lib.install
        from . import lib
        lib.install(self)

    # -------------------------------------------------------------- basics
    def fresh_name(self, base):
        n = self.counter.get(base, 0)
        self.counter[base] = n + 1
        return f"{base}!{n}" if n else base

    def assume(self, t):
        if isinstance(t, bool):
            if not t:
                raise PathEnd()
            return
        c = concrete_bool(t)
        if c is True:
            return
        if c is False:
            raise PathEnd()
        self.pc.append(t)

    def check(self, name, goal, text="", assume=True):
        """record a proof obligation under the current path condition and
        continue as if it held (assume=False for canaries: a clause that is
        wrong on purpose must not cut the path it is refuted on)"""
        if isinstance(goal, bool):
            goal = z3.BoolVal(goal)
        elif isinstance(goal, Sym):
            goal = lift_bool(goal)
        self.obligations.append((name, list(self.pc), goal, text,
                                 list(self.notes)))
        c = concrete_bool(goal)
        if c is not True and assume:
            self.pc.append(goal)

    def check_internal(self, what, goal):
        self.check(f"{getattr(self, 'target_short', '')}.engine.side-condition: " + what, goal, what)

    def _decide(self, n, feas, note):
        """n-way decision; feas(i) -> is branch i feasible"""
        if self.pos < len(self.decisions):
            d = self.decisions[self.pos]
            self.pos += 1
            return d
        options = [i for i in range(n) if feas(i)]
        if not options:
            raise PathEnd()
        for alt in options[1:]:
            self.new_alternatives.append(self.decisions + [alt])
        self.decisions.append(options[0])
        self.pos += 1
        return options[0]

    def fork(self, cond, note=""):
        """branch on a z3 Bool (or python bool); returns the python bool
        chosen on this path and extends the path condition"""
        if isinstance(cond, bool):
            return cond
        if isinstance(cond, Sym):
            cond = lift_bool(cond)
        c = concrete_bool(cond)
        if c is not None:
            return c
        ncond = z3.Not(cond)
        self._quant_forked = True
        smt.GROUND_FEASIBILITY[0] = bool(self.opt.get("ground_feasibility"))
        d = self._decide(2, lambda i: smt.feasible(
            self.pc + [cond if i == 0 else ncond]), note)
        if d == 0:
            self.pc.append(cond)
            self.notes.append(f"{note or 'branch'}: {z3.simplify(cond)}")
            return True
        self.pc.append(ncond)
        self.notes.append(f"{note or 'branch'}: not {z3.simplify(cond)}")
        return False

    def choose(self, n, note=""):
        d = self._decide(n, lambda i: True, note)
        self.notes.append(f"{note}: choice {d}")
        return d

    def truth(self, v, note="truth"):
        """python truthiness, forking when symbolic"""
        if isinstance(v, Sym):
            if v.ty == BOOL:
                return self.fork(v.t, note)
            if v.ty == INT:
                return self.fork(v.t != 0, note)
            if v.ty == BYTES:
                return self.fork(ops.b_len(v.t) > 0, note)
            if v.ty == REAL:
                return self.fork(v.t != 0, note)
        if isinstance(v, MutBytes):
            return self.fork(ops.b_len(v.t) > 0, note)
        if isinstance(v, PList):
            return len(v.items) > 0
        if isinstance(v, PDict):
            return len(v.d) > 0
        if isinstance(v, PSet):
            return len(v.s) > 0
        if isinstance(v, SymList):
            return self.fork(v.length > 0, note)
        if isinstance(v, (Obj, SymEnum, Func, Bound, Ghost)):
            return True
        if isinstance(v, Unbound) or v is Unbound:
            raise OutOfReach("truth of unbound")
        return bool(v)

    def truth_term(self, v):
        """truthiness as z3 Bool without forking (None if not expressible)"""
        if isinstance(v, bool):
            return z3.BoolVal(v)
        if isinstance(v, Sym):
            if v.ty == BOOL:
                return v.t
            if v.ty == INT:
                return v.t != 0
            if v.ty == BYTES:
                return ops.b_len(v.t) > 0
        if isinstance(v, int):
            return z3.BoolVal(v != 0)
        if v is None:
            return z3.BoolVal(False)
        return None

    # ------------------------------------------------------------ exceptions
    def make_exc(self, cls, *args):
        return Obj(cls, {"args": tuple(args)}, cls.__name__)

    def raise_builtin(self, cls, *args):
        raise PyRaise(self.make_exc(cls, *args))

    # ---------------------------------------------------------------- names
    def lookup(self, name, frame):
        try:
            v = frame.env.lookup(name)
            if v is Unbound:
                self.raise_builtin(UnboundLocalError, name)
            return v
        except KeyError:
            pass
        mod = frame.func.module
        if mod is not None and name in mod.__dict__:
            return mod.__dict__[name]
        cls = getattr(frame.func, "cls", None)
        if cls is not None and self.mangle(name, frame) in cls.__dict__:
            # a default value that names a class-level private attribute
            return cls.__dict__[self.mangle(name, frame)]
        if hasattr(builtins, name):
            return getattr(builtins, name)
        extra = self.opt.get("spec_globals", {})
        if name in extra:
            return extra[name]
        self.raise_builtin(NameError, name)

    # ------------------------------------------------------------ functions
    def as_func(self, pyfunc, cls=None):
        node, _ = function_ast(pyfunc)
        mod = sys.modules.get(pyfunc.__module__)
        spec = pyfunc.__module__.startswith(("contracts", "props", "vc."))
        return Func(node, None, qualname_of(pyfunc), mod, cls, spec)

    def find_method(self, cls, name, after=None):
        """static MRO lookup; `after`: start after this class (super())"""
        mro = cls.__mro__
        if after is not None:
            mro = mro[mro.index(after) + 1:]
        for c in mro:
            if name in c.__dict__:
                return c, c.__dict__[name]
        return None, None

    def bind_args(self, func, args, kwargs):
        a = func.node.args
        env = Env(func.env)
        params = [p.arg for p in a.posonlyargs + a.args]
        defaults = a.defaults
        ndef = len(defaults)
        args = list(args)
        kwargs = dict(kwargs)
        defframe = Frame(func, Env(func.env))
        for i, p in enumerate(params):
            if i < len(args):
                env.vars[p] = args[i]
            elif p in kwargs:
                env.vars[p] = kwargs.pop(p)
            else:
                j = i - (len(params) - ndef)
                if j < 0:
                    self.raise_builtin(TypeError, f"missing argument {p}")
                env.vars[p] = self.eval(defaults[j], defframe)
        extra = args[len(params):]
        if a.vararg is not None:
            env.vars[a.vararg.arg] = tuple(extra)
        elif extra:
            self.raise_builtin(TypeError, "too many positional arguments")
        for p, d in zip(a.kwonlyargs, a.kw_defaults):
            if p.arg in kwargs:
                env.vars[p.arg] = kwargs.pop(p.arg)
            elif d is not None:
                env.vars[p.arg] = self.eval(d, defframe)
            else:
                self.raise_builtin(TypeError, f"missing kw argument {p.arg}")
        if a.kwarg is not None:
            env.vars[a.kwarg.arg] = PDict(kwargs)
        elif kwargs:
            self.raise_builtin(TypeError, f"unexpected keyword {list(kwargs)}")
        return env

    @staticmethod
    def _is_generator(node):
        for n in ast.walk(node):
            if isinstance(n, (ast.Yield, ast.YieldFrom)):
                # ignore yields of nested function definitions
                return _owns_yield(node)
        return False

    def invoke(self, func, args, kwargs):
        """run the body of an interpreted function (inlining)"""
        env = self.bind_args(func, args, kwargs)
        frame = Frame(func, env)
        if _owns_yield(func.node):
            return GenValue(self._gen_body(func, frame), func)
        self.depth += 1
        self.frames.append(frame)
        try:
            for _ in self.exec_block(func.node.body, frame):
                raise OutOfReach("yield in a non-generator function")
        except _Return as r:
            return r.value
        finally:
            self.frames.pop()
            self.depth -= 1
        return None

    def _gen_body(self, func, frame):
        self.frames.append(frame)
        try:
            yield from self.exec_block(func.node.body, frame)
        except _Return:
            return
        finally:
            if frame in self.frames:
                self.frames.remove(frame)

    def call(self, fv, args, kwargs, frame=None, node=None):
        if isinstance(fv, Bound):
            return self.call(fv.func, [fv.self_obj] + list(args), kwargs,
                             frame, node)
        if isinstance(fv, Func):
            c = self.registry.get(fv.qualname)
            if fv.qualname in self.opt.get("inline", ()):
                c = None        # this verification asks for the real body
            if c is not None and not (self.target == fv.qualname
                                      and self.depth == 0) and not c.inline:
                return c.apply(self, args, kwargs, frame, node)
            if c is None and not fv.is_spec and fv.env is None and \
                    not self.opt.get("inline_all") and \
                    fv.qualname not in self.opt.get("inline", ()):
                raise OutOfReach(f"call to {fv.qualname}: no contract and "
                                 f"not marked inline")
            return self.invoke(fv, args, kwargs)
        if isinstance(fv, BuiltinMethod):
            return self.lib.method(self, fv.recv, fv.name, args, kwargs)
        model = self.lib.find_model(fv)
        if model is not None:
            return model(self, args, kwargs)
        if isinstance(fv, types.FunctionType):
            cls = None
            return self.call(self.as_func(fv, cls), args, kwargs, frame, node)
        if isinstance(fv, types.MethodType):
            return self.call(self.as_func(fv.__func__),
                             [fv.__self__] + list(args), kwargs, frame, node)
        if isinstance(fv, type):
            return self.construct(fv, args, kwargs, frame, node)
        if isinstance(fv, Contract_):
            return fv.apply(self, args, kwargs, frame, node)
        if isinstance(fv, (types.BuiltinMethodType, types.MethodWrapperType)) and \
                not isinstance(getattr(fv, "__self__", None), types.ModuleType) and \
                all(isinstance(a, (int, str, bytes, bool, type(None), float, tuple, enum.Enum, type))
                    for a in list(args) + list(kwargs.values())):
            # a method of a real, concrete Python object (str.islower,
            # mappingproxy.items, ...) applied to concrete arguments
            try:
                return fv(*args, **kwargs)
            except Exception as e:
                self.raise_builtin(type(e), *e.args)
        raise OutOfReach(f"call of unsupported callable {fv!r}")

    def construct(self, cls, args, kwargs, frame, node):
        if issubclass(cls, BaseException):
            return self.make_exc(cls, *args)
        if issubclass(cls, enum.Enum):
            return self.lib.enum_from_value(self, cls, args[0])
        m = self.lib.find_model(cls)
        if m is not None:
            return m(self, args, kwargs)
        c = self.registry.get(f"{cls.__module__}:{cls.__qualname__}.__new__")
        if c is not None:
            return c.apply(self, args, kwargs, frame, node)
        if cls.__module__.startswith(("ebpfcat", "contracts", "props")):
            o = Obj(cls, {}, self.fresh_name(cls.__name__))
            owner, init = self.find_method(cls, "__init__")
            if init is not None and isinstance(init, types.FunctionType):
                self.call(self.as_func(init, owner), [o] + list(args), kwargs,
                          frame, node)
            return o
        raise OutOfReach(f"construction of {cls!r}")

    # ----------------------------------------------------------- attributes
    def getattr(self, v, name, frame=None):
        if isinstance(v, Obj):
            # a data descriptor of the class (defines __set__) takes
            # precedence over the instance dictionary, as in Python
            if name in v.fields:
                o_, raw_ = self.find_method(v.cls, name)
                if o_ is not None and hasattr(type(raw_), "__get__") and hasattr(type(raw_), "__set__") \
                        and type(raw_).__module__.startswith("ebpfcat") and not isinstance(raw_, property):
                    hook = self.opt.get("descriptor_get")
                    r = hook(self, v, name, raw_) if hook is not None else NotImplemented
                    if r is not NotImplemented:
                        return r
                    o, g = self.find_method(type(raw_), "__get__")
                    return self.call(self.as_func(g, o), [raw_, v, v.cls], {}, frame)
            if name in v.fields:
                val = v.fields[name]
                if val is Unbound:
                    self.raise_builtin(AttributeError, name)
                return val
            if name == "__class__":
                return v.cls
            if name == "__dict__":
                return _ObjDict(v)
            owner, raw = self.find_method(v.cls, name)
            if owner is None:
                hook = self.opt.get("missing_attr")
                if hook is not None:
                    return hook(self, v, name)
                self.raise_builtin(AttributeError, name)
            if isinstance(raw, types.FunctionType):
                return Bound(self.as_func(raw, owner), v)
            if isinstance(raw, property):
                return self.call(self.as_func(raw.fget, owner), [v], {}, frame)
            if isinstance(raw, (staticmethod,)):
                return self.as_func(raw.__func__, owner)
            if isinstance(raw, classmethod):
                return Bound(self.as_func(raw.__func__, owner), v.cls)
            if hasattr(type(raw), "__get__") and \
                    type(raw).__module__.startswith("ebpfcat"):
                hook = self.opt.get("descriptor_get")
                if hook is not None:
                    r = hook(self, v, name, raw)
                    if r is not NotImplemented:
                        return r
                o, g = self.find_method(type(raw), "__get__")
                return self.call(self.as_func(g, o), [raw, v, v.cls], {}, frame)
            return raw
        if isinstance(v, SymEnum):
            if name == "value":
                return Sym(v.t, INT)
            if name == "name":
                return OpaqueStr()
            raise OutOfReach(f"attribute {name} of a symbolic enum member")
        if isinstance(v, (PList, SymList, PDict, PSet, SymSet, SymMap,
                          MutBytes, _ObjDict)) or \
                (isinstance(v, Sym) and v.ty == BYTES) or \
                isinstance(v, (bytes, bytearray, str, tuple, dict, list, set)):
            return BuiltinMethod(v, name)
        if isinstance(v, Ghost):
            raise OutOfReach(f"attribute {name} of ghost {v}")
        if isinstance(v, GenValue) or type(v).__name__ in ("JoinList", "StructObj", "RevSlice"):
            if type(v).__name__ == "StructObj" and name == "size":
                return v.size
            return BuiltinMethod(v, name)
        if isinstance(v, type):
            owner, raw = self.find_method(v, name)
            if owner is not None and isinstance(raw, types.FunctionType):
                return self.as_func(raw, owner)
            if owner is not None and isinstance(raw, classmethod):
                return Bound(self.as_func(raw.__func__, owner), v)
        if isinstance(v, (Sym, Func, Bound)):
            raise OutOfReach(f"attribute {name} of {v!r}")
        # real python object (module, enum member, descriptor, ...)
        try:
            r = getattr(v, name)
        except AttributeError:
            self.raise_builtin(AttributeError, name)
        if isinstance(r, types.MethodType) and \
                getattr(r.__func__, "__module__", "").startswith(("ebpfcat", "contracts")):
            return Bound(self.as_func(r.__func__, type(v)), v)
        return r

    def setattr(self, v, name, value, frame=None):
        if isinstance(v, Obj):
            owner, raw = self.find_method(v.cls, name)
            if owner is not None and hasattr(type(raw), "__set__") and \
                    type(raw).__module__.startswith("ebpfcat") and \
                    not isinstance(raw, property):
                hook = self.opt.get("descriptor_set")
                if hook is not None:
                    r = hook(self, v, name, raw, value)
                    if r is not NotImplemented:
                        return
                o, s = self.find_method(type(raw), "__set__")
                self.call(self.as_func(s, o), [raw, v, value], {}, frame)
                return
            if isinstance(raw, property) and raw.fset is not None:
                self.call(self.as_func(raw.fset, owner), [v, value], {}, frame)
                return
            v.fields[name] = value
            return
        raise OutOfReach(f"attribute assignment on {v!r}")

    # ---------------------------------------------------------- expressions
    def eval(self, node, frame):
        m = getattr(self, "e_" + type(node).__name__, None)
        if m is None:
            raise OutOfReach(f"expression {type(node).__name__} "
                             f"(line {getattr(node, 'lineno', '?')})")
        return m(node, frame)

    def e_Constant(self, node, frame):
        return node.value

    def e_Name(self, node, frame):
        return self.lookup(node.id, frame)

    def e_JoinedStr(self, node, frame):
        # the text is not modelled, but the pieces are evaluated (they may
        # raise), and formatting None with a format specification is a
        # TypeError (NoneType.__format__ accepts only the empty one)
        parts = []
        for part in node.values:
            if isinstance(part, ast.FormattedValue):
                v = self.eval(part.value, frame)
                spec = part.format_spec
                if spec is not None and any(not (isinstance(x, ast.Constant) and x.value == "")
                                            for x in spec.values) and v is None:
                    self.raise_builtin(TypeError, "unsupported format string passed to NoneType.__format__")
                parts.append(v)
            elif isinstance(part, ast.Constant):
                parts.append(part.value)
        return OpaqueStr(parts)

    @staticmethod
    def mangle(name, frame):
        """class-private names (__x inside a class body) are mangled by the
        compiler; the AST still has the source spelling"""
        cls = getattr(frame.func, "cls", None)
        if cls is not None and name.startswith("__") and not name.endswith("__"):
            return f"_{cls.__name__.lstrip('_')}{name}"
        return name

    def e_Attribute(self, node, frame):
        return self.getattr(self.eval(node.value, frame),
                            self.mangle(node.attr, frame), frame)

    def e_Tuple(self, node, frame):
        return tuple(self.eval_seq(node.elts, frame))

    def e_List(self, node, frame):
        return PList(self.eval_seq(node.elts, frame))

    def e_Set(self, node, frame):
        return PSet(self.eval_seq(node.elts, frame))

    def e_Dict(self, node, frame):
        d = PDict()
        for k, v in zip(node.keys, node.values):
            if k is None:
                src = self.eval(v, frame)
                d.d.update(src.d)
            else:
                d.d[self.hashable(self.eval(k, frame))] = self.eval(v, frame)
        return d

    def hashable(self, k):
        if isinstance(k, Sym):
            c = concrete_int(k.t) if k.ty == INT else None
            if c is None:
                raise OutOfReach("symbolic value used as a dict key")
            return c
        return k

    def eval_seq(self, elts, frame):
        out = []
        for e in elts:
            if isinstance(e, ast.Starred):
                out += self.iterate_concrete(self.eval(e.value, frame))
            else:
                out.append(self.eval(e, frame))
        return out

    def iterate_concrete(self, v):
        """elements of a value whose length is concrete on this path"""
        if isinstance(v, (tuple, list)):
            return list(v)
        if isinstance(v, PList):
            return list(v.items)
        if isinstance(v, PDict):
            return list(v.d.keys())
        if isinstance(v, PSet):
            return list(v.s)
        if isinstance(v, (bytes, bytearray, range, dict, set, frozenset)):
            return list(v)
        if isinstance(v, type) and issubclass(v, enum.Enum):
            return list(v)
        if type(v).__name__ in ("dict_items", "dict_keys", "dict_values", "mappingproxy"):
            return list(v)        # views of a real, concrete mapping
        if isinstance(v, _Items):
            return v.items
        if isinstance(v, GenValue):
            out = []
            while True:
                try:
                    out.append(next(v.gen))
                except StopIteration:
                    return out
        if isinstance(v, Sym) and v.ty == BYTES:
            n = concrete_int(ops.b_len(v.t))
            if n is not None:
                return [ops.bindex(self, v, i) for i in range(n)]
        from .values import SymTuple
        if isinstance(v, SymTuple):
            k = None
            for cand in v.lens[:-1]:
                if self.fork(v.n == cand, f"tuple tail arity == {cand}"):
                    k = cand
                    break
            if k is None:
                k = v.lens[-1]
                self.assume(v.n == k)
            return list(v.fixed) + v.rest[:k]
        from .lib import SymRange
        if isinstance(v, SymRange) and "unroll_limit" in self.opt:
            # bounded unrolling of a range of symbolic length (the contract
            # states the bound; beyond it the path is out of reach)
            a = v.args
            lo, hi = (0, a[0]) if len(a) == 1 else (a[0], a[1])
            step = a[2] if len(a) > 2 else 1
            if not isinstance(step, int) or step <= 0:
                raise OutOfReach("range with a symbolic or non-positive step")
            lo_t, hi_t = lift_int(lo), lift_int(hi)
            n = z3.If(hi_t > lo_t, (hi_t - lo_t + step - 1) / step, 0)
            for k in range(self.opt["unroll_limit"] + 1):
                if self.fork(n == k, f"range of {k} elements"):
                    return [Sym(z3.simplify(lo_t + i * step), INT) for i in range(k)]
            raise OutOfReach(f"range of more than {self.opt['unroll_limit']} elements (unroll_limit)")
        raise OutOfReach(f"iteration over {v!r} needs a loop invariant")

    def e_UnaryOp(self, node, frame):
        v = self.eval(node.operand, frame)
        if isinstance(node.op, ast.Not):
            t = self.truth_term(v)
            if t is not None:
                return mk_bool(z3.Not(t))
            return not self.truth(v)
        if isinstance(node.op, ast.USub):
            if isinstance(v, (int, float)):
                return -v
            if isinstance(v, Sym) and v.ty == REAL:
                return Sym(-v.t, REAL)
            return mk_int(-lift_int(v))
        if isinstance(node.op, ast.UAdd):
            return v
        if isinstance(node.op, ast.Invert):
            if isinstance(v, int):
                return ~v
            return mk_int(-lift_int(v) - 1)
        raise OutOfReach("unary operator")

    _BINOPS = {ast.Add: "+", ast.Sub: "-", ast.Mult: "*", ast.FloorDiv: "//",
               ast.Mod: "%", ast.BitAnd: "&", ast.BitOr: "|", ast.BitXor: "^",
               ast.LShift: "<<", ast.RShift: ">>", ast.Div: "/", ast.Pow: "**"}

    def e_BinOp(self, node, frame):
        a = self.eval(node.left, frame)
        b = self.eval(node.right, frame)
        return self.binop(self._BINOPS[type(node.op)], a, b, frame)

    def binop(self, op, a, b, frame=None):
        if ops.is_intlike(a) and ops.is_intlike(b) or \
                ((ops.is_real(a) or ops.is_intlike(a)) and
                 (ops.is_real(b) or ops.is_intlike(b))):
            if isinstance(a, (int, float)) and isinstance(b, (int, float)) \
                    and not isinstance(a, Sym) and not isinstance(b, Sym):
                try:
                    return eval(f"a {op} b", {"a": a, "b": b})
                except ZeroDivisionError:
                    self.raise_builtin(ZeroDivisionError)
            return ops.arith(self, op, a, b)
        if op == "+":
            if is_byteslike(a) and is_byteslike(b):
                return ops.bconcat(a, b)
            if isinstance(a, tuple) and isinstance(b, tuple):
                return a + b
            if isinstance(a, PList) and isinstance(b, PList):
                return PList(a.items + b.items)
            if isinstance(a, str) and isinstance(b, str):
                return a + b
            if isinstance(a, (str, OpaqueStr)) and isinstance(b, (str, OpaqueStr)):
                return OpaqueStr([a, b])
        if op == "*":
            if is_byteslike(a) and ops.is_intlike(b):
                return self.bytes_repeat(a, b)
            if is_byteslike(b) and ops.is_intlike(a):
                return self.bytes_repeat(b, a)
            if isinstance(a, PList) and isinstance(b, int):
                return PList(a.items * b)
            if isinstance(a, PList) and isinstance(b, Sym):
                return self.lib.list_repeat(self, a, b)
            if isinstance(a, str) and isinstance(b, int):
                return a * b
        if op == "%" and isinstance(a, str):
            return OpaqueStr()
        if op == "|" and isinstance(a, PSet) and isinstance(b, PSet):
            return PSet(a.s | b.s)
        if op == "&" and isinstance(a, PSet) and isinstance(b, PSet):
            return PSet(a.s & b.s)
        if op == "-" and isinstance(a, PSet) and isinstance(b, PSet):
            return PSet(a.s - b.s)
        raise OutOfReach(f"operator {op} on {a!r} and {b!r}")

    def bytes_repeat(self, b, n):
        if isinstance(b, (bytes, bytearray)) and isinstance(n, int):
            return bytes(b) * n
        if isinstance(b, (bytes, bytearray)) and len(b) == 1:
            return ops.zeros(self, n, b[0])
        raise OutOfReach("repetition of a symbolic byte string")

    def e_BoolOp(self, node, frame):
        is_and = isinstance(node.op, ast.And)
        # evaluate lazily; combine as z3 term when all operands are boolean
        terms = []
        last = None
        for i, e in enumerate(node.values):
            v = self.eval(e, frame)
            last = v
            is_last = i == len(node.values) - 1
            if isinstance(v, bool) or (isinstance(v, Sym) and v.ty == BOOL):
                t = lift_bool(v)
                c = concrete_bool(t)
                if c is not None:
                    if c != is_and:       # short circuit
                        if terms:
                            comb = z3.And(*terms) if is_and else z3.Or(*terms)
                            return mk_bool(z3.And(comb, t) if is_and
                                           else z3.Or(comb, t))
                        return v
                    continue
                if is_last or self._pure(node.values[i + 1:]):
                    terms.append(t)
                    continue
            # non boolean operand, or later operands have effects: fork
            if terms:
                # settle the symbolic booleans collected so far (python
                # returns the first operand that decides the result, which
                # for booleans is False / True itself)
                comb = z3.And(*terms) if is_and else z3.Or(*terms)
                if self.fork(comb, "boolop prefix") != is_and:
                    return not is_and
                terms = []
            tr = self.truth(v, "boolop")
            if tr != is_and:
                return v
        if terms:
            return mk_bool(z3.And(*terms) if is_and else z3.Or(*terms))
        return last

    def _pure(self, nodes):
        """can these expressions be evaluated eagerly (no calls that may
        raise or have effects)?  conservative syntactic test"""
        for n in nodes:
            for s in ast.walk(n):
                if isinstance(s, (ast.Await, ast.NamedExpr, ast.Yield)):
                    return False
                if isinstance(s, ast.Call):
                    f = s.func
                    ok = isinstance(f, ast.Name) and f.id in (
                        "len", "isinstance", "all", "any", "implies", "range",
                        "int", "bool", "abs", "min", "max", "sum") or \
                        self.opt.get("spec_mode")
                    if not ok:
                        return False
                if isinstance(s, ast.Subscript) and not self.opt.get("spec_mode"):
                    return False
        return True

    def e_IfExp(self, node, frame):
        c = self.eval(node.test, frame)
        t = self.truth_term(c)
        if t is not None and self.opt.get("spec_mode"):
            cb = concrete_bool(t)
            if cb is None:
                a = self.eval(node.body, frame)
                b = self.eval(node.orelse, frame)
                try:
                    return self.ite(t, a, b)
                except OutOfReach:
                    # values without a common sort (str, mixed): decide the
                    # condition on this path instead
                    return a if self.fork(t, "ifexp") else b
        if self.truth(c, "ifexp"):
            return self.eval(node.body, frame)
        return self.eval(node.orelse, frame)

    def ite(self, t, a, b):
        if ops.is_intlike(a) and ops.is_intlike(b):
            if (isinstance(a, bool) or (isinstance(a, Sym) and a.ty == BOOL)) and \
                    (isinstance(b, bool) or (isinstance(b, Sym) and b.ty == BOOL)):
                return mk_bool(z3.If(t, lift_bool(a), lift_bool(b)))
            return mk_int(z3.If(t, lift_int(a), lift_int(b)))
        if is_byteslike(a) and is_byteslike(b):
            return Sym(z3.If(t, lift_bytes(a), lift_bytes(b)), BYTES)
        if isinstance(a, tuple) and isinstance(b, tuple) and len(a) == len(b):
            return tuple(self.ite(t, x, y) for x, y in zip(a, b))
        if (isinstance(a, SymEnum) or isinstance(a, enum.Enum)) and \
                (isinstance(b, SymEnum) or isinstance(b, enum.Enum)):
            ta = a.t if isinstance(a, SymEnum) else z3.IntVal(a.value)
            tb = b.t if isinstance(b, SymEnum) else z3.IntVal(b.value)
            cls = a.cls if isinstance(a, SymEnum) else type(a)
            return SymEnum(cls, z3.If(t, ta, tb))
        if ops.is_real(a) or ops.is_real(b):
            from .values import lift_real
            return Sym(z3.If(t, lift_real(a), lift_real(b)), REAL)
        raise OutOfReach(f"conditional expression over {a!r} / {b!r}")

    def e_Compare(self, node, frame):
        left = self.eval(node.left, frame)
        result = None
        for op, rn in zip(node.ops, node.comparators):
            right = self.eval(rn, frame)
            r = self.compare(op, left, right)
            if result is None:
                result = r
            else:
                ta, tb = self.truth_term(result), self.truth_term(r)
                result = mk_bool(z3.And(ta, tb))
            if result is False:
                return False
            left = right
        return result

    def compare(self, op, a, b):
        if isinstance(op, ast.Eq):
            return ops.values_equal(self, a, b)
        if isinstance(op, ast.NotEq):
            r = ops.values_equal(self, a, b)
            return (not r) if isinstance(r, bool) else mk_bool(z3.Not(r.t))
        if isinstance(op, (ast.Is, ast.IsNot)):
            r = self.identical(a, b)
            if isinstance(op, ast.IsNot):
                r = (not r) if isinstance(r, bool) else mk_bool(z3.Not(r.t))
            return r
        if isinstance(op, (ast.In, ast.NotIn)):
            r = self.lib.contains(self, b, a)
            if isinstance(op, ast.NotIn):
                r = (not r) if isinstance(r, bool) else mk_bool(z3.Not(r.t))
            return r
        sym = {ast.Lt: "<", ast.LtE: "<=", ast.Gt: ">", ast.GtE: ">="}[type(op)]
        return ops.order(self, sym, a, b)

    def identical(self, a, b):
        from .values import SymOpt
        if isinstance(a, SymEnum) or isinstance(b, SymEnum) or \
                isinstance(a, SymOpt) or isinstance(b, SymOpt):
            return ops.values_equal(self, a, b)
        if a is None or b is None:
            if isinstance(a, Sym) or isinstance(b, Sym):
                return False
            return a is b
        if isinstance(a, (Sym, int, bool)) and isinstance(b, (Sym, int, bool)):
            # `is` on small ints / bools: equality (bools are singletons)
            return ops.values_equal(self, a, b)
        return a is b

    def e_Subscript(self, node, frame):
        v = self.eval(node.value, frame)
        if isinstance(node.slice, ast.Slice):
            lo = self.eval(node.slice.lower, frame) if node.slice.lower else None
            hi = self.eval(node.slice.upper, frame) if node.slice.upper else None
            st = self.eval(node.slice.step, frame) if node.slice.step else None
            return self.lib.getslice(self, v, lo, hi, st)
        idx = self.eval(node.slice, frame)
        return self.lib.getitem(self, v, idx)

    def e_Call(self, node, frame):
        # logging is effect free for the properties (assumption A-LOG)
        f = node.func
        if isinstance(f, ast.Attribute) and isinstance(f.value, ast.Name) \
                and f.value.id == "logging":
            # A-LOG: the logging call itself has no effect; its arguments are
            # evaluated first, as Python does (an f-string may raise)
            for a in node.args:
                if isinstance(a, ast.JoinedStr):
                    self.eval(a, frame)
            return None
        if isinstance(f, ast.Name) and f.id == "super" and not node.args:
            return _Super(frame)
        if isinstance(f, ast.Name) and f.id == "super" and len(node.args) == 2 \
                and not frame.env.has("super"):
            # super(Class, obj): the MRO of obj after Class
            cls = self.eval(node.args[0], frame)
            obj = self.eval(node.args[1], frame)
            if isinstance(cls, type):
                return _Super(frame, cls, obj)
        fv = self.eval(f, frame)
        if fv in (all, any) and node.args and \
                isinstance(node.args[0], ast.GeneratorExp):
            return self.quantifier(fv is all, node.args[0], frame)
        args = self.eval_seq(node.args, frame)
        kwargs = {}
        for kw in node.keywords:
            if kw.arg is None:
                d = self.eval(kw.value, frame)
                kwargs.update(d.d if isinstance(d, PDict) else d)
            else:
                kwargs[kw.arg] = self.eval(kw.value, frame)
        if isinstance(fv, _Super):
            raise OutOfReach("call of super object")
        return self.call(fv, args, kwargs, frame, node)

    def e_Lambda(self, node, frame):
        fn = ast.FunctionDef(name="<lambda>", args=node.args,
                             body=[ast.Return(value=node.body)],
                             decorator_list=[], lineno=node.lineno,
                             col_offset=0)
        return Func(fn, frame.env, frame.func.qualname + ".<lambda>",
                    frame.func.module, frame.func.cls, frame.func.is_spec)

    def e_Await(self, node, frame):
        v = self.eval(node.value, frame)
        v = self.lib.await_value(self, v, frame, node)
        if not frame.func.is_spec:
            # awaits inside contract/model code are not suspension points of
            # the program under verification
            self.interference(frame, node)
        return v

    def interference(self, frame, node, cancel=True):
        """an await is an interference point: other tasks may run (rely),
        and the task may be cancelled here"""
        self.await_count += 1
        hook = self.opt.get("rely")
        if hook is not None:
            hook(self, frame, node)
        if cancel and self.opt.get("cancellation") and "cancelled_at" not in self.ghost:
            # one cancellation per run: a second one while the clean-up
            # code runs is outside the properties
            if self.choose(2, f"cancelled at await #{self.await_count} "
                              f"(line {node.lineno})") == 1:
                import asyncio
                self.ghost["cancelled_at"] = (self.await_count, node.lineno)
                self.raise_builtin(asyncio.CancelledError)

    def e_NamedExpr(self, node, frame):
        v = self.eval(node.value, frame)
        frame.env.set(node.target.id, v)
        return v

    def e_ListComp(self, node, frame):
        return PList(self.comprehension(node.elt, node.generators, frame))

    def e_GeneratorExp(self, node, frame):
        return PList(self.comprehension(node.elt, node.generators, frame))

    def e_SetComp(self, node, frame):
        return PSet(self.comprehension(node.elt, node.generators, frame))

    def e_DictComp(self, node, frame):
        pair = ast.Tuple(elts=[node.key, node.value], ctx=ast.Load())
        out = PDict()
        for k, v in self.comprehension(pair, node.generators, frame):
            out.d[self.hashable(k)] = v
        return out

    def comprehension(self, elt, gens, frame):
        hook = self.opt.get("comprehension")
        if hook is not None:
            r = hook(self, elt, gens, frame)
            if r is not NotImplemented:
                return r
        out = []

        def rec(i, env):
            f2 = Frame(frame.func, env)
            f2.loop_no = frame.loop_no
            if i == len(gens):
                out.append(self.eval(elt, f2))
                return
            g = gens[i]
            for item in self.iterate_concrete(self.eval(g.iter, f2)):
                e2 = Env(env)
                f3 = Frame(frame.func, e2)
                self.assign(g.target, item, f3)
                if all(self.truth(self.eval(c, f3), "comprehension filter")
                       for c in g.ifs):
                    rec(i + 1, e2)
        rec(0, Env(frame.env))
        return out

    def quantifier(self, is_all, gen, frame):
        """all(...)/any(...) over range(...) with symbolic bounds -> forall /
        exists; over concrete iterables -> conjunction"""
        if len(gen.generators) != 1:
            vals = self.comprehension(gen.elt, gen.generators, frame)
            terms = [self.truth_term(v) for v in vals]
            if any(t is None for t in terms):
                raise OutOfReach("non-boolean quantifier body")
            if not terms:
                return is_all
            return mk_bool(z3.And(*terms) if is_all else z3.Or(*terms))
        g = gen.generators[0]
        it = g.iter
        sym_range = None
        if isinstance(it, ast.Call) and isinstance(it.func, ast.Name) \
                and it.func.id == "range":
            bounds = [self.eval(a, frame) for a in it.args]
            if any(isinstance(b, Sym) for b in bounds):
                sym_range = bounds
        if sym_range is None:
            vals = self.comprehension(gen.elt, gen.generators, frame)
            terms = [self.truth_term(v) for v in vals]
            if any(t is None for t in terms):
                raise OutOfReach("non-boolean quantifier body")
            if not terms:
                return is_all
            return mk_bool(z3.And(*terms) if is_all else z3.Or(*terms))
        lo, hi = (0, sym_range[0]) if len(sym_range) == 1 else sym_range[:2]
        j = z3.Int(self.fresh_name("q_" + g.target.id))
        env = Env(frame.env)
        env.vars[g.target.id] = Sym(j, INT)
        f2 = Frame(frame.func, env)
        saved_pc = self.pc
        self.pc = list(saved_pc)
        rng = z3.And(j >= lift_int(lo), j < lift_int(hi))
        self.pc.append(rng)
        n0 = len(self.pc)
        forked0, self._quant_forked = getattr(self, "_quant_forked", False), False
        conds = [self.truth_term(self.eval(c, f2)) for c in g.ifs]
        body = self.truth_term(self.eval(gen.elt, f2))
        facts = self.pc[n0:]
        self.pc = saved_pc
        forked, self._quant_forked = self._quant_forked, forked0 or self._quant_forked
        if body is None:
            raise OutOfReach("non-boolean quantifier body")
        guard = z3.And(rng, *conds) if conds else rng
        if facts and not forked:
            # the facts are type invariants of the elements the body touches:
            # true at every index, whatever the polarity in which the
            # quantifier is used (antecedent of an implies(), under not)
            self.pc.append(z3.ForAll([j], z3.Implies(guard, z3.And(*facts))))
        if is_all:
            # `facts` are type invariants of the elements touched by the body
            # (ranges of list elements of a schema): true for every index.
            # In a clause that is being *assumed* they are conjoined, so that
            # the hypothesis is not weakened to "typed(elem) -> body".
            if facts and self.opt.get("assume_mode"):
                inner = z3.And(body, *facts)
            else:
                inner = z3.Implies(z3.And(*facts), body) if facts else body
            return Sym(z3.ForAll([j], z3.Implies(guard, inner)), BOOL)
        inner = z3.And(body, *facts) if facts else body
        return Sym(z3.Exists([j], z3.And(guard, inner)), BOOL)

    # ----------------------------------------------------------- assignment
    def assign(self, target, value, frame):
        if isinstance(target, ast.Name):
            if isinstance(value, PList) and \
                    frame.env.has("__joinlist__" + target.id):
                from .lib import JoinList, _jl_append
                j = JoinList()
                for it in value.items:
                    _jl_append(self, j, it)
                value = j
            frame.env.set(target.id, value)
        elif isinstance(target, ast.Attribute):
            self.setattr(self.eval(target.value, frame), target.attr, value,
                         frame)
        elif isinstance(target, ast.Subscript):
            obj = self.eval(target.value, frame)
            if isinstance(target.slice, ast.Slice):
                sl = target.slice
                lo = self.eval(sl.lower, frame) if sl.lower else None
                hi = self.eval(sl.upper, frame) if sl.upper else None
                self.lib.setslice(self, obj, lo, hi, value)
            else:
                self.lib.setitem(self, obj, self.eval(target.slice, frame),
                                 value)
        elif isinstance(target, (ast.Tuple, ast.List)):
            items = self.unpack(value, target.elts)
            for t, v in zip(target.elts, items):
                if isinstance(t, ast.Starred):
                    self.assign(t.value, PList(v), frame)
                else:
                    self.assign(t, v, frame)
        else:
            raise OutOfReach(f"assignment target {type(target).__name__}")

    def unpack(self, value, elts):
        items = self.iterate_concrete(value)
        star = [i for i, e in enumerate(elts) if isinstance(e, ast.Starred)]
        if not star:
            if len(items) != len(elts):
                self.raise_builtin(ValueError, "unpack")
            return items
        s = star[0]
        after = len(elts) - s - 1
        if len(items) < len(elts) - 1:
            self.raise_builtin(ValueError, "unpack")
        return items[:s] + [items[s:len(items) - after]] + \
            (items[len(items) - after:] if after else [])

    # ------------------------------------------------------------ statements
    def exec_block(self, stmts, frame):
        for s in stmts:
            yield from self.exec(s, frame)

    def exec(self, node, frame):
        m = getattr(self, "s_" + type(node).__name__, None)
        if m is None:
            raise OutOfReach(f"statement {type(node).__name__} "
                             f"(line {node.lineno})")
        r = m(node, frame)
        if r is not None:
            yield from r

    def s_Expr(self, node, frame):
        if isinstance(node.value, ast.Yield):
            v = self.eval(node.value.value, frame) if node.value.value else None
            yield v
            return
        if isinstance(node.value, ast.Constant):
            return
        self.eval(node.value, frame)

    def s_Pass(self, node, frame):
        return None

    def s_Import(self, node, frame):
        return None

    def s_ImportFrom(self, node, frame):
        import importlib
        pkg = frame.func.module.__package__ if frame.func.module else None
        mod = importlib.import_module("." * node.level + (node.module or ""),
                                      pkg)
        for a in node.names:
            frame.env.set(a.asname or a.name, getattr(mod, a.name))

    def s_Assign(self, node, frame):
        if isinstance(node.value, ast.Yield):
            raise OutOfReach("value of a yield expression")
        v = self.eval(node.value, frame)
        for t in node.targets:
            self.assign(t, v, frame)

    def s_AnnAssign(self, node, frame):
        if node.value is not None:
            self.assign(node.target, self.eval(node.value, frame), frame)

    def s_AugAssign(self, node, frame):
        op = self._BINOPS[type(node.op)]
        t = node.target
        if isinstance(t, ast.Name):
            cur = self.lookup(t.id, frame)
            new = self.lib.inplace(self, op, cur, self.eval(node.value, frame))
            frame.env.set(t.id, new)
        elif isinstance(t, ast.Attribute):
            obj = self.eval(t.value, frame)
            cur = self.getattr(obj, t.attr, frame)
            new = self.lib.inplace(self, op, cur, self.eval(node.value, frame))
            self.setattr(obj, t.attr, new, frame)
        elif isinstance(t, ast.Subscript):
            obj = self.eval(t.value, frame)
            idx = self.eval(t.slice, frame)
            cur = self.lib.getitem(self, obj, idx)
            new = self.lib.inplace(self, op, cur, self.eval(node.value, frame))
            self.lib.setitem(self, obj, idx, new)
        else:
            raise OutOfReach("augmented assignment target")

    def s_Return(self, node, frame):
        raise _Return(self.eval(node.value, frame) if node.value else None)

    def s_Break(self, node, frame):
        raise _Break()

    def s_Continue(self, node, frame):
        raise _Continue()

    def s_Nonlocal(self, node, frame):
        frame.env.nonlocals.update(node.names)

    def s_Global(self, node, frame):
        raise OutOfReach("global statement")

    def s_Delete(self, node, frame):
        for t in node.targets:
            if isinstance(t, ast.Subscript):
                self.lib.delitem(self, self.eval(t.value, frame),
                                 self.eval(t.slice, frame))
            elif isinstance(t, ast.Name):
                frame.env.set(t.id, Unbound)
            else:
                raise OutOfReach("del target")

    def s_Assert(self, node, frame):
        v = self.eval(node.test, frame)
        if not self.truth(v, f"assert line {node.lineno}"):
            self.raise_builtin(AssertionError)

    def s_Raise(self, node, frame):
        if node.exc is None:
            if frame.current_exc is None:
                raise OutOfReach("bare raise outside handler")
            raise PyRaise(frame.current_exc)
        e = self.eval(node.exc, frame)
        if isinstance(e, type) and issubclass(e, BaseException):
            e = self.make_exc(e)
        if not isinstance(e, Obj):
            raise OutOfReach(f"raise of {e!r}")
        raise PyRaise(e)

    def s_If(self, node, frame):
        if self.truth(self.eval(node.test, frame), f"if line {node.lineno}"):
            yield from self.exec_block(node.body, frame)
        else:
            yield from self.exec_block(node.orelse, frame)

    def s_FunctionDef(self, node, frame):
        frame.env.set(node.name, Func(
            node, frame.env, frame.func.qualname + "." + node.name,
            frame.func.module, frame.func.cls, frame.func.is_spec))

    s_AsyncFunctionDef = s_FunctionDef

    def s_Try(self, node, frame):
        try:
            try:
                yield from self.exec_block(node.body, frame)
            except PyRaise as pr:
                handled = False
                for h in node.handlers:
                    if self.exc_matches(pr.exc, h.type, frame):
                        handled = True
                        saved = frame.current_exc
                        frame.current_exc = pr.exc
                        if h.name:
                            frame.env.set(h.name, pr.exc)
                        try:
                            yield from self.exec_block(h.body, frame)
                        finally:
                            frame.current_exc = saved
                            if h.name:
                                # python unbinds the name at the end of the
                                # handler
                                frame.env.set(h.name, Unbound)
                        break
                if not handled:
                    raise
            else:
                yield from self.exec_block(node.orelse, frame)
        finally:
            # note: a `yield` inside finally is not supported when the block
            # is left by an exception of the engine itself
            if node.finalbody:
                exc = sys.exc_info()[1]
                if isinstance(exc, (PathEnd, OutOfReach)) or \
                        isinstance(exc, GeneratorExit):
                    pass
                else:
                    for _ in self.exec_block(node.finalbody, frame):
                        raise OutOfReach("yield inside finally")

    def exc_matches(self, exc, typenode, frame):
        if typenode is None:
            return True
        t = self.eval(typenode, frame)
        classes = t if isinstance(t, tuple) else (t,)
        return any(isinstance(c, type) and issubclass(exc.cls, c)
                   for c in classes)

    # loops -----------------------------------------------------------------
    def loop_spec(self, frame, node):
        """loops are numbered statically: 1-based position among the loop
        statements of the function in source order (nested defs excluded)"""
        ords = _loop_ordinals(frame.func.node)
        no = ords.get(id(node), 0)
        c = self.registry.get(frame.func.qualname)
        if c is None:
            return None, no
        # a contract may also name a loop by its kind ("while1": the first
        # while statement), which survives the insertion of loops of the other kind
        spec = c.loops.get(no)
        if spec is None:
            spec = c.loops.get(ords.get(("kind", id(node))))
        return spec, no

    def s_While(self, node, frame):
        spec, no = self.loop_spec(frame, node)
        if spec is None:
            # no invariant: only loops that terminate concretely on this path
            n = 0
            while self.truth(self.eval(node.test, frame),
                             f"while line {node.lineno}"):
                n += 1
                if n > self.opt.get("unroll_limit", 64):
                    if self.opt.get("unroll_is_obligation"):
                        # the contract states how often the loop runs: a
                        # feasible path into a further iteration refutes it
                        self.check(f"{self.target_short}.loop{no}.ends_within[{n - 1} iterations]",
                                   z3.BoolVal(False),
                                   f"the loop at line {node.lineno} ends within {n - 1} iterations")
                        raise PathEnd()
                    if self._abstract_loop(node, frame):
                        break
                    raise OutOfReach(f"loop at line {node.lineno} of "
                                     f"{frame.func.qualname} needs an invariant")
                try:
                    yield from self.exec_block(node.body, frame)
                except _Break:
                    return
                except _Continue:
                    continue
            yield from self.exec_block(node.orelse, frame)
            return
        yield from spec.run_while(self, node, frame, no)

    def _abstract_loop(self, node, frame):
        """a while loop without a contract that does not end within the
        unrolling limit: if its body only assigns local names (no break, return,
        yield, await, call with effects on objects is not excluded - see
        below), continue with the weakest invariant: every assigned name
        arbitrary, the condition false.  Sound over-approximation of the
        states after the loop; proofs may fail on it, they cannot wrongly pass."""
        names = set()
        for n in ast.walk(ast.Module(body=node.body, type_ignores=[])):
            if isinstance(n, (ast.Break, ast.Return, ast.Yield, ast.YieldFrom, ast.Await, ast.Call,
                              ast.FunctionDef, ast.AsyncFunctionDef, ast.Raise, ast.Try, ast.With)):
                return False
            if isinstance(n, (ast.Assign, ast.AugAssign, ast.AnnAssign)):
                targets = n.targets if isinstance(n, ast.Assign) else [n.target]
                for t in targets:
                    if not isinstance(t, ast.Name):
                        return False
                    names.add(t.id)
        from .api import fresh_like
        for name in sorted(names):
            cur = frame.env.lookup(name) if frame.env.has(name) else None
            try:
                frame.env.set(name, fresh_like(self, cur, name + "'"))
            except OutOfReach:
                return False
        t = self.truth_term(self.eval(node.test, frame))
        if t is None:
            return False
        self.assume(z3.Not(t))
        self.notes.append(f"loop at line {node.lineno}: abstracted (assigned names arbitrary, condition false)")
        return True

    def s_For(self, node, frame):
        spec, no = self.loop_spec(frame, node)
        it = self.eval(node.iter, frame)
        if spec is not None:
            yield from spec.run_for(self, node, frame, no, it)
            return
        items = self.iterate_concrete(it)
        for item in items:
            self.assign(node.target, item, frame)
            try:
                yield from self.exec_block(node.body, frame)
            except _Break:
                return
            except _Continue:
                continue
        yield from self.exec_block(node.orelse, frame)

    s_AsyncFor = s_For

    # with ------------------------------------------------------------------
    def s_With(self, node, frame):
        yield from self._with(node.items, node.body, frame, node)

    s_AsyncWith = s_With

    def _with(self, items, body, frame, node):
        if not items:
            yield from self.exec_block(body, frame)
            return
        item = items[0]
        cm = self.eval(item.context_expr, frame)
        enter, exit_ = self.lib.context_manager(self, cm, frame, node)
        v = enter()
        if isinstance(node, ast.AsyncWith) and not frame.func.is_spec:
            # other tasks ran while __aenter__ was awaited; a cancellation is
            # delivered *inside* __aenter__ (at its own awaits), there is no
            # suspension point between its return and the body
            self.interference(frame, node, cancel=False)
        if item.optional_vars is not None:
            self.assign(item.optional_vars, v, frame)
        try:
            yield from self._with(items[1:], body, frame, node)
        except PyRaise as pr:
            swallowed = exit_(pr)
            if not swallowed:
                raise
        except (_Return, _Break, _Continue):
            exit_(None)
            raise
        else:
            exit_(None)


class _Super:
    def __init__(self, frame, cls=None, obj=None):
        self.frame, self.cls, self.obj = frame, cls, obj


class _ObjDict:
    """obj.__dict__ view"""

    def __init__(self, obj):
        self.obj = obj


class _Items:
    def __init__(self, items):
        self.items = items


class Contract_:
    """base class so that exec can recognise contract callables"""
    inline = False


_LOOP_ORD = {}


def _loop_ordinals(fnode):
    key = id(fnode)
    if key not in _LOOP_ORD:
        out = {}

        def visit(n):
            for c in ast.iter_child_nodes(n):
                if isinstance(c, (ast.FunctionDef, ast.AsyncFunctionDef,
                                  ast.Lambda, ast.ClassDef)):
                    continue
                if isinstance(c, (ast.For, ast.AsyncFor, ast.While)):
                    kinds["all"] = kinds.get("all", 0) + 1
                    out[id(c)] = kinds["all"]
                    kind = "while" if isinstance(c, ast.While) else "for"
                    kinds[kind] = kinds.get(kind, 0) + 1
                    out[("kind", id(c))] = f"{kind}{kinds[kind]}"
                visit(c)
        kinds = {}
        visit(fnode)
        _LOOP_ORD[key] = (fnode, out)
    return _LOOP_ORD[key][1]


def _owns_yield(fnode):
    """does this function itself (not a nested def/lambda) contain a yield?"""
    stack = list(fnode.body)
    while stack:
        n = stack.pop()
        if isinstance(n, (ast.Yield, ast.YieldFrom)):
            return True
        if isinstance(n, (ast.FunctionDef, ast.AsyncFunctionDef, ast.Lambda,
                          ast.ClassDef)):
            continue
        stack.extend(ast.iter_child_nodes(n))
    return False


def super_getattr(ex, sup, name):
    frame = sup.frame
    if getattr(sup, "cls", None) is not None:
        self_obj, cls = sup.obj, sup.cls
    else:
        self_obj = frame.env.lookup(next(iter(
            [a.arg for a in frame.func.node.args.args])))
        cls = frame.func.cls
    base = self_obj.cls if isinstance(self_obj, Obj) else type(self_obj)
    owner, raw = ex.find_method(base, name, after=cls)
    if owner is None:
        ex.raise_builtin(AttributeError, name)
    if isinstance(raw, types.FunctionType):
        return Bound(ex.as_func(raw, owner), self_obj)
    if raw is object.__init__ or getattr(raw, "__objclass__", None) is object:
        return lambda *a, **k: None
    raise OutOfReach(f"super().{name}")


_orig_getattr = Executor.getattr


def _getattr(self, v, name, frame=None):
    if isinstance(v, _Super):
        return super_getattr(self, v, name)
    return _orig_getattr(self, v, name, frame)


Executor.getattr = _getattr
