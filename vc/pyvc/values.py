"""Symbolic values of the pyvc engine.

Concrete Python values (int, bool, str, bytes, None, tuples, enum members,
classes, real functions) stay what they are.  Everything that depends on a
symbolic input is one of the wrappers below.

bytes-like values are pairs (array Int -> Int, length) wrapped in a z3
datatype `Bytes`; each element inside the length is known to be in 0..255 (the
fact is added to the path condition whenever an element is read).
Concatenation and slicing are lambda arrays, so every obligation about
positions in buffers is linear integer arithmetic over array selects -- no
sequence theory and no int<->bit-vector conversion.  Two byte strings are
equal iff they have the same length and agree below it (`bytes_eq`); z3's own
`==` on Bytes terms is never used for Python equality.
"""
import z3

INT, BOOL, BYTES, REAL = "int", "bool", "bytes", "real"
_B = z3.Datatype("Bytes")
_B.declare("mkb", ("arr", z3.ArraySort(z3.IntSort(), z3.IntSort())),
           ("len", z3.IntSort()))
BytesSort = _B.create()
ZERO_ARR = z3.K(z3.IntSort(), z3.IntVal(0))


def mkb(arr, n):
    return BytesSort.mkb(arr, n)


def b_arr(t):
    if z3.is_app(t) and t.decl().eq(BytesSort.mkb):
        return t.arg(0)
    return BytesSort.arr(t)


def b_len(t):
    if z3.is_app(t) and t.decl().eq(BytesSort.mkb):
        return t.arg(1)
    return BytesSort.len(t)


class Sym:
    """a symbolic scalar/bytes value: z3 term + python type tag"""
    __slots__ = ("t", "ty")

    def __init__(self, t, ty):
        self.t = t
        self.ty = ty

    def __repr__(self):
        return f"Sym<{self.ty}:{self.t}>"

    def __bool__(self):
        raise TypeError("symbolic value used as a Python bool (engine bug): "
                        + repr(self))

    def __hash__(self):
        return hash((self.t.get_id(), self.ty))

    def __eq__(self, other):
        return isinstance(other, Sym) and self.ty == other.ty \
            and self.t.eq(other.t)


class SymEnum:
    """a symbolic member of an Enum class with integer values"""
    __slots__ = ("cls", "t")

    def __init__(self, cls, t):
        self.cls = cls
        self.t = t      # z3 Int: the member's .value

    def __repr__(self):
        return f"SymEnum<{self.cls.__name__}:{self.t}>"


class Obj:
    """a heap object: the real class plus a dict of (symbolic) attributes"""

    def __init__(self, cls, fields=None, name=None):
        self.cls = cls
        self.fields = dict(fields or {})
        self.name = name or cls.__name__

    def snapshot(self):
        o = Obj(self.cls, {}, self.name)
        for k, v in self.fields.items():
            o.fields[k] = snapshot(v)
        return o

    def __repr__(self):
        return f"Obj<{self.name}>"


class MutBytes:
    """bytearray / writable memoryview: a mutable holder of a bytes term"""

    def __init__(self, t):
        self.t = t

    def snapshot(self):
        return MutBytes(self.t)

    def __repr__(self):
        return f"MutBytes<{self.t}>"


class PList:
    """a Python list whose length is concrete on this path"""

    def __init__(self, items=()):
        self.items = list(items)

    def snapshot(self):
        return PList([snapshot(i) for i in self.items])

    def __repr__(self):
        return f"PList{self.items}"


class PDict:
    """a dict whose key set is concrete on this path (keys hashable concrete
    values or enum members)"""

    def __init__(self, d=None):
        self.d = dict(d or {})

    def snapshot(self):
        return PDict({k: snapshot(v) for k, v in self.d.items()})

    def __repr__(self):
        return f"PDict{self.d}"


class PSet:
    def __init__(self, s=()):
        self.s = set(s)

    def snapshot(self):
        return PSet(self.s)


class SymList:
    """a list of unknown length.  Elements follow one schema; every scalar
    leaf of the schema lives in its own z3 array indexed by position."""

    def __init__(self, schema, length, arrays, name):
        self.schema = schema      # element schema (types.T...)
        self.length = length      # z3 Int
        self.arrays = dict(arrays)  # leaf path -> z3 Array(Int -> sort)
        self.name = name

    def snapshot(self):
        return SymList(self.schema, self.length, self.arrays, self.name)

    def __repr__(self):
        return f"SymList<{self.name} len={self.length}>"


class SymTuple:
    """element of a SymList whose schema is a VarTuple: fixed leading
    components plus 1..k trailing ones (arity n is symbolic)"""

    def __init__(self, fixed, n, rest, lens):
        self.fixed = list(fixed)
        self.n = n               # z3 Int: number of trailing components
        self.rest = list(rest)   # values for the maximal tail
        self.lens = tuple(lens)

    def __repr__(self):
        return f"SymTuple<{self.fixed}+{self.n}>"


class SymOpt:
    """an optional int read from a list in spec mode: None is encoded as -1"""

    def __init__(self, t):
        self.t = t

    def __repr__(self):
        return f"SymOpt<{self.t}>"


class SymSet:
    """a set of integers of unknown size: characteristic array Int -> Bool"""

    def __init__(self, arr, name):
        self.arr = arr
        self.name = name

    def snapshot(self):
        return SymSet(self.arr, self.name)


class SymMap:
    """a dict with integer keys of unknown size: domain array + value arrays"""

    def __init__(self, schema, dom, arrays, name):
        self.schema = schema
        self.dom = dom            # Array(Int -> Bool)
        self.arrays = dict(arrays)
        self.name = name

    def snapshot(self):
        return SymMap(self.schema, self.dom, self.arrays, self.name)


class Func:
    """an interpreted function: AST + closure environment"""

    def __init__(self, node, env, qualname, module, cls=None, is_spec=False):
        self.node = node
        self.env = env            # enclosing Env (closure) or None
        self.qualname = qualname  # "module:Class.name"
        self.module = module      # real module object (for globals)
        self.cls = cls            # defining class (for super())
        self.is_spec = is_spec

    def __repr__(self):
        return f"Func<{self.qualname}>"


class Bound:
    def __init__(self, func, self_obj):
        self.func = func
        self.self_obj = self_obj


class Ghost:
    """opaque ghost handle used by contracts (e.g. a future's identity)"""

    def __init__(self, name):
        self.name = name

    def __repr__(self):
        return f"Ghost<{self.name}>"


def snapshot(v):
    if hasattr(v, "snapshot"):
        return v.snapshot()
    if isinstance(v, tuple):
        return tuple(snapshot(i) for i in v)
    return v


def is_sym(v):
    return isinstance(v, (Sym, SymEnum))


def lift_int(v):
    """python int/bool or Sym(int/bool) -> z3 Int term"""
    if isinstance(v, bool):
        return z3.IntVal(int(v))
    if isinstance(v, int):
        return z3.IntVal(v)
    if isinstance(v, Sym):
        if v.ty == INT:
            return v.t
        if v.ty == BOOL:
            return z3.If(v.t, z3.IntVal(1), z3.IntVal(0))
    raise TypeError(f"not an integer value: {v!r}")


def lift_real(v):
    if isinstance(v, Sym) and v.ty == REAL:
        return v.t
    if isinstance(v, float):
        from fractions import Fraction
        f = Fraction(v)
        return z3.RealVal(f"{f.numerator}/{f.denominator}")
    return z3.ToReal(lift_int(v))


def lift_bool(v):
    if isinstance(v, bool):
        return z3.BoolVal(v)
    if isinstance(v, Sym) and v.ty == BOOL:
        return v.t
    raise TypeError(f"not a boolean value: {v!r}")


def lift_bytes(v):
    if isinstance(v, (bytes, bytearray)):
        arr = ZERO_ARR
        for i, b in enumerate(v):
            if b:
                arr = z3.Store(arr, i, b)
        return mkb(arr, z3.IntVal(len(v)))
    if isinstance(v, Sym) and v.ty == BYTES:
        return v.t
    if isinstance(v, MutBytes):
        return v.t
    raise TypeError(f"not a bytes value: {v!r}")


def is_byteslike(v):
    return isinstance(v, (bytes, bytearray, MutBytes)) or \
        (isinstance(v, Sym) and v.ty == BYTES)


def simp(t):
    return z3.simplify(t)


def concrete_int(t):
    """z3 Int term -> python int if it simplifies to a numeral, else None"""
    s = z3.simplify(t)
    if z3.is_int_value(s):
        return s.as_long()
    return None


def concrete_bool(t):
    s = z3.simplify(t)
    if z3.is_true(s):
        return True
    if z3.is_false(s):
        return False
    return None


def mk_int(t):
    c = concrete_int(t)
    return c if c is not None else Sym(t, INT)


def mk_bool(t):
    c = concrete_bool(t)
    return c if c is not None else Sym(t, BOOL)


def mk_bytes(t):
    """keep short concrete byte strings concrete"""
    n = concrete_int(b_len(t))
    if n is not None and 0 <= n <= 64:
        arr = b_arr(t)
        vals = []
        for i in range(n):
            c = concrete_int(z3.Select(arr, i))
            if c is None or not 0 <= c < 256:
                vals = None
                break
            vals.append(c)
        if vals is not None:
            return bytes(vals)
    return Sym(t, BYTES)
