"""Native replay of a counter-model: call the real function on the concrete
inputs and evaluate the contract clause with CPython."""
import copy


class NS:
    def __init__(_ns, **kw):
        for k, v in kw.items():
            # objects are given as dicts of their fields
            _ns.__dict__[k] = NS(**{a: b for a, b in v.items() if a != "__class__"}) \
                if isinstance(v, dict) and "__class__" in v else v


def plain_subclass(cls, names, extra=None):
    """subclass of a real class whose descriptor attributes `names` are
    shadowed by plain attributes (used when the descriptors themselves are
    under another contract)"""
    ns = {n: None for n in names}
    ns.update(extra or {})
    return type(cls.__name__ + "Replay", (cls,), ns)


def make_obj(cls, fields):
    o = object.__new__(cls)
    for k, v in fields.items():
        if k != "__class__":
            o.__dict__[k] = v
    return o


def evaluate(contract, name, env, outcome, result):
    """-> (holds | None, clause text, detail)"""
    detail = ""
    clause = None
    if ".ensures[" in name and ".raises[" not in name and outcome == "return":
        key = name.split(".ensures[", 1)[1][:-1]
        clause = contract.ensures.get(key)
    if clause is not None:
        try:
            return bool(eval(clause, env)), clause, detail
        except Exception as e:
            return False, clause, f"clause raised {e!r}; "
    if ".raises.unexpected[" in name:
        return (not outcome.startswith("raise")), "no unexpected exception", detail
    if ".must_raise" in name:
        return outcome.startswith("raise"), "must raise", detail
    if outcome == "return":
        failed = []
        for k, c in contract.ensures.items():
            try:
                if not eval(c, env):
                    failed.append(k)
            except Exception as e:
                failed.append(f"{k} raised {e!r}")
        return (None if not failed else False), "all ensures clauses", \
            f"postconditions failing natively: {failed}; "
    if not any(isinstance(result, r.exc) for r in contract.raises):
        return False, "no unexpected exception", "unexpected exception; "
    return None, None, detail


def replay(contract, name, conc, call, spec_module, ghost=()):
    """call(args: dict) -> result; args are deep copies of conc"""
    args = copy.deepcopy({k: v for k, v in conc.items() if not k.startswith("__")})
    old = NS(**copy.deepcopy(args))
    try:
        result = call(args)
        outcome = "return"
    except Exception as e:           # the real code raised
        result, outcome = e, "raise " + type(e).__name__ + f"({e})"
    env = dict(vars(spec_module))
    env.update(args)
    env.update(old=old, result=result)
    holds, clause, detail = evaluate(contract, name, env, outcome, result)
    return {"inputs": conc,
            "reproduced": (None if holds is None else (not holds)),
            "detail": detail + f"real code outcome: {outcome}; clause `{clause}` -> {holds}"}
