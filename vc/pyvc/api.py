"""Contracts and the verification driver of pyvc.

A contract is attached to the *real* function object imported from /repo.
Clauses are Python expression strings; they are evaluated symbolically by the
same executor that runs the function body (to produce the verification
conditions) and natively by CPython in the replay harness.
"""
import ast
import copy
import inspect
import sys
import time
import types

import z3

from . import lib, ops
from .exec import (Contract_, Env, Executor, Frame, OutOfReach, PathEnd,
                   PyRaise, Unbound, _Break, _Continue, _Return,
                   function_ast, qualname_of)
from .types import T, fresh
from .values import (BOOL, BYTES, INT, REAL, Func, MutBytes, Obj, PDict,
                     PList, PSet, Sym, SymEnum, SymList, SymMap, SymSet,
                     concrete_bool, lift_bool, mk_bool, snapshot)
from .. import smt

REGISTRY = {}


def implies(a, b):
    return (not a) or b


@lib.model(implies)
def _m_implies(ex, args, kw):
    a, b = ex.truth_term(args[0]), ex.truth_term(args[1])
    return mk_bool(z3.Implies(a, b))


class Raises:
    def __init__(self, exc, when=None, ensures=None, iff=True, keeps_state=False):
        self.keeps_state = keeps_state   # its ensures prove the state unchanged
        self.exc = exc
        self.when = when          # expression over the entry state, or None
        self.ensures = ensures or {}
        self.iff = iff            # normal return requires `not when`


class Loop:
    def __init__(self, invariant, modifies, index="_i", decreases=None,
                 body_post=None, entry=None):
        self.entry = entry or {}           # ghost locals: name -> expression evaluated at loop entry
        self.body_post = body_post or {}   # clauses over `pre.<local>` and the locals
        self.invariant = invariant if isinstance(invariant, dict) else \
            {str(i): e for i, e in enumerate(invariant)}
        self.modifies = modifies  # list of names or dict name -> schema
        self.index = index
        self.decreases = decreases

    # -------------------------------------------------------------------
    def _check_inv(self, ex, contract, frame, tag, no):
        short = contract.short
        ts = getattr(ex, "target_short", None)
        if ts and contract.qualname != ex.target:
            short = f"{ts}/{short}"        # the loop of an inlined / nested function
        elif ts:
            short = ts
        for k, e in self.invariant.items():
            t = contract.eval_clause(ex, e, frame.env)
            ex.check(f"{short}.loop{no}.{tag}[{k}]", t, e)

    def _assume_inv(self, ex, contract, frame):
        for k, e in self.invariant.items():
            v = contract.assumed_clause(ex, e, frame.env)
            ex.assume(v if isinstance(v, bool) else lift_bool(v))

    def _havoc(self, ex, frame):
        mods = self.modifies
        items = mods.items() if isinstance(mods, dict) else [(m, None) for m in mods]
        for name, schema in items:
            if "." in name:
                base, attr = name.split(".", 1)
                obj = frame.env.lookup(base)
                while "." in attr:              # a nested path: self.queue.field
                    first, attr = attr.split(".", 1)
                    obj = obj.fields[first]
                cur = obj.fields.get(attr)
                obj.fields[attr] = fresh(ex, schema, name) if schema is not None \
                    else fresh_like(ex, cur, name)
            else:
                cur = frame.env.lookup(name) if frame.env.has(name) else None
                frame.env.set(name, fresh(ex, schema, name) if schema is not None
                              else fresh_like(ex, cur, name))

    def _ghost_entry(self, ex, c, frame):
        for name, expr in self.entry.items():
            specfunc = Func(ast.FunctionDef(name="<ghost>", args=_NOARGS, body=[], decorator_list=[],
                                            lineno=0, col_offset=0),
                            None, c.qualname + ".<ghost>", c.spec_module, None, True)
            saved = ex.opt.get("spec_mode")
            ex.opt["spec_mode"] = True
            try:
                frame.env.set(name, ex.eval(_parse_expr(expr), Frame(specfunc, frame.env)))
            finally:
                ex.opt["spec_mode"] = saved

    def run_while(self, ex, node, frame, no):
        c = ex.registry[frame.func.qualname]
        self._ghost_entry(ex, c, frame)
        self._check_inv(ex, c, frame, "inv_entry", no)
        which = ex.choose(2, f"loop {no}: arbitrary iteration / exit")
        self._havoc(ex, frame)
        self._assume_inv(ex, c, frame)
        cond = ex.truth(ex.eval(node.test, frame), f"loop {no} condition")
        if which == 0:
            if not cond:
                raise PathEnd()
            pre = Obj(object, {}, "pre")
            for name in (self.modifies if not isinstance(self.modifies, dict)
                         else self.modifies.keys()):
                if "." not in name and frame.env.has(name):
                    pre.fields[name] = snapshot(frame.env.lookup(name))
            try:
                yield from ex.exec_block(node.body, frame)
            except _Continue:
                pass
            except _Break:
                return
            self._check_inv(ex, c, frame, "inv_preserved", no)
            if self.body_post:
                env2 = Env(frame.env)
                env2.vars["pre"] = pre
                for k, e in self.body_post.items():
                    ex.check(f"{c.short}.loop{no}.iteration[{k}]",
                             c.eval_clause(ex, e, env2), e)
            raise PathEnd()
        if cond:
            raise PathEnd()
        yield from ex.exec_block(node.orelse, frame)

    def run_for(self, ex, node, frame, no, it):
        c = ex.registry[frame.func.qualname]
        n, elem = iteration_model(ex, it)
        frame.env.set(self.index, 0)
        self._ghost_entry(ex, c, frame)
        self._check_inv(ex, c, frame, "inv_entry", no)
        which = ex.choose(2, f"loop {no}: arbitrary iteration / exit")
        self._havoc(ex, frame)
        if which == 0:
            i = z3.Int(ex.fresh_name(self.index))
            ex.assume(z3.And(i >= 0, i < n))
            frame.env.set(self.index, Sym(i, INT))
            self._assume_inv(ex, c, frame)
            ex.assign(node.target, elem(i), frame)
            try:
                yield from ex.exec_block(node.body, frame)
            except _Continue:
                pass
            except _Break:
                return
            frame.env.set(self.index, Sym(i + 1, INT))
            self._check_inv(ex, c, frame, "inv_preserved", no)
            raise PathEnd()
        frame.env.set(self.index, Sym(n, INT) if not z3.is_int_value(z3.simplify(n))
                      else z3.simplify(n).as_long())
        self._assume_inv(ex, c, frame)
        yield from ex.exec_block(node.orelse, frame)


def iteration_model(ex, it):
    """(length term, element-at-i function) of an iterable of unknown size"""
    from .types import elem_from_arrays
    if isinstance(it, SymList):
        return it.length, lambda i: elem_from_arrays(ex, it.schema, it.arrays, i)
    if isinstance(it, lib.SymEnumerate):
        l = it.lst
        return l.length, lambda i: (
            Sym(z3.simplify(ops.lift_int(it.start) + i), INT),
            elem_from_arrays(ex, l.schema, l.arrays, i))
    if isinstance(it, lib.SymRange):
        a = it.args
        lo, hi = (0, a[0]) if len(a) == 1 else (a[0], a[1])
        step = a[2] if len(a) > 2 else 1
        lo_t, hi_t = ops.lift_int(lo), ops.lift_int(hi)
        if not isinstance(step, int) or step <= 0:
            raise OutOfReach("range with a symbolic or non-positive step")
        n = z3.If(hi_t > lo_t, (hi_t - lo_t + step - 1) / step, 0)
        return n, lambda i: Sym(z3.simplify(lo_t + i * step), INT)
    if isinstance(it, lib.SymItems):
        return it.model(ex)
    raise OutOfReach(f"for loop with invariant over {it!r}")


def fresh_like(ex, cur, name):
    if isinstance(cur, bool):
        return fresh(ex, T.Bool, name)
    if isinstance(cur, int):
        return fresh(ex, T.Int, name)
    if isinstance(cur, Sym) and cur.ty == BYTES:
        return fresh(ex, T.Bytes, name)
    if isinstance(cur, Sym):
        return Sym(z3.Const(ex.fresh_name(name), cur.t.sort()), cur.ty)
    if isinstance(cur, SymEnum):
        return fresh(ex, T.Enum(cur.cls), name)
    if isinstance(cur, (bytes, bytearray)):
        return fresh(ex, T.Bytes, name)
    if isinstance(cur, MutBytes):
        return fresh(ex, T.ByteArray, name)
    if isinstance(cur, lib.JoinList):
        return lib.JoinList(fresh(ex, T.Bytes, name).t)
    if isinstance(cur, SymList):
        return fresh(ex, T.List(cur.schema), name)
    if isinstance(cur, SymSet):
        return fresh(ex, T.IntSet(), name)
    if isinstance(cur, SymMap):
        return fresh(ex, T.Map(cur.schema), name)
    if isinstance(cur, tuple):
        return tuple(fresh_like(ex, c, f"{name}.{i}") for i, c in enumerate(cur))
    if isinstance(cur, float):
        return fresh(ex, T.Real, name)
    raise OutOfReach(f"cannot havoc {name} = {cur!r}: give a schema")


class Contract(Contract_):
    def __init__(self, target, *, params, requires=None, ensures=None,
                 raises=(), modifies=(), loops=None, inline=False,
                 result=None, canaries=None, options=None, joinlists=(),
                 ghost_pre=None, ghost_post=None, spec_module=None,
                 setup=None, name=None, body=None, cls=None, cm=None, nested=None):
        self.target = target
        # nested=(enclosing real function, name): the target is a function
        # defined inside that function; its free variables are looked up among
        # the contract's parameters (e.g. `self`)
        self.nested = nested
        self.qualname = qualname_of(target) if not isinstance(target, str) else target
        self.short = name or self.qualname.split(":")[1]
        self.params = params
        self.requires = requires or {}
        self.ensures = ensures or {}
        self.raises = list(raises)
        self.modifies = list(modifies) if modifies is not None else None
        self.loops = loops or {}
        self.inline = inline
        self.result = result
        self.canaries = canaries or {}
        self.options = options or {}
        self.joinlists = set(joinlists)
        self.ghost_pre = ghost_pre
        self.ghost_post = ghost_post
        self.setup = setup
        self.cls = cls
        self.cm = cm
        mod = spec_module
        if mod is None:
            frm = inspect.stack()[1]
            mod = sys.modules.get(frm.frame.f_globals.get("__name__"))
        self.spec_module = mod
        REGISTRY[self.qualname] = self

    # ----------------------------------------------------------- clauses
    def assumed_clause(self, ex, expr, env):
        """a clause that becomes a hypothesis (callee ensures, requires,
        loop invariant after havoc)"""
        saved = ex.opt.get("assume_mode")
        ex.opt["assume_mode"] = True
        try:
            return self.eval_clause(ex, expr, env)
        finally:
            ex.opt["assume_mode"] = saved

    def eval_clause(self, ex, expr, env):
        """evaluate a clause string in spec mode; returns bool or Sym bool"""
        node = _parse_expr(expr)
        specfunc = Func(ast.FunctionDef(name="<spec>", args=_NOARGS, body=[],
                                        decorator_list=[], lineno=0,
                                        col_offset=0),
                        None, self.qualname + ".<spec>", self.spec_module,
                        None, True)
        frame = Frame(specfunc, env)
        saved = ex.opt.get("spec_mode")
        ex.opt["spec_mode"] = True
        try:
            v = ex.eval(node, frame)
        except PyRaise as p:
            raise OutOfReach(f"spec clause `{expr}` raises "
                             f"{p.exc.cls.__name__}{p.exc.fields.get('args')}")
        finally:
            ex.opt["spec_mode"] = saved
        t = ex.truth_term(v)
        if t is None:
            raise OutOfReach(f"spec clause `{expr}` is not boolean: {v!r}")
        c = concrete_bool(t)
        return c if c is not None else Sym(t, BOOL)

    def exec_ghost(self, ex, code, env):
        tree = ast.parse(_dedent(code))
        specfunc = Func(ast.FunctionDef(name="<ghost>", args=_NOARGS, body=[],
                                        decorator_list=[], lineno=0,
                                        col_offset=0),
                        None, self.qualname + ".<ghost>", self.spec_module,
                        None, True)
        frame = Frame(specfunc, env)
        for _ in ex.exec_block(tree.body, frame):
            raise OutOfReach("yield in ghost code")

    # ------------------------------------------------------- verification
    def make_inputs(self, ex):
        env = Env()
        for name, schema in self.params.items():
            env.vars[name] = fresh(ex, schema, name)
        return env

    def target_ast(self):
        """(AST node, source text, real function that owns the module)"""
        if self.nested is None:
            node, src = function_ast(self.target)
            return node, src, self.target
        parent, name = self.nested
        pnode, _ = function_ast(parent)
        for n in ast.walk(pnode):
            if isinstance(n, (ast.FunctionDef, ast.AsyncFunctionDef)) and n.name == name and n is not pnode:
                return n, ast.get_source_segment(function_ast(parent)[1], n) or ast.unparse(n), parent
        raise OutOfReach(f"no function {name} inside {parent.__qualname__}")

    def run_body(self, ex):
        """one path of the function body against this contract"""
        node, src, pyfunc = self.target_ast()
        ex.target = self.qualname
        ex.target_short = self.short
        inputs = self.make_inputs(ex)
        ex.inputs = dict(inputs.vars)
        if self.setup is not None:
            self.setup(ex, inputs)
        if self.ghost_pre:
            self.exec_ghost(ex, self.ghost_pre, inputs)
        for k, e in self.requires.items():
            ex.assume(_as_term(self.assumed_clause(ex, e, inputs)))
        ex.requires_pc = list(ex.pc)
        old = Obj(object, {k: snapshot(v) for k, v in inputs.vars.items()}, "old")
        ex.old = old
        closure = None
        if self.nested is not None:
            closure = Env()
            closure.vars.update(inputs.vars)
        func = Func(node, closure, self.qualname, sys.modules[pyfunc.__module__],
                    self.cls or _defining_class(pyfunc))
        # argument binding follows the real signature
        a = node.args
        names = [p.arg for p in a.posonlyargs + a.args]
        args = [inputs.vars[n] for n in names if n in inputs.vars]
        if a.vararg is not None and a.vararg.arg in inputs.vars:
            args += list(inputs.vars[a.vararg.arg])
        kwargs = {p.arg: inputs.vars[p.arg] for p in a.kwonlyargs
                  if p.arg in inputs.vars}
        if a.kwarg is not None and a.kwarg.arg in inputs.vars:
            kw = inputs.vars[a.kwarg.arg]       # **kwargs given as a dict
            kwargs.update(kw.d if isinstance(kw, PDict) else kw)
        shape = self.options.get("call")
        if shape is not None:
            # the call as callers write it, by contract parameter names:
            # (["cmd", "data", "*address"], ["wkc"]) - independent of how the
            # function names its own parameters
            args, kwargs = [], {}
            for n in shape[0]:
                if n.startswith("*"):
                    args += list(inputs.vars[n[1:]])
                else:
                    args.append(inputs.vars[n])
            for n in shape[1]:
                kwargs[n] = inputs.vars[n]
        try:
            env = ex.bind_args(func, args, kwargs)
        except PyRaise as e:
            raise OutOfReach(f"{self.qualname}: the call described by the contract's parameters does not bind to "
                             f"the function's signature ({getattr(getattr(e.exc, 'cls', None), '__name__', 'TypeError')})")
        for k, v in inputs.vars.items():     # ghost parameters
            env.vars.setdefault(k, v)
        env.vars.setdefault("old", old)      # for loop invariants
        for j in self.joinlists:
            env.vars["__joinlist__" + j] = True
        frame = Frame(func, env)
        if self.cm is not None:
            return self.run_cm(ex, func, frame, inputs, old)
        ex.frames.append(frame)
        outcome, value = "return", None
        try:
            collect = self.options.get("generator") == "collect"
            if collect:
                # the generator as the sequence of its yields: a ghost list
                # `_yielded` (loop invariants may speak about it)
                y = fresh(ex, T.List(self.result), "_yielded")
                ex.assume(y.length == 0)
                frame.env.vars["_yielded"] = y
            for yv in ex.exec_block(node.body, frame):
                if not self.options.get("generator"):
                    raise OutOfReach("generator function verified as a plain one")
                # option generator: the body is driven to its end, every
                # `yield` continues (the consumer is unconstrained)
                if collect:
                    lib.METHODS[("SymList", "append")](ex, frame.env.lookup("_yielded"), yv)
            if collect:
                value = frame.env.lookup("_yielded")
        except _Return as r:
            value = frame.env.lookup("_yielded") if self.options.get("generator") == "collect" else r.value
        except PyRaise as p:
            outcome, value = "raise", p.exc
        finally:
            ex.frames.pop()
        post = Env()
        post.vars.update(inputs.vars)
        post.vars["old"] = old
        post.vars["result"] = value
        ex.outcome = (outcome, value)
        if self.ghost_post and outcome == "return":
            self.exec_ghost(ex, self.ghost_post, post)
        if outcome == "return":
            ex.normal_paths = 1
            for r in self.raises:
                if r.when is not None and r.iff:
                    oldenv = Env()
                    oldenv.vars.update(old.fields)
                    w = self.eval_clause(ex, r.when, oldenv)
                    ex.check(f"{self.short}.raises[{r.exc.__name__}].must_raise",
                             mk_not(w), f"normal return only if not ({r.when})")
            for k, e in self.ensures.items():
                ex.check(f"{self.short}.ensures[{k}]",
                         self.eval_clause(ex, e, post), e)
            for k, e in self.canaries.items():
                ex.check(f"{self.short}.CANARY[{k}]",
                         self.eval_clause(ex, e, post), e, assume=False)
            self.check_frame(ex, inputs, old, "ensures")
        else:
            matched = None
            for r in self.raises:
                if issubclass(value.cls, r.exc):
                    matched = r
                    break
            if matched is None:
                ex.check(f"{self.short}.raises.unexpected[{value.cls.__name__}]",
                         False, f"exception {value.cls.__name__} is not "
                         f"allowed by the contract")
            else:
                r = matched
                if r.when is not None:
                    oldenv = Env()
                    oldenv.vars.update(old.fields)
                    ex.check(f"{self.short}.raises[{r.exc.__name__}].only_when",
                             self.eval_clause(ex, r.when, oldenv), r.when)
                post.vars["exc"] = value
                for k, e in r.ensures.items():
                    ex.check(f"{self.short}.raises[{r.exc.__name__}].ensures[{k}]",
                             self.eval_clause(ex, e, post), e)
        return outcome

    def run_cm(self, ex, func, frame, inputs, old):
        """a generator based context manager (@contextmanager /
        @asynccontextmanager): the body is split at its single `yield`.
        self.cm = dict(enter={clauses}, between=ghost code run while the
        manager is open (interference), exit={clauses}, exit_modes=(...))"""
        import asyncio
        cm = self.cm
        gen = ex._gen_body(func, frame)
        post = Env()
        post.vars.update(inputs.vars)
        post.vars["old"] = old
        try:
            yielded = next(gen)
        except StopIteration:
            raise OutOfReach("context manager did not yield")
        except PyRaise as p:
            value = p.exc
            ex.outcome = ("raise", value)
            matched = next((r for r in self.raises
                            if issubclass(value.cls, r.exc)), None)
            if matched is None:
                ex.check(f"{self.short}.enter.raises.unexpected[{value.cls.__name__}]",
                         False, f"exception {value.cls.__name__} at enter")
            else:
                post.vars["exc"] = value
                for k, e in matched.ensures.items():
                    ex.check(f"{self.short}.enter.raises[{matched.exc.__name__}].ensures[{k}]",
                             self.eval_clause(ex, e, post), e)
            return "raise"
        post.vars["result"] = yielded
        for k, e in cm.get("enter", {}).items():
            ex.check(f"{self.short}.enter.ensures[{k}]",
                     self.eval_clause(ex, e, post), e)
        for k, e in self.canaries.items():
            ex.check(f"{self.short}.CANARY[{k}]", self.eval_clause(ex, e, post), e, assume=False)
        if cm.get("between"):
            self.exec_ghost(ex, cm["between"], post)
        mid = Obj(object, {k: snapshot(v) for k, v in inputs.vars.items()}, "mid")
        post.vars["mid"] = mid
        modes = cm.get("exit_modes", ("normal", "exception"))
        mode = modes[ex.choose(len(modes), "how the with-block is left")]
        ex.notes.append(f"with-block left by: {mode}")
        outcome = "return"
        try:
            if mode == "normal":
                next(gen)
            else:
                cls = asyncio.CancelledError if mode == "cancelled" else RuntimeError
                gen.throw(PyRaise(ex.make_exc(cls)))
            raise OutOfReach("context manager yielded twice")
        except StopIteration:
            if mode != "normal":
                ex.check(f"{self.short}.exit.swallows_exception", False,
                         "the exception thrown into the with-block is swallowed")
        except PyRaise as p:
            outcome = "raise"
            post.vars["exc"] = p.exc
        ex.outcome = (outcome, None)
        ex.normal_paths = 1
        for k, e in cm.get("exit", {}).items():
            ex.check(f"{self.short}.exit.ensures[{k}]",
                     self.eval_clause(ex, e, post), e)
        return outcome

    def check_frame(self, ex, inputs, old, tag):
        if self.modifies is None:
            return
        def walk(path, o, v):
            for fld, ov in o.fields.items():
                p = f"{path}.{fld}"
                if p in self.modifies or f"{path}.*" in self.modifies:
                    continue
                nv = v.fields.get(fld, Unbound)
                if isinstance(ov, Obj) and isinstance(nv, Obj) and ov.name == nv.name \
                        and any(m.startswith(p + ".") for m in self.modifies):
                    walk(p, ov, nv)      # a nested path is in the frame: descend
                    continue
                ex.check(f"{self.short}.frame[{p}]", same_value(ex, ov, nv),
                         f"{p} unchanged")
        for pname, v in inputs.vars.items():
            if not isinstance(v, Obj):
                continue
            walk(pname, old.fields[pname], v)

    # ------------------------------------------------- call by contract
    def apply(self, ex, args, kwargs, frame, node):
        """replace a call by this contract"""
        pyfunc = self.target
        fnode, _ = function_ast(pyfunc)
        func = Func(fnode, None, self.qualname, sys.modules[pyfunc.__module__])
        env = ex.bind_args(func, args, kwargs)
        where = ""
        if frame is not None and node is not None:
            caller = frame.func.qualname.split(':')[1]
            ts = getattr(ex, "target_short", None)
            if frame.func.qualname == ex.target and ts:
                caller = ts        # variants of one function differ by name
            elif ts and ts != ex.target.split(":")[1]:
                caller = f"{ts}/{caller}"      # inlined callee of a named variant
            where = f"@{caller}:L{node.lineno}"
        if self.ghost_pre:
            self.exec_ghost(ex, self.ghost_pre, env)
        for k, e in self.requires.items():
            ex.check(f"call[{self.short}].requires[{k}]{where}",
                     self.eval_clause(ex, e, env), e)
        old = Obj(object, {k: snapshot(v) for k, v in env.vars.items()}, "old")
        # which outcome?
        outcomes = [None] + self.raises
        feasible = []
        oldenv = Env()
        oldenv.vars.update(old.fields)
        chosen = None
        det = [r for r in self.raises if r.when is not None and r.iff]
        for r in det:
            w = self.eval_clause(ex, r.when, oldenv)
            if ex.fork(_as_term(w), f"{self.short} raises {r.exc.__name__}"):
                chosen = r
                break
        if chosen is None:
            nondet = [r for r in self.raises if r.when is None or not r.iff]
            if nondet:
                k = ex.choose(len(nondet) + 1, f"{self.short} outcome")
                if k > 0:
                    chosen = nondet[k - 1]
                    if chosen.when is not None:
                        ex.assume(_as_term(self.eval_clause(ex, chosen.when, oldenv)))
        # havoc the frame (an exceptional exit proved to leave the state as it
        # was -- Raises(keeps_state=True) -- modifies nothing)
        for m in (self.modifies or ()):
            if chosen is not None and getattr(chosen, "keeps_state", False):
                break
            base, attr = m.split(".", 1)
            obj = env.lookup(base)
            schema = None
            ps = self.params.get(base)
            if isinstance(ps, T.Obj):
                schema = ps.fields.get(attr)
            cur = obj.fields.get(attr)
            obj.fields[attr] = fresh(ex, schema, m) if schema is not None and \
                not isinstance(schema, T.Shared) else fresh_like(ex, cur, m)
        post = Env()
        post.vars.update(env.vars)
        post.vars["old"] = old
        if chosen is not None:
            exc = ex.make_exc(chosen.exc)
            post.vars["exc"] = exc
            for k, e in chosen.ensures.items():
                ex.assume(_as_term(self.assumed_clause(ex, e, post)))
            raise PyRaise(exc)
        result = fresh(ex, self.result, f"{self.short}.result") \
            if self.result is not None else None
        post.vars["result"] = result
        if self.ghost_post:
            self.exec_ghost(ex, self.ghost_post, post)
            result = post.vars["result"]
        for k, e in self.ensures.items():
            v = self.assumed_clause(ex, e, post)
            if v is False:
                # a postcondition that is false whatever the callee returns
                # would silently cut every path through this call (vacuity)
                raise OutOfReach(f"contract of {self.short}: clause [{k}] cannot hold "
                                 f"at this call (no result schema, or contradictory contract)")
            ex.assume(_as_term(v))
        return result


def mk_not(w):
    if isinstance(w, bool):
        return not w
    return Sym(z3.Not(w.t), BOOL)


def _as_term(v):
    if isinstance(v, bool):
        return z3.BoolVal(v)
    return v.t


def same_value(ex, a, b):
    if a is b:
        return True
    if b is Unbound or a is Unbound:
        return False
    if isinstance(a, SymList) and isinstance(b, SymList):
        ts = [a.length == b.length] + [a.arrays[k] == b.arrays[k] for k in a.arrays]
        return mk_bool(z3.And(*ts))
    if isinstance(a, MutBytes) and isinstance(b, MutBytes):
        return mk_bool(ops.bytes_eq(ex, a, b))
    if isinstance(a, SymSet) and isinstance(b, SymSet):
        return mk_bool(a.arr == b.arr)
    if isinstance(a, SymMap) and isinstance(b, SymMap):
        return mk_bool(z3.And(a.dom == b.dom, *[a.arrays[k] == b.arrays[k] for k in a.arrays]))
    if isinstance(a, PList) and isinstance(b, PList):
        if len(a.items) != len(b.items):
            return False
        rs = [same_value(ex, x, y) for x, y in zip(a.items, b.items)]
        if any(r is False for r in rs):
            return False
        ts = [lift_bool(r) for r in rs if r is not True]
        return mk_bool(z3.And(*ts)) if ts else True
    if isinstance(a, PDict) and isinstance(b, PDict):
        if set(a.d) != set(b.d):
            return False
        rs = [same_value(ex, a.d[k], b.d[k]) for k in a.d]
        if any(r is False for r in rs):
            return False
        ts = [lift_bool(r) for r in rs if r is not True]
        return mk_bool(z3.And(*ts)) if ts else True
    if isinstance(a, Obj) or isinstance(b, Obj):
        # a snapshot of an object: compare identity of the original through
        # the name, and fields
        if isinstance(a, Obj) and isinstance(b, Obj) and a.name == b.name:
            rs = [same_value(ex, a.fields[k], b.fields.get(k, Unbound))
                  for k in a.fields]
            if any(r is False for r in rs):
                return False
            ts = [lift_bool(r) for r in rs if r is not True]
            return mk_bool(z3.And(*ts)) if ts else True
        return False
    return ops.values_equal(ex, a, b)


_NOARGS = ast.arguments(posonlyargs=[], args=[], vararg=None, kwonlyargs=[],
                        kw_defaults=[], kwarg=None, defaults=[])
_EXPR_CACHE = {}


def _parse_expr(expr):
    if expr not in _EXPR_CACHE:
        _EXPR_CACHE[expr] = ast.parse(_dedent(expr).strip(), mode="eval").body
    return _EXPR_CACHE[expr]


def _dedent(s):
    import textwrap
    return textwrap.dedent(s)


def _defining_class(pyfunc):
    mod = sys.modules[pyfunc.__module__]
    parts = pyfunc.__qualname__.split(".")
    obj = mod
    try:
        for p in parts[:-1]:
            obj = getattr(obj, p)
    except AttributeError:
        return None
    return obj if isinstance(obj, type) else None


# ======================================================================
#                           verification driver
# ======================================================================

class ClauseResult:
    def __init__(self, name):
        self.name = name
        self.queries = 0
        self.seconds = 0.0
        self.verdict = smt.PROVED
        self.backend = "z3-5.1(api)"
        self.model = None
        self.raw = ""
        self.text = ""
        self.notes = None
        self.inputs = None


_JOBS = []


def _discharge(i):
    """worker (forked after the paths were explored, so it sees _JOBS)"""
    name, pc, goal, text, notes, inputs, extra, timeout_ms = _JOBS[i]
    res = smt.prove(pc, goal, timeout_ms, quick_refute=".CANARY[" in name)
    conc = None
    if res.verdict == smt.REFUTED and res.model is not None:
        try:
            conc = {k: concretize(res.model, v) for k, v in inputs.items()}
            if extra is not None:
                conc["__extra__"] = extra(res.model)
        except Exception as e:      # model incomplete for some input
            conc = {"__error__": repr(e)}
    return {"i": i, "name": name, "verdict": res.verdict,
            "backend": res.backend, "seconds": res.seconds, "text": text,
            "notes": notes, "inputs": conc,
            "raw": res.raw or ("" if res.model is None else str(res.model)[:4000]),
            "candidate": getattr(res, "candidate", False)}


def verify(contract, report, max_paths=5000, options=None, replay=None,
           timeout_ms=None, quiet=False, procs=None):
    """explore every path of the function body (in this process), then
    discharge every obligation in a pool of forked workers.
    `replay(name, inputs, notes)` is called for a refuted clause with the
    concretised inputs of the counter-model."""
    import multiprocessing as mp
    import os
    global _JOBS
    _, src, pyfunc = contract.target_ast()
    report.function(contract.qualname, src)
    opts = dict(contract.options)
    opts.update(options or {})
    clauses = {}
    npaths = nnormal = 0
    t0 = time.time()
    procs = procs or int(os.environ.get("VERIF_PROCS", "14"))
    work = [[]]
    jobs, keys = [], set()
    cover_pc = None
    while work:
        dec = work.pop()
        ex = Executor(dec, REGISTRY, dict(opts))
        ex.normal_paths = 0
        try:
            contract.run_body(ex)
        except PathEnd:
            pass
        except OutOfReach as e:
            report.out_of_reach(f"{contract.qualname}: {e} (path {dec})")
            return None
        npaths += 1
        nnormal += ex.normal_paths
        work.extend(ex.new_alternatives)
        if npaths > max_paths:
            report.out_of_reach(f"{contract.qualname}: more than {max_paths} paths")
            return None
        if cover_pc is None and hasattr(ex, "requires_pc"):
            cover_pc = ex.requires_pc
        for name, pc, goal, text, notes in ex.obligations:
            key = (name, tuple(p.hash() for p in pc), goal.hash())
            if key in keys:
                continue
            keys.add(key)
            entry = ex.old.fields if hasattr(ex, "old") else \
                getattr(ex, "inputs", {})     # the entry state, not the final one
            jobs.append((name, pc, goal, text, notes, dict(entry),
                         getattr(ex, "replay_extra", None), timeout_ms))
    t_explore = time.time() - t0
    if cover_pc is not None:
        report.cover(f"{contract.short}.requires-satisfiable",
                     smt.check_sat(cover_pc, 5000, want_model=False,
                                   use_fallback=False))
    _JOBS = jobs
    ctx = mp.get_context("fork")
    with ctx.Pool(min(procs, max(1, len(jobs)))) as pool:
        results = list(pool.imap_unordered(_discharge, range(len(jobs)),
                                           chunksize=1))
    _JOBS = []
    results.sort(key=lambda r: r["i"])
    for ob in results:
        cr = clauses.setdefault(ob["name"], ClauseResult(ob["name"]))
        cr.text = cr.text or ob["text"]
        cr.queries += 1
        cr.seconds += ob["seconds"]
        if ob["verdict"] == smt.REFUTED and cr.verdict != smt.REFUTED:
            cr.verdict = smt.REFUTED
            cr.backend, cr.raw = ob["backend"], ob["raw"]
            cr.notes, cr.inputs = ob["notes"], ob["inputs"]
            cr.candidate = ob["candidate"]
        elif ob["verdict"] == smt.UNKNOWN and cr.verdict == smt.PROVED:
            cr.verdict, cr.raw, cr.backend = smt.UNKNOWN, ob["raw"], ob["backend"]
        elif ob["verdict"] == smt.PROVED and cr.verdict == smt.PROVED \
                and ob["backend"] != "trivial":
            cr.backend = ob["backend"]
    if nnormal == 0 and contract.ensures:
        report.broken.append(f"{contract.short}: no path reaches a normal "
                             f"return (vacuous)")
    report.extra.setdefault("paths", {})[contract.short] = npaths
    report.extra["vc_queries"] = report.extra.get("vc_queries", 0) + \
        sum(c.queries for c in clauses.values())
    for name, cr in clauses.items():
        res = smt.Result(cr.verdict, cr.backend, cr.seconds, cr.inputs, cr.raw)
        if ".CANARY[" in name:
            report.canary(name, res)
            continue
        rp = None
        if replay is not None and cr.verdict == smt.REFUTED and cr.inputs is not None:
            # (inputs that could not be concretised are passed on as such: a
            # replay harness with a fixed scenario does not need them)
            rp = (lambda m, cr=cr: replay(cr.name, cr.inputs, cr.notes))
        elif replay is not None and cr.verdict == smt.REFUTED and hasattr(replay, "fallback"):
            # the solver refuted the clause without a usable model: the
            # harness may search its own small grid of inputs natively
            rp = (lambda m, cr=cr: replay.fallback(cr.name))
        report.obligation(name, res, func=contract.qualname, text=cr.text,
                          replay=rp, candidate=getattr(cr, "candidate", False))
    if not quiet:
        print(f"  verified {contract.qualname}: {npaths} paths, "
              f"{len(clauses)} clauses, {time.time() - t0:.1f}s")
    return clauses


# ======================================================================
#                  model -> concrete python values (replay)
# ======================================================================

def concretize(model, v):
    import enum as _enum
    if isinstance(v, Sym):
        t = model.eval(v.t, model_completion=True)
        if v.ty == INT:
            return t.as_long()
        if v.ty == BOOL:
            return z3.is_true(t)
        if v.ty == BYTES:
            from .values import b_arr, b_len
            n = model.eval(b_len(v.t), model_completion=True).as_long()
            n = max(0, min(n, 4096))
            return bytes(model.eval(z3.Select(b_arr(v.t), i),
                                    model_completion=True).as_long() % 256
                         for i in range(n))
        if v.ty == REAL:
            f = t.as_fraction() if hasattr(t, "as_fraction") else None
            return float(f) if f is not None else float(t.approx(20).as_fraction())
    if isinstance(v, SymEnum):
        return v.cls(model.eval(v.t, model_completion=True).as_long())
    if isinstance(v, tuple):
        return tuple(concretize(model, x) for x in v)
    if isinstance(v, PList):
        return [concretize(model, x) for x in v.items]
    if isinstance(v, PDict):
        return {(k.name if isinstance(k, Obj) else k): concretize(model, x)
                for k, x in v.d.items()}
    if isinstance(v, MutBytes):
        return bytearray(concretize(model, Sym(v.t, BYTES)))
    if isinstance(v, SymList):
        n = model.eval(v.length, model_completion=True).as_long()
        return [concretize_elem(model, v.schema, v.arrays, i) for i in range(min(n, 64))]
    if isinstance(v, SymSet):
        # members among the integers the model mentions (and their neighbours)
        cand = set()
        for d in model.decls():
            if d.arity() == 0:
                val = model[d]
                if z3.is_int_value(val):
                    cand |= {val.as_long() + j for j in (-1, 0, 1)}
        return sorted(k for k in cand if z3.is_true(
            model.eval(z3.Select(v.arr, z3.IntVal(k)), model_completion=True)))
    if isinstance(v, SymMap):
        return "<symbolic map>"
    if isinstance(v, dict):
        return {k: concretize(model, x) for k, x in v.items()}
    if isinstance(v, Obj):
        return {"__class__": v.cls.__name__,
                **{k: concretize(model, x) for k, x in v.fields.items()}}
    return v


def concretize_elem(model, schema, arrays, i, prefix=""):
    from .types import _Leaf, NONE_CODE
    def sel(key):
        return model.eval(z3.Select(arrays[key], i), model_completion=True)
    if isinstance(schema, _Leaf):
        return concretize(model, Sym(z3.Select(arrays[prefix or "v"], i), schema.ty))
    if isinstance(schema, T.Range):
        return sel(prefix or "v").as_long()
    if isinstance(schema, T.Enum):
        val = sel(prefix or "v").as_long()
        try:
            return schema.cls(val)
        except ValueError:
            return schema.members[0]
    if isinstance(schema, T.Opt):
        val = sel(prefix or "v").as_long()
        return None if val == NONE_CODE else val
    if isinstance(schema, T.Tuple):
        return tuple(concretize_elem(model, c, arrays, i, f"{prefix}{k}.")
                     for k, c in enumerate(schema.comps))
    if isinstance(schema, T.VarTuple):
        n = sel(f"{prefix}n").as_long()
        if n not in schema.lens:
            n = schema.lens[0]
        return tuple([concretize_elem(model, c, arrays, i, f"{prefix}{k}.")
                      for k, c in enumerate(schema.fixed)]
                     + [concretize_elem(model, schema.rest, arrays, i, f"{prefix}r{k}.")
                        for k in range(n)])
    raise TypeError(schema)


def forall_int(pred, lo=-2, hi=70000):
    """spec builtin: pred(k) for every integer k (natively: for a finite
    window that covers the values of the replayed scenario)"""
    return all(pred(k) for k in range(lo, hi))


@lib.model(forall_int)
def _m_forall_int(ex, args, kw):
    f = args[0]
    k = z3.Int(ex.fresh_name("q_k"))
    saved = ex.pc
    ex.pc = list(saved)
    n0 = len(ex.pc)
    body = ex.truth_term(ex.call(f, [Sym(k, INT)], {}))
    facts = ex.pc[n0:]
    ex.pc = saved
    inner = z3.Implies(z3.And(*facts), body) if facts else body
    return Sym(z3.ForAll([k], inner), BOOL)
