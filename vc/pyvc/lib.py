"""Models of builtins and library functions used by the functions under
contract.  Each model is an *assumed contract* of the library function; the
list ASSUMED is copied into every evidence file."""
import asyncio
import builtins
import contextlib
import enum
import operator
import struct
import types

import z3

from . import ops
from .ops import OutOfReach, is_intlike
from .values import (BOOL, BYTES, INT, REAL, Bound, BytesSort, Func, Ghost,
                     MutBytes, Obj, PDict, PList, PSet, Sym, SymEnum, SymList,
                     SymMap, SymSet, concrete_int, is_byteslike, lift_bool,
                     lift_bytes, lift_int, mk_bool, mk_bytes, mk_int)
from .types import T, elem_from_arrays, elem_to_arrays, NONE_CODE
from .values import SymTuple, ZERO_ARR, b_arr, b_len, mkb

ASSUMED = [
    "struct.pack/unpack/unpack_from/calcsize for literal formats: expanded "
    "byte by byte (standard sizes, little/big endian as written; native '@' "
    "formats use this host's sizes and little-endian order); out-of-range "
    "values and wrong buffer sizes raise struct.error",
    "builtins len/min/max/int/bool/bytes/bytearray/isinstance/range/enumerate/"
    "sorted with their documented semantics",
    "list.append/index/pop, dict.get/items/pop/values, set.add with their "
    "documented semantics",
    "A-LOG: logging calls neither raise nor change program state",
]

MODELS = {}
METHODS = {}


def model(*fns):
    def deco(f):
        for fn in fns:
            MODELS[id(fn)] = (fn, f)
        return f
    return deco


class Lib:
    def find_model(self, fv):
        m = MODELS.get(id(fv))
        if m is not None and m[0] is fv:
            return m[1]
        # bound builtin methods (e.g. c_char.from_buffer) are created anew on
        # every attribute access: match them by owner and name
        import types as _t
        if isinstance(fv, _t.BuiltinMethodType) and getattr(fv, "__self__", None) is not None:
            for fn, f in MODELS.values():
                if isinstance(fn, _t.BuiltinMethodType) and fn.__name__ == fv.__name__ \
                        and getattr(fn, "__self__", None) is fv.__self__:
                    return f
        return None

    # ------------------------------------------------------------- enums
    def enum_from_value(self, ex, cls, v):
        if isinstance(v, enum.Enum):
            return v
        if isinstance(v, SymEnum):
            return v
        if isinstance(v, int):
            try:
                return cls(v)
            except ValueError:
                ex.raise_builtin(ValueError, v)
        t = lift_int(v)
        members = [m for m in cls if isinstance(m.value, int)]
        ok = z3.Or(*[t == m.value for m in members])
        if not ex.fork(ok, f"value is a member of {cls.__name__}"):
            ex.raise_builtin(ValueError, "not a valid enum value")
        return SymEnum(cls, t)

    # --------------------------------------------------------- containers
    def contains(self, ex, container, item):
        if isinstance(container, PSet):
            if not isinstance(item, Sym):
                return item in container.s
            return mk_bool(z3.Or(*[lift_bool(ops.values_equal(ex, item, x))
                                   if not isinstance(ops.values_equal(ex, item, x), bool)
                                   else z3.BoolVal(ops.values_equal(ex, item, x))
                                   for x in container.s])) if container.s else False
        if isinstance(container, SymSet):
            return mk_bool(z3.Select(container.arr, lift_int(item)))
        if isinstance(container, SymMap):
            return mk_bool(z3.Select(container.dom, lift_int(item)))
        if isinstance(container, PDict):
            item = ex.hashable(item) if isinstance(item, Sym) else item
            return item in container.d
        if isinstance(container, (PList, tuple, list)):
            items = container.items if isinstance(container, PList) else container
            rs = [ops.values_equal(ex, item, x) for x in items]
            if any(r is True for r in rs):
                return True
            ts = [lift_bool(r) for r in rs if r is not False]
            return mk_bool(z3.Or(*ts)) if ts else False
        if isinstance(container, str) and isinstance(item, str):
            return item in container
        if isinstance(container, (set, frozenset, dict)) and not isinstance(item, Sym):
            return item in container
        if isinstance(container, (set, frozenset)) and isinstance(item, (Sym, tuple)):
            rs = [ops.values_equal(ex, item, x) for x in container]
            if any(r is True for r in rs):
                return True
            ts = [lift_bool(r) for r in rs if r is not False]
            return mk_bool(z3.Or(*ts)) if ts else False
        from .exec import _ObjDict
        if isinstance(container, _ObjDict):
            return item in container.obj.fields
        raise OutOfReach(f"`in` on {container!r}")

    def getitem(self, ex, v, idx):
        from .exec import _ObjDict
        if isinstance(v, JoinList):
            if isinstance(idx, int) and v.head is not None and 0 <= idx < len(v.head):
                return v.head[idx]
            raise OutOfReach("subscript of an abstract list of byte strings")
        if isinstance(idx, SliceObj):
            return self.getslice(ex, v, idx.lo, idx.hi, idx.step)
        if isinstance(v, _ObjDict):
            if idx not in v.obj.fields:
                ex.raise_builtin(KeyError, idx)
            return v.obj.fields[idx]
        if is_byteslike(v):
            return ops.bindex(ex, v, idx)
        if isinstance(v, (tuple, PList)):
            items = v.items if isinstance(v, PList) else v
            ci = idx if isinstance(idx, int) else concrete_int(lift_int(idx))
            if ci is None:
                # symbolic index into a concrete-length sequence: case split
                n = len(items)
                t = lift_int(idx)
                for k in range(-n, n):
                    if ex.fork(t == k, f"index == {k}"):
                        return items[k]
                ex.raise_builtin(IndexError)
            try:
                return items[ci]
            except IndexError:
                ex.raise_builtin(IndexError)
        if isinstance(v, PDict):
            if isinstance(idx, Sym) and idx.ty == INT and concrete_int(lift_int(idx)) is None \
                    and all(isinstance(k, int) and not isinstance(k, bool) for k in v.d):
                # a table with concrete integer keys looked up with a symbolic
                # integer: one path per key, KeyError otherwise
                t = lift_int(idx)
                for k in list(v.d):
                    if ex.fork(t == k, f"key == {k}"):
                        return v.d[k]
                ex.raise_builtin(KeyError, idx)
            k = ex.hashable(idx) if isinstance(idx, Sym) else idx
            if isinstance(k, tuple):
                k = tuple(ex.hashable(x) if isinstance(x, Sym) else x for x in k)
            if k not in v.d:
                ex.raise_builtin(KeyError, k)
            return v.d[k]
        if isinstance(v, SymList):
            i = lift_int(idx)
            if ex.opt.get("spec_mode"):
                return elem_from_arrays(ex, v.schema, v.arrays, z3.simplify(i))
            j = z3.If(i < 0, i + v.length, i)
            if ex.fork(z3.Or(j < 0, j >= v.length), "list index out of range"):
                ex.raise_builtin(IndexError)
            return elem_from_arrays(ex, v.schema, v.arrays, z3.simplify(j))
        if isinstance(v, SymTuple):
            if not isinstance(idx, int) or idx < 0:
                raise OutOfReach("symbolic/negative index into a variable tuple")
            nf = len(v.fixed)
            if idx < nf:
                return v.fixed[idx]
            if not ex.opt.get("spec_mode") and \
                    not ex.fork(v.n > idx - nf, "tuple index in range"):
                ex.raise_builtin(IndexError)
            return v.rest[idx - nf]
        if isinstance(v, SymMap):
            k = lift_int(idx)
            if not ex.opt.get("spec_mode") and \
                    not ex.fork(z3.Select(v.dom, k), "key present"):
                ex.raise_builtin(KeyError, idx)
            return elem_from_arrays(ex, v.schema, v.arrays, k)
        if isinstance(v, (dict, list, str, types.MappingProxyType)) and not isinstance(idx, Sym):
            try:
                return v[idx]
            except (KeyError, IndexError) as e:
                ex.raise_builtin(type(e))
        hook = ex.opt.get("getitem")
        if hook is not None:
            r = hook(ex, v, idx)
            if r is not NotImplemented:
                return r
        raise OutOfReach(f"subscript of {v!r}")

    def getslice(self, ex, v, lo, hi, step):
        if step == -1 and hi is None and isinstance(v, SymList):
            return RevSlice(ex, v, lo)
        if step is not None and step != 1:
            hook = ex.opt.get("getslice_step")
            if hook is not None:
                r = hook(ex, v, lo, hi, step)
                if r is not NotImplemented:
                    return r
            if isinstance(v, (PList, tuple)) and all(
                    x is None or isinstance(x, int) for x in (lo, hi, step)):
                items = v.items if isinstance(v, PList) else v
                r = items[slice(lo, hi, step)]
                return PList(r) if isinstance(v, PList) else r
            raise OutOfReach("extended slice")
        if isinstance(v, str) and all(x is None or isinstance(x, int) for x in (lo, hi)):
            return v[lo:hi]
        if is_byteslike(v):
            if isinstance(v, (bytes, bytearray)) and \
                    all(x is None or isinstance(x, int) for x in (lo, hi)):
                return bytes(v[lo:hi])
            return ops.bslice(v, lo, hi)
        if isinstance(v, (tuple, PList)):
            items = v.items if isinstance(v, PList) else v
            if not all(x is None or isinstance(x, int) for x in (lo, hi)):
                raise OutOfReach("symbolic slice of a tuple/list")
            r = items[lo:hi]
            return PList(r) if isinstance(v, PList) else tuple(r)
        raise OutOfReach(f"slice of {v!r}")

    def setitem(self, ex, v, idx, value):
        from .exec import _ObjDict
        hook = ex.opt.get("on_setitem")
        if hook is not None:
            hook(ex, v, idx, value)       # a contract's obligation on stores into a container
        if isinstance(idx, SliceObj):
            if idx.step is not None and idx.step != 1:
                raise OutOfReach("extended slice assignment")
            return self.setslice(ex, v, idx.lo, idx.hi, value)
        if isinstance(v, _ObjDict):
            v.obj.fields[idx] = value
            return
        if isinstance(v, PDict):
            symbolic = isinstance(idx, Sym) and concrete_int(lift_int(idx)) is None if isinstance(idx, Sym) \
                and idx.ty == INT else (isinstance(idx, tuple) and any(
                    isinstance(x, Sym) and concrete_int(lift_int(x)) is None for x in idx))
            if symbolic and ex.opt.get("ghost_key"):
                # a dict filled under symbolic keys, observed at ONE arbitrary
                # ghost key (contract parameters named by the option): the
                # holder object gets g_present / g_value = what the dict holds
                # at that key (proved for every key, since the key is arbitrary)
                holder, names = ex.opt["ghost_key"]
                gkey = tuple(ex.inputs[n] for n in names)
                kt = idx if isinstance(idx, tuple) else (idx,)
                same = z3.And(*[lift_int(a) == lift_int(b) for a, b in zip(kt, gkey)])
                h = ex.inputs[holder]
                if ex.fork(same, "the key is the ghost key"):
                    h.fields["g_present"] = True
                    h.fields["g_value"] = value
                return
            if symbolic and ex.opt.get("ghost_dict"):
                # a dict filled under symbolic keys: kept as the ghost list of
                # (key, value) insertions, in order (spec function entries());
                # the contract requires the keys to be pairwise distinct
                v.d[("entry", len(v.d))] = (idx, value)
                return
            k = ex.hashable(idx) if isinstance(idx, Sym) else idx
            if isinstance(k, tuple):
                k = tuple(ex.hashable(x) if isinstance(x, Sym) else x for x in k)
            v.d[k] = value
            return
        if isinstance(v, PList):
            ci = idx if isinstance(idx, int) else concrete_int(lift_int(idx))
            if ci is None:
                n = len(v.items)
                t = lift_int(idx)
                for k in range(-n, n):
                    if ex.fork(t == k, f"index == {k}"):
                        v.items[k] = value
                        return
                ex.raise_builtin(IndexError)
            try:
                v.items[ci] = value
            except IndexError:
                ex.raise_builtin(IndexError)
            return
        if isinstance(v, MutBytes):
            s = v.t
            n = b_len(s)
            i = lift_int(idx)
            j = z3.simplify(z3.If(i < 0, i + n, i))
            if ex.fork(z3.Or(j < 0, j >= n), "bytearray index out of range"):
                ex.raise_builtin(IndexError)
            b = lift_int(value)
            if ex.fork(z3.Or(b < 0, b > 255), "byte value out of range"):
                ex.raise_builtin(ValueError)
            v.t = mkb(z3.Store(b_arr(s), j, b), n)
            return
        if isinstance(v, SymList):
            i = lift_int(idx)
            j = z3.If(i < 0, i + v.length, i)
            if ex.fork(z3.Or(j < 0, j >= v.length), "list index out of range"):
                ex.raise_builtin(IndexError)
            elem_to_arrays(ex, v.schema, v.arrays, z3.simplify(j), value)
            return
        if isinstance(v, SymMap):
            k = lift_int(idx)
            v.dom = z3.Store(v.dom, k, True)
            elem_to_arrays(ex, v.schema, v.arrays, k, value)
            return
        hook = ex.opt.get("setitem")
        if hook is not None:
            r = hook(ex, v, idx, value)
            if r is not NotImplemented:
                return
        raise OutOfReach(f"item assignment on {v!r}")

    def setslice(self, ex, v, lo, hi, value):
        if isinstance(v, MutBytes):
            s = v.t
            n = b_len(s)
            a = z3.simplify(ops.norm_index(lo, n, z3.IntVal(0)))
            b = ops.norm_index(hi, n, n)
            b = z3.simplify(z3.If(b < a, a, b))
            new = lift_bytes(value)
            ln = b_len(new)
            # bytearray slice assignment may resize; a memoryview may not
            # (ValueError): `fixed_size` marks buffers that cannot resize
            if getattr(v, "fixed_size", False) and \
                    ex.fork(ln != b - a, "memoryview slice size mismatch"):
                ex.raise_builtin(ValueError)
            k = z3.Int("k!b")
            sa, na = b_arr(s), b_arr(new)
            v.t = mkb(z3.Lambda([k], z3.If(k < a, z3.Select(sa, k), z3.If(
                k < a + ln, z3.Select(na, k - a),
                z3.Select(sa, k - ln + (b - a))))),
                z3.simplify(n - (b - a) + ln))
            return
        raise OutOfReach(f"slice assignment on {v!r}")

    def delitem(self, ex, v, idx):
        if isinstance(v, PDict):
            k = ex.hashable(idx) if isinstance(idx, Sym) else idx
            if k not in v.d:
                ex.raise_builtin(KeyError, k)
            del v.d[k]
            return
        if isinstance(v, SymMap):
            k = lift_int(idx)
            if not ex.fork(z3.Select(v.dom, k), "key present"):
                ex.raise_builtin(KeyError, idx)
            v.dom = z3.Store(v.dom, k, False)
            return
        raise OutOfReach(f"del on {v!r}")

    def inplace(self, ex, op, cur, val):
        if isinstance(cur, JoinList) and op == "+":
            # list += iterable: a bytes-like iterable contributes its *ints*
            if is_byteslike(val):
                if ex.fork(ops.b_len(lift_bytes(val)) > 0, "list += non-empty bytes"):
                    cur.bad = "list element is an int (list += bytes extends with ints)"
                return cur
            for it in ex.iterate_concrete(val):
                _jl_append(ex, cur, it)
            return cur
        if isinstance(cur, PList) and op == "+":
            # list += iterable extends in place with the iterable's elements
            cur.items.extend(ex.iterate_concrete(val))
            return cur
        if isinstance(cur, MutBytes) and op == "+":
            cur.t = ops.bconcat_t(cur.t, lift_bytes(val))
            return cur
        if isinstance(cur, PSet) and op == "|":
            cur.s |= val.s
            return cur
        return ex.binop(op, cur, val)

    def list_repeat(self, ex, lst, n):
        hook = ex.opt.get("list_repeat")
        if hook is not None:
            return hook(ex, lst, n)
        raise OutOfReach("list repetition by a symbolic count")

    # ------------------------------------------------------------ methods
    def method(self, ex, recv, name, args, kwargs):
        key = (type(recv).__name__, name)
        if isinstance(recv, Sym) and recv.ty == BYTES:
            key = ("bytes", name)
        if isinstance(recv, (bytes, bytearray)):
            key = ("bytes", name)
        m = METHODS.get(key)
        if m is None:
            if isinstance(recv, (str, bytes, tuple, dict, list, set)) and \
                    not any(isinstance(a, (Sym, Obj)) for a in args):
                return getattr(recv, name)(*args, **kwargs)
            raise OutOfReach(f"method {name} of {type(recv).__name__}")
        return m(ex, recv, *args, **kwargs)

    # ------------------------------------------------------------- await
    def await_value(self, ex, v, frame, node):
        hook = ex.opt.get("await")
        if hook is not None:
            r = hook(ex, v, frame, node)
            if r is not NotImplemented:
                return r
        if isinstance(v, Obj) and "await" in ex.opt.get("obj_models", {}).get(v.cls, {}):
            return ex.opt["obj_models"][v.cls]["await"](ex, v)
        # coroutine functions are interpreted synchronously: the value of the
        # call is already the result
        return v

    # ---------------------------------------------------- context managers
    def context_manager(self, ex, cm, frame, node):
        from .exec import GenValue, PyRaise, _Return
        if isinstance(cm, GenValue):
            def enter():
                try:
                    return next(cm.gen)
                except StopIteration:
                    raise OutOfReach("context manager generator did not yield")

            def exit_(pr):
                if pr is None:
                    try:
                        next(cm.gen)
                    except StopIteration:
                        return False
                    raise OutOfReach("context manager yielded twice")
                try:
                    cm.gen.throw(pr)
                except StopIteration:
                    return True       # exception swallowed
                except PyRaise as p2:
                    if p2 is pr:
                        return False
                    raise
                raise OutOfReach("context manager yielded twice")
            return enter, exit_
        if isinstance(cm, Obj):
            is_async = isinstance(node, __import__("ast").AsyncWith)
            en = "__aenter__" if is_async else "__enter__"
            exn = "__aexit__" if is_async else "__exit__"

            def enter():
                return ex.call(ex.getattr(cm, en, frame), [], {}, frame, node)

            def exit_(pr):
                if pr is None:
                    ex.call(ex.getattr(cm, exn, frame), [None, None, None], {},
                            frame, node)
                    return False
                r = ex.call(ex.getattr(cm, exn, frame),
                            [pr.exc.cls, pr.exc, None], {}, frame, node)
                return ex.truth(r) if r is not None else False
            return enter, exit_
        if isinstance(cm, CtxPair):
            return cm.enter, cm.exit
        raise OutOfReach(f"with-statement on {cm!r}")


class SliceObj:
    """the builtin slice(lo, hi[, step]) as a value"""

    def __init__(self, lo, hi, step=None):
        self.lo, self.hi, self.step = lo, hi, step


class RevSlice:
    """lst[start::-1] of a list of unknown length, with Python's clamping:
    elements lst[s], lst[s-1], ..., lst[0] where s = min(start, len-1)
    (start < 0 counts from the end; an empty result if s < 0)"""

    def __init__(self, ex, lst, start):
        self.lst = lst
        n = lst.length
        if start is None:
            s = n - 1
        else:
            st = lift_int(start)
            st = z3.If(st < 0, st + n, st)
            s = z3.If(st >= n, n - 1, st)     # may be -1: empty
        self.top = z3.simplify(s)


class SymItems:
    """items() of a symbolic map, to be iterated by a loop with invariant"""

    def __init__(self, model):
        self.model = model


class CtxPair:
    """a context manager given by an enter/exit pair (used by contracts)"""

    def __init__(self, enter, exit_):
        self.enter = enter
        self.exit = exit_


def install(ex):
    ex.lib = Lib()


# ======================================================================
#                               builtins
# ======================================================================

@model(BaseException.add_note)
def m_add_note(ex, args, kw):
    return None


@model(slice)
def m_slice(ex, args, kw):
    if len(args) == 1:
        return SliceObj(None, args[0])
    return SliceObj(*args)


@model(len)
def m_len(ex, args, kw):
    v = args[0]
    if is_byteslike(v):
        return ops.blen(v)
    if isinstance(v, PList):
        return len(v.items)
    if isinstance(v, PDict):
        return len(v.d)
    if isinstance(v, PSet):
        return len(v.s)
    if isinstance(v, SymList):
        return mk_int(v.length)
    if isinstance(v, SymTuple):
        return mk_int(len(v.fixed) + v.n)
    if isinstance(v, JoinList):
        raise OutOfReach("len of an abstract join-list")
    if isinstance(v, (tuple, str, list, dict, set)):
        return len(v)
    if isinstance(v, Obj):
        return ex.call(ex.getattr(v, "__len__"), [], {})
    raise OutOfReach(f"len of {v!r}")


@model(isinstance)
def m_isinstance(ex, args, kw):
    v, cls = args
    classes = cls if isinstance(cls, tuple) else (cls,)
    for c in classes:
        if _isinst(v, c):
            return True
    return False


def _isinst(v, c):
    if isinstance(v, Obj):
        return issubclass(v.cls, c)
    if isinstance(v, Sym):
        if v.ty == INT:
            return c in (int, object)
        if v.ty == BOOL:
            return c in (bool, int, object)
        if v.ty == BYTES:
            return c in (bytes, object)
        if v.ty == REAL:
            return c in (float, object)
    if isinstance(v, SymEnum):
        return issubclass(v.cls, c)
    if isinstance(v, MutBytes):
        return c in (bytearray, object)
    if isinstance(v, PList):
        return c in (list, object)
    if isinstance(v, PDict):
        return c in (dict, object)
    if isinstance(v, PSet):
        return c in (set, object)
    from .exec import OpaqueStr
    if isinstance(v, OpaqueStr):
        return c in (str, object)
    return isinstance(v, c)


@model(min)
def m_min(ex, args, kw):
    if len(args) == 1:
        args = ex.iterate_concrete(args[0])
    r = args[0]
    for a in args[1:]:
        if isinstance(r, int) and isinstance(a, int):
            r = min(r, a)
        else:
            r = mk_int(z3.If(lift_int(a) < lift_int(r), lift_int(a), lift_int(r)))
    return r


@model(max)
def m_max(ex, args, kw):
    if len(args) == 1:
        args = ex.iterate_concrete(args[0])
    if not args:
        ex.raise_builtin(ValueError, "max() arg is an empty sequence")
    r = args[0]
    for a in args[1:]:
        if isinstance(r, int) and isinstance(a, int):
            r = max(r, a)
        else:
            r = mk_int(z3.If(lift_int(a) > lift_int(r), lift_int(a), lift_int(r)))
    return r


@model(abs)
def m_abs(ex, args, kw):
    v = args[0]
    if isinstance(v, (int, float)):
        return abs(v)
    if isinstance(v, Sym) and v.ty == REAL:
        return Sym(z3.If(v.t < 0, -v.t, v.t), REAL)
    t = lift_int(v)
    return mk_int(z3.If(t < 0, -t, t))


@model(int)
def m_int(ex, args, kw):
    v = args[0] if args else 0
    if isinstance(v, (int, float, str)) and not isinstance(v, Sym):
        return int(v)
    if isinstance(v, Sym) and v.ty == REAL:
        # truncation toward zero
        f = z3.ToInt(v.t)
        return mk_int(z3.If(z3.Or(v.t >= 0, z3.ToReal(f) == v.t), f, f + 1))
    return mk_int(lift_int(v))


@model(round)
def m_round(ex, args, kw):
    v = args[0]
    if isinstance(v, (int, float)):
        return round(v)
    if isinstance(v, Sym) and v.ty == REAL:
        # round half to even
        f = z3.ToInt(v.t)
        frac = v.t - z3.ToReal(f)
        return mk_int(z3.If(frac < 0.5, f, z3.If(frac > 0.5, f + 1,
                                                 z3.If(f % 2 == 0, f, f + 1))))
    return v


@model(bool)
def m_bool(ex, args, kw):
    if not args:
        return False
    t = ex.truth_term(args[0])
    if t is not None:
        return mk_bool(t)
    return ex.truth(args[0])


@model(float)
def m_float(ex, args, kw):
    v = args[0]
    if isinstance(v, (int, float)):
        return float(v)
    from .values import lift_real
    return Sym(lift_real(v), REAL)


@model(operator.index)
def m_index(ex, args, kw):
    v = args[0]
    if isinstance(v, (int, bool)):
        return operator.index(v)
    if isinstance(v, Sym) and v.ty in (INT, BOOL):
        return mk_int(lift_int(v))
    ex.raise_builtin(TypeError, "index")


@model(range)
def m_range(ex, args, kw):
    if all(isinstance(a, int) for a in args):
        return range(*args)
    return SymRange(args)


class SymRange:
    def __init__(self, args):
        self.args = args


@model(enumerate)
def m_enumerate(ex, args, kw):
    start = kw.get("start", args[1] if len(args) > 1 else 0)
    if isinstance(args[0], SymList):
        return SymEnumerate(args[0], start)
    items = ex.iterate_concrete(args[0])
    return PList([(start + i, x) for i, x in enumerate(items)])


class SymEnumerate:
    def __init__(self, lst, start):
        self.lst = lst
        self.start = start


@model(zip)
def m_zip(ex, args, kw):
    return PList(list(zip(*[ex.iterate_concrete(a) for a in args])))


@model(list)
def m_list(ex, args, kw):
    if not args:
        return PList()
    if isinstance(args[0], SymList):
        return args[0].snapshot()
    return PList(ex.iterate_concrete(args[0]))


@model(tuple)
def m_tuple(ex, args, kw):
    if not args:
        return ()
    return tuple(ex.iterate_concrete(args[0]))


@model(dict)
def m_dict(ex, args, kw):
    d = PDict()
    if args:
        src = args[0]
        if isinstance(src, PDict):
            d.d.update(src.d)
        else:
            for k, v in ex.iterate_concrete(src):
                d.d[k] = v
    d.d.update(kw)
    return d


@model(set)
def m_set(ex, args, kw):
    if not args:
        return PSet()
    return PSet(ex.iterate_concrete(args[0]))


@model(sorted)
def m_sorted(ex, args, kw):
    items = ex.iterate_concrete(args[0])
    hook = ex.opt.get("sorted")
    if hook is not None:
        return hook(ex, items, kw)
    if all(not isinstance(i, (Sym, Obj)) for i in items) and not kw:
        return PList(sorted(items))
    raise OutOfReach("sorted of symbolic items")


@model(sum)
def m_sum(ex, args, kw):
    items = ex.iterate_concrete(args[0])
    r = args[1] if len(args) > 1 else 0
    for i in items:
        r = ex.binop("+", r, i)
    return r


@model(all)
def m_all(ex, args, kw):
    ts = [ex.truth_term(v) for v in ex.iterate_concrete(args[0])]
    if any(t is None for t in ts):
        raise OutOfReach("all() over non-boolean values")
    return mk_bool(z3.And(*ts)) if ts else True


@model(any)
def m_any(ex, args, kw):
    ts = [ex.truth_term(v) for v in ex.iterate_concrete(args[0])]
    if any(t is None for t in ts):
        raise OutOfReach("any() over non-boolean values")
    return mk_bool(z3.Or(*ts)) if ts else False


@model(bytes)
def m_bytes(ex, args, kw):
    if not args:
        return b""
    v = args[0]
    if isinstance(v, int):
        return bytes(v)
    if isinstance(v, Sym) and v.ty == INT:
        if ex.fork(v.t < 0, "bytes(negative)"):
            ex.raise_builtin(ValueError)
        return ops.zeros(ex, v)
    if isinstance(v, (bytes, bytearray)):
        return bytes(v)
    if is_byteslike(v):
        return mk_bytes(lift_bytes(v))
    items = ex.iterate_concrete(v)
    if all(isinstance(i, int) for i in items):
        return bytes(items)
    arr = ZERO_ARR
    for n, i in enumerate(items):
        t = lift_int(i)
        if ex.fork(z3.Or(t < 0, t > 255), "bytes element out of range"):
            ex.raise_builtin(ValueError, "bytes must be in range(0, 256)")
        arr = z3.Store(arr, n, t)
    return mk_bytes(mkb(arr, z3.IntVal(len(items))))


@model(bytearray)
def m_bytearray(ex, args, kw):
    if not args:
        return MutBytes(lift_bytes(b""))
    v = args[0]
    if isinstance(v, int) or (isinstance(v, Sym) and v.ty == INT):
        return MutBytes(lift_bytes(m_bytes(ex, [v], {})))
    return MutBytes(lift_bytes(v))


@model(memoryview)
def m_memoryview(ex, args, kw):
    return args[0]


@model(str)
def m_str(ex, args, kw):
    from .exec import OpaqueStr
    if args and isinstance(args[0], str):
        return args[0]
    return OpaqueStr()


@model(repr, print, id)
def m_opaque(ex, args, kw):
    from .exec import OpaqueStr
    return OpaqueStr()


@model(getattr)
def m_getattr(ex, args, kw):
    from .exec import PyRaise
    try:
        return ex.getattr(args[0], args[1])
    except PyRaise as p:
        if len(args) > 2 and issubclass(p.exc.cls, AttributeError):
            return args[2]
        raise


@model(setattr)
def m_setattr(ex, args, kw):
    ex.setattr(args[0], args[1], args[2])


@model(hasattr)
def m_hasattr(ex, args, kw):
    from .exec import PyRaise
    try:
        ex.getattr(args[0], args[1])
        return True
    except PyRaise as p:
        if issubclass(p.exc.cls, AttributeError):
            return False
        raise


@model(type)
def m_type(ex, args, kw):
    v = args[0]
    if isinstance(v, Obj):
        return v.cls
    if isinstance(v, SymEnum):
        return v.cls
    if isinstance(v, Sym):
        return {INT: int, BOOL: bool, BYTES: bytes, REAL: float}[v.ty]
    return type(v)


@model(object.__new__)
def m_object_new(ex, args, kw):
    return Obj(args[0], {}, ex.fresh_name(args[0].__name__))


# ======================================================================
#                               struct
# ======================================================================

_SIZES = {"b": 1, "B": 1, "h": 2, "H": 2, "i": 4, "I": 4, "l": 4, "L": 4,
          "q": 8, "Q": 8, "?": 1, "x": 1, "c": 1}


def parse_format(fmt):
    """-> (byteorder, [(code, count)]) for the formats the repo uses.
    native/'@' formats are laid out with struct.calcsize of every prefix
    (so native alignment is taken from CPython itself)"""
    if not isinstance(fmt, str):
        raise OutOfReach("symbolic struct format")
    order = "@"
    if fmt and fmt[0] in "<>!=@":
        order = fmt[0]
        fmt = fmt[1:]
    items = []
    num = ""
    for ch in fmt:
        if ch.isdigit():
            num += ch
            continue
        if ch.isspace():
            continue
        n = int(num) if num else 1
        num = ""
        if ch in "sp":
            items.append((ch, n))
        elif ch == "x":
            items.append(("x", n))
        elif ch in _SIZES:
            items += [(ch, 1)] * n
        else:
            raise OutOfReach(f"struct format character {ch!r}")
    return order, items


def layout(fmt):
    """[(code, count, offset, size)] and total size, offsets from CPython"""
    order, items = parse_format(fmt)
    prefix = order if order != "@" else ""
    out = []
    sofar = prefix
    for code, n in items:
        piece = (str(n) if code in "spx" else "") + code
        size = struct.calcsize((prefix or "@") + piece) if order != "@" else \
            struct.calcsize(piece)
        end = struct.calcsize(sofar + piece)
        out.append((code, n, end - size, size))
        sofar += piece
    total = struct.calcsize(fmt)
    return order, out, total


def int_to_bytes(ex, t, size, signed, big):
    """list of `size` z3 Int byte values (in memory order)"""
    lo = -(1 << (8 * size - 1)) if signed else 0
    hi = (1 << (8 * size - 1)) - 1 if signed else (1 << (8 * size)) - 1
    if ex.fork(z3.Or(t < lo, t > hi), "struct.pack argument out of range"):
        ex.raise_builtin(struct.error, "argument out of range")
    u = z3.If(t < 0, t + (1 << (8 * size)), t) if signed else t
    bs = [z3.simplify((u / (1 << (8 * k))) % 256) for k in range(size)]
    if size > 1 and not z3.is_int_value(z3.simplify(u)):
        # arithmetic identity (0 <= u < 256**size on this path): the bytes
        # recompose to u.  Stated as a fact so that the solver need not
        # rediscover it through div/mod reasoning.
        ex.assume(z3.Sum(*[b * (1 << (8 * k)) for k, b in enumerate(bs)]) == u)
        for b in bs:
            ex.assume(z3.And(b >= 0, b <= 255))
    if big:
        bs.reverse()
    return bs


def bytes_to_int(ex, s, off, size, signed, big):
    ks = range(size)
    elems = [ops.byte_at(ex, s, z3.simplify(off + k)) for k in ks]
    if big:
        elems.reverse()
    u = z3.Sum(*[e * (1 << (8 * k)) for k, e in enumerate(elems)]) \
        if size > 1 else elems[0]
    if signed:
        return z3.If(u >= (1 << (8 * size - 1)), u - (1 << (8 * size)), u)
    return u


def do_pack(ex, fmt, values):
    order, lay, total = layout(fmt)
    big = order in ">!"
    need = sum(1 for code, n, _, _ in lay if code != "x")
    if need != len(values):
        ex.raise_builtin(struct.error, "pack expected %d items" % need)
    if all(isinstance(v, (int, bytes, bool)) for v in values):
        try:
            return struct.pack(fmt, *values)
        except struct.error:
            ex.raise_builtin(struct.error, "pack")
    arr = ZERO_ARR          # all offsets are concrete: plain stores
    vi = 0
    k = z3.Int("k!b")
    for code, n, off, size in lay:
        if code == "x":
            continue
        v = values[vi]
        vi += 1
        if code in "sp":
            if not is_byteslike(v):
                ex.raise_builtin(struct.error, "s/p needs bytes")
            b = lift_bytes(v)
            ln, ba = b_len(b), b_arr(b)
            if code == "s":
                # truncated or zero padded to n bytes
                arr = z3.Lambda([k], z3.If(z3.And(k >= off, k < off + n),
                                           z3.If(k - off < ln, z3.Select(ba, k - off), 0),
                                           z3.Select(arr, k)))
            else:
                cnt = z3.If(ln < n - 1, ln, n - 1)
                cnt = z3.If(cnt > 255, 255, cnt)
                arr = z3.Lambda([k], z3.If(k == off, cnt, z3.If(
                    z3.And(k > off, k < off + n),
                    z3.If(k - off - 1 < cnt, z3.Select(ba, k - off - 1), 0),
                    z3.Select(arr, k))))
        elif code == "?":
            arr = z3.Store(arr, off, z3.If(ex.truth_term(v), 1, 0))
        else:
            if not ops.is_intlike(v):
                ex.raise_builtin(struct.error, "required argument is not an integer")
            for i, bt in enumerate(int_to_bytes(ex, lift_int(v), size,
                                                code.islower(), big)):
                arr = z3.Store(arr, off + i, bt)
    return mk_bytes(mkb(arr, z3.IntVal(total)))


def do_unpack(ex, fmt, data, offset=0, exact=True):
    order, lay, total = layout(fmt)
    big = order in ">!"
    if isinstance(data, (bytes, bytearray)) and isinstance(offset, int):
        try:
            if exact:
                return struct.unpack(fmt, data)
            return struct.unpack_from(fmt, data, offset)
        except struct.error:
            ex.raise_builtin(struct.error, "unpack")
    s = lift_bytes(data)
    n = b_len(s)
    off = lift_int(offset)
    if exact:
        bad = n != total
    else:
        off = z3.If(off < 0, off + n, off)
        bad = z3.Or(off < 0, n - off < total)
    if ex.fork(bad, "struct.unpack buffer size mismatch"):
        ex.raise_builtin(struct.error, "unpack requires a buffer of %d bytes" % total)
    off = z3.simplify(off)
    out = []
    for code, cnt, o, size in lay:
        if code == "x":
            continue
        if code == "s":
            out.append(mk_bytes(ops.bslice_t(s, off + o, z3.IntVal(cnt))))
        elif code == "p":
            k = ops.byte_at(ex, s, z3.simplify(off + o))
            k = z3.If(k > cnt - 1, cnt - 1, k)
            out.append(mk_bytes(ops.bslice_t(s, off + o + 1, k)))
        elif code == "?":
            out.append(mk_bool(ops.byte_at(ex, s, z3.simplify(off + o)) != 0))
        else:
            out.append(mk_int(bytes_to_int(ex, s, off + o, size,
                                           code.islower(), big)))
    return tuple(out)


@model(struct.pack)
def m_pack(ex, args, kw):
    hook = ex.opt.get("struct_symbolic")
    if hook is not None and not isinstance(args[0], str):
        return hook(ex, "pack", args)
    return do_pack(ex, args[0], list(args[1:]))


@model(struct.unpack)
def m_unpack(ex, args, kw):
    hook = ex.opt.get("struct_symbolic")
    if hook is not None and not isinstance(args[0], str):
        return hook(ex, "unpack", args)
    return do_unpack(ex, args[0], args[1])


@model(struct.unpack_from)
def m_unpack_from(ex, args, kw):
    off = args[2] if len(args) > 2 else kw.get("offset", 0)
    return do_unpack(ex, args[0], args[1], off, exact=False)


@model(struct.pack_into)
def m_pack_into(ex, args, kw):
    """CPython checks the buffer size, zeroes the destination and then
    converts value by value: after a refused value the region's content is
    unspecified (modelled as arbitrary bytes), unlike pack + slice assignment"""
    from .exec import PyRaise
    from .types import T, fresh
    fmt, buf, offset = args[0], args[1], args[2]
    off = lift_int(offset)
    if not isinstance(buf, MutBytes):
        raise OutOfReach("pack_into a buffer that is not a bytearray")
    if isinstance(fmt, str):
        try:
            n0 = struct.calcsize(fmt)
        except struct.error:
            ex.raise_builtin(struct.error, "bad format")
        if ex.fork(z3.Or(off < 0, off + n0 > b_len(buf.t)), "pack_into beyond the buffer"):
            ex.raise_builtin(struct.error, "pack_into requires a buffer of sufficient size")
        try:
            data = do_pack(ex, fmt, list(args[3:]))
        except PyRaise:
            junk = fresh(ex, T.Bytes, "pack_into_refused")
            ex.assume(b_len(junk.t) == n0)
            ex.lib.setslice(ex, buf, Sym(off, INT), Sym(z3.simplify(off + n0), INT), junk)
            raise
    else:
        data = do_pack(ex, fmt, list(args[3:]))
    n = ops.b_len(lift_bytes(data))
    if ex.fork(z3.Or(off < 0, off + n > b_len(buf.t)), "pack_into beyond the buffer"):
        ex.raise_builtin(struct.error, "pack_into requires a buffer of sufficient size")
    ex.lib.setslice(ex, buf, Sym(off, INT), Sym(z3.simplify(off + n), INT), data)
    return None


@model(struct.calcsize)
def m_calcsize(ex, args, kw):
    hook = ex.opt.get("struct_symbolic")
    if hook is not None and not isinstance(args[0], str):
        return hook(ex, "calcsize", args)
    if not isinstance(args[0], str):
        raise OutOfReach("calcsize of a symbolic format")
    try:
        return struct.calcsize(args[0])
    except struct.error:
        ex.raise_builtin(struct.error, "bad format")


class StructObj:
    def __init__(self, fmt):
        self.fmt = fmt
        self.size = struct.calcsize(fmt)


@model(struct.Struct)
def m_Struct(ex, args, kw):
    return StructObj(args[0])


# ======================================================================
#                               methods
# ======================================================================

def method_of(*keys):
    def deco(f):
        for k in keys:
            METHODS[k] = f
        return f
    return deco


@method_of(("StructObj", "pack"))
def _so_pack(ex, so, *values):
    return do_pack(ex, so.fmt, list(values))


@method_of(("StructObj", "unpack_from"))
def _so_unpack_from(ex, so, data, offset=0):
    return do_unpack(ex, so.fmt, data, offset, exact=False)


@method_of(("StructObj", "unpack"))
def _so_unpack(ex, so, data):
    return do_unpack(ex, so.fmt, data)


@method_of(("PList", "append"))
def _pl_append(ex, l, v):
    l.items.append(v)


@method_of(("PList", "extend"))
def _pl_extend(ex, l, v):
    l.items.extend(ex.iterate_concrete(v))


@method_of(("PList", "pop"))
def _pl_pop(ex, l, i=-1):
    try:
        return l.items.pop(i)
    except IndexError:
        ex.raise_builtin(IndexError)


@method_of(("PList", "copy"))
def _pl_copy(ex, l):
    return PList(l.items)


@method_of(("PList", "index"), ("tuple", "index"))
def _pl_index(ex, l, v):
    items = l.items if isinstance(l, PList) else l
    for i, x in enumerate(items):
        r = ops.values_equal(ex, x, v)
        if r is True or (r is not False and ex.fork(lift_bool(r), f"index: element {i} matches")):
            return i
    ex.raise_builtin(ValueError, "not in list")


@method_of(("PList", "sort"))
def _pl_sort(ex, l, key=None, reverse=False):
    hook = ex.opt.get("sort")
    if hook is not None:
        return hook(ex, l, key, reverse)
    # a list of concrete length with (possibly symbolic) integer keys: stable
    # insertion sort, forking on every comparison the order depends on.
    # list.sort is stable, also with reverse=True (equal keys keep their order)
    items = list(l.items)
    keys = [ex.call(key, [it], {}) if key is not None else it for it in items]
    for k in keys:
        if not is_intlike(k):
            raise OutOfReach("list.sort with non-integer keys")
    order = []
    for i in range(len(items)):
        pos = len(order)
        while pos > 0:
            a, b = lift_int(keys[order[pos - 1]]), lift_int(keys[i])
            before = (a < b) if reverse else (a > b)     # must the new item move in front?
            if not ex.fork(before, "sort comparison"):
                break
            pos -= 1
        order.insert(pos, i)
    l.items[:] = [items[i] for i in order]
    return None


@method_of(("RevSlice", "index"))
def _rs_index(ex, rs, value):
    """first position of `value` in the reversed slice (list.index)"""
    lst, top = rs.lst, rs.top
    if value is not None:
        raise OutOfReach("RevSlice.index of a value other than None")
    arr = lst.arrays["v"]
    k = z3.Int(ex.fresh_name("k!idx"))
    exists = z3.Exists([k], z3.And(k >= 0, k <= top, z3.Select(arr, k) == NONE_CODE))
    if not ex.fork(exists, "a None element exists in the slice"):
        ex.raise_builtin(ValueError, "None is not in list")
    j = z3.Int(ex.fresh_name("index"))
    q = z3.Int(ex.fresh_name("k!idx"))
    ex.assume(z3.And(j >= 0, j <= top, z3.Select(arr, top - j) == NONE_CODE))
    ex.assume(z3.ForAll([q], z3.Implies(z3.And(q >= 0, q < j),
                                        z3.Select(arr, top - q) != NONE_CODE)))
    return Sym(j, INT)


@method_of(("SymList", "append"))
def _sl_append(ex, l, v):
    elem_to_arrays(ex, l.schema, l.arrays, l.length, v)
    l.length = z3.simplify(l.length + 1)


@method_of(("PDict", "get"))
def _pd_get(ex, d, k, default=None):
    k = ex.hashable(k) if isinstance(k, Sym) else k
    return d.d.get(k, default)


@method_of(("PDict", "items"))
def _pd_items(ex, d):
    return PList([(k, v) for k, v in d.d.items()])


@method_of(("PDict", "values"))
def _pd_values(ex, d):
    return PList(list(d.d.values()))


@method_of(("PDict", "keys"))
def _pd_keys(ex, d):
    return PList(list(d.d.keys()))


@method_of(("PDict", "pop"))
def _pd_pop(ex, d, k, *default):
    k = ex.hashable(k) if isinstance(k, Sym) else k
    if k in d.d:
        return d.d.pop(k)
    if default:
        return default[0]
    ex.raise_builtin(KeyError, k)


@method_of(("PDict", "update"))
def _pd_update(ex, d, other=None, **kw):
    if other is not None:
        d.d.update(other.d if isinstance(other, PDict) else other)
    d.d.update(kw)


@method_of(("PDict", "setdefault"))
def _pd_setdefault(ex, d, k, default=None):
    return d.d.setdefault(k, default)


@method_of(("_ObjDict", "get"))
def _od_get(ex, d, k, default=None):
    from .exec import Unbound
    v = d.obj.fields.get(k, default)
    return default if v is Unbound else v


@method_of(("_ObjDict", "setdefault"))
def _od_setdefault(ex, d, name, default=None):
    from .exec import Unbound
    if not isinstance(name, str):
        raise OutOfReach("__dict__.setdefault with a symbolic key")
    if d.obj.fields.get(name, Unbound) is Unbound:
        d.obj.fields[name] = default
    return d.obj.fields[name]


@method_of(("_ObjDict", "values"))
def _od_values(ex, d):
    return PList(list(d.obj.fields.values()))


@method_of(("_ObjDict", "items"))
def _od_items(ex, d):
    return PList(list(d.obj.fields.items()))


@method_of(("SymMap", "get"))
def _sm_get(ex, m, k, default=None):
    kt = lift_int(k)
    if ex.fork(z3.Select(m.dom, kt), "key present"):
        return elem_from_arrays(ex, m.schema, m.arrays, kt)
    return default


@method_of(("SymMap", "pop"))
def _sm_pop(ex, m, k, *default):
    kt = lift_int(k)
    if ex.fork(z3.Select(m.dom, kt), "key present"):
        v = elem_from_arrays(ex, m.schema, m.arrays, kt)
        m.dom = z3.Store(m.dom, kt, False)
        return v
    if default:
        return default[0]
    ex.raise_builtin(KeyError, k)


@method_of(("PSet", "add"))
def _ps_add(ex, s, v):
    s.s.add(v)


@method_of(("PSet", "discard"))
def _ps_discard(ex, s, v):
    s.s.discard(v)


@method_of(("PSet", "copy"))
def _ps_copy(ex, s):
    return PSet(s.s)


@method_of(("SymSet", "add"))
def _ss_add(ex, s, v):
    s.arr = z3.Store(s.arr, lift_int(v), True)


@method_of(("SymSet", "discard"))
def _ss_discard(ex, s, v):
    s.arr = z3.Store(s.arr, lift_int(v), False)


@method_of(("bytes", "join"))
def _b_join(ex, sep, items):
    if isinstance(items, JoinList):
        if len(sep) != 0:
            raise OutOfReach("join with separator over an abstract list")
        if items.bad is not None:
            ex.raise_builtin(TypeError, items.bad)
        return mk_bytes(items.t)
    parts = ex.iterate_concrete(items)
    if not parts:
        return b""
    for p in parts:
        if not is_byteslike(p):
            ex.raise_builtin(TypeError, "sequence item: expected a bytes-like object")
    out = parts[0]
    for p in parts[1:]:
        if len(sep):
            out = ops.bconcat(out, sep)
        out = ops.bconcat(out, p)
    return out if isinstance(out, (bytes, Sym)) else mk_bytes(lift_bytes(out))


@method_of(("str", "join"))
def _s_join(ex, sep, items):
    parts = ex.iterate_concrete(items)
    if not all(isinstance(p, str) for p in parts):
        raise OutOfReach("str.join over non-concrete strings")
    return sep.join(parts)


@method_of(("bytes", "decode"))
def _b_decode(ex, b, *a):
    from .exec import OpaqueStr
    return OpaqueStr()


@method_of(("MutBytes", "cast"))
def _mb_cast(ex, b, *a):
    return b


@method_of(("MutBytes", "get_obj"))
def _mb_get_obj(ex, b):
    return b


class JoinList:
    """abstraction of a list of byte strings that is only appended to and
    joined: its state is the concatenation (declared per function in the
    contract: `joinlists = {"ret"}`)"""

    def __init__(self, t=None):
        self.t = t if t is not None else lift_bytes(b"")
        self.bad = None
        self.head = []        # the first elements, as long as they are known

    def snapshot(self):
        j = JoinList(self.t)
        j.bad = self.bad
        j.head = list(self.head)
        return j


@method_of(("JoinList", "append"))
def _jl_append(ex, j, v):
    if not is_byteslike(v):
        j.bad = "list element is not bytes-like"
        return
    if j.head is not None and z3.is_int_value(z3.simplify(ops.b_len(j.t))) and \
            z3.simplify(ops.b_len(j.t)).as_long() == 0 and not j.head:
        j.head = [v]
    elif j.head is not None and len(j.head) < 4 and getattr(j, "_complete", True):
        j.head.append(v)
    j.t = ops.bconcat_t(j.t, lift_bytes(v))


# ----------------------------------------------------------------------
# asyncio primitives needed by every async function: coroutines are run
# synchronously, `await` adds the interference point (exec.e_Await)

@model(asyncio.sleep)
def m_sleep(ex, args, kw):
    return None
