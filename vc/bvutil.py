"""Bit-vector helpers shared by the bpfvc based checks."""
import z3

_MUL = {}


def mul_uf(width):
    if width not in _MUL:
        s = z3.BitVecSort(width)
        _MUL[width] = z3.Function(f"MUL{width}", s, s, s)
    return _MUL[width]


def factors(t, width):
    """factors of a (nested) uninterpreted product"""
    f = _MUL.get(width)
    if f is not None and z3.is_app(t) and t.decl().eq(f):
        return factors(t.arg(0), width) + factors(t.arg(1), width)
    return [t]


def ac_mul(width, terms):
    """canonical form of an uninterpreted product: factors flattened and
    sorted, folded to the left (multiplication is associative and commutative,
    so every association denotes the same value)"""
    fs = []
    for t in terms:
        fs += factors(z3.simplify(t), width)
    fs.sort(key=lambda k: k.sexpr())
    acc = fs[0]
    f = mul_uf(width)
    for k in fs[1:]:
        acc = f(acc, k)
    return acc


def abstract_mul(t, cache=None):
    """replace every product of two non-constant bit-vectors by an
    uninterpreted function application MULw(x, y) (arguments ordered by term
    id so that x*y and y*x coincide).  Proving a formula with MULw
    uninterpreted proves it for the real multiplication (sound weakening of
    what is known about *); products with a constant are kept."""
    if cache is None:
        cache = {}
    key = t.get_id()
    if key in cache:
        return cache[key][1]
    if z3.is_quantifier(t) or not z3.is_app(t):
        cache[key] = (t, t)
        return t
    kids = [abstract_mul(c, cache) for c in t.children()]
    r = None
    if z3.is_bv(t) and t.decl().kind() == z3.Z3_OP_BMUL:
        nonconst = [k for k in kids if not z3.is_bv_value(k)]
        if len(nonconst) >= 2:
            const = [k for k in kids if z3.is_bv_value(k)]
            acc = ac_mul(t.size(), nonconst)
            for c in const:
                acc = acc * c
            r = acc
    if r is None:
        if kids and any(not a.eq(b) for a, b in zip(kids, t.children())):
            r = t.decl()(*kids)
        else:
            r = t
    cache[key] = (t, r)
    return r


_DIV, _REM = {}, {}


def udiv_uf(width):
    if width not in _DIV:
        s = z3.BitVecSort(width)
        _DIV[width] = z3.Function(f"UDIV{width}", s, s, s)
    return _DIV[width]


def urem_uf(width):
    if width not in _REM:
        s = z3.BitVecSort(width)
        _REM[width] = z3.Function(f"UREM{width}", s, s, s)
    return _REM[width]


def narrow_axioms(formulas):
    """facts linking the 32-bit uninterpreted operations to the 64-bit ones:
    for every application OP32(x, y) in the formulas,
    zext(OP32(x, y)) == OP64(zext x, zext y)   (true of unsigned / and %);
    for MUL: extract_32(MUL64(zext x, zext y)) == MUL32(x, y)"""
    seen, out = set(), []
    pairs = []
    if 32 in _DIV:
        pairs.append((_DIV[32], udiv_uf(64), "z"))
    if 32 in _REM:
        pairs.append((_REM[32], urem_uf(64), "z"))
    if 32 in _MUL:
        pairs.append((_MUL[32], mul_uf(64), "m"))

    def visit(t):
        if t.get_id() in seen or not z3.is_app(t):
            return
        seen.add(t.get_id())
        for f32, f64, how in pairs:
            if t.decl().eq(f32):
                x, y = t.arg(0), t.arg(1)
                big = f64(z3.ZeroExt(32, x), z3.ZeroExt(32, y))
                if how == "z":
                    out.append(z3.ZeroExt(32, t) == big)
                else:
                    a, b = sorted((z3.simplify(z3.ZeroExt(32, x)), z3.simplify(z3.ZeroExt(32, y))),
                                  key=lambda u: u.sexpr())
                    out.append(t == z3.Extract(31, 0, f64(a, b)))
        if 64 in _MUL and t.decl().eq(_MUL[64]):
            # the low half of a product depends only on the low halves
            lo = [z3.Extract(31, 0, t.arg(0)), z3.Extract(31, 0, t.arg(1))]
            if not all(z3.is_bv_value(z3.simplify(x)) for x in lo):
                out.append(z3.Extract(31, 0, t) == ac_mul(32, lo))
        for c in t.children():
            visit(c)
    for f in formulas:
        visit(f)
    # commutativity / associativity instances for the uninterpreted products
    import itertools
    done = set()
    for w, fn in list(_MUL.items()):
        def walk(t):
            if t.get_id() in done or not z3.is_app(t):
                return
            done.add(t.get_id())
            if t.decl().eq(fn):
                fs = factors(t, w)
                if len(fs) <= 3:
                    for perm in itertools.permutations(fs):
                        acc = perm[0]
                        for k in perm[1:]:
                            acc = fn(acc, k)
                        if not acc.eq(t):
                            out.append(t == acc)
            for c in t.children():
                walk(c)
        for f in formulas:
            walk(f)
    return out


def realize_axioms(formulas):
    """for a witness search: tie every uninterpreted MUL/UDIV/UREM application
    to the real operation (makes the query as hard as the real arithmetic, so
    it is only used together with hints that fix one operand)"""
    out, seen = [], set()

    def visit(t):
        if t.get_id() in seen or not z3.is_app(t):
            return
        seen.add(t.get_id())
        for table, op in ((_MUL, lambda a, b: a * b), (_DIV, z3.UDiv), (_REM, z3.URem)):
            for w, fn in table.items():
                if t.decl().eq(fn):
                    out.append(t == op(t.arg(0), t.arg(1)))
        for c in t.children():
            visit(c)
    for f in formulas:
        visit(f)
    return out
