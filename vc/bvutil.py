"""Bit-vector helpers shared by the bpfvc based checks."""
import z3

_MUL = {}


def mul_uf(width):
    if width not in _MUL:
        s = z3.BitVecSort(width)
        _MUL[width] = z3.Function(f"MUL{width}", s, s, s)
    return _MUL[width]


def abstract_mul(t, cache=None):
    """replace every product of two non-constant bit-vectors by an
    uninterpreted function application MULw(x, y) (arguments ordered by term
    id so that x*y and y*x coincide).  Proving a formula with MULw
    uninterpreted proves it for the real multiplication (sound weakening of
    what is known about *); products with a constant are kept."""
    if cache is None:
        cache = {}
    key = t.get_id()
    if key in cache:
        return cache[key][1]
    if z3.is_quantifier(t) or not z3.is_app(t):
        cache[key] = (t, t)
        return t
    kids = [abstract_mul(c, cache) for c in t.children()]
    r = None
    if z3.is_bv(t) and t.decl().kind() == z3.Z3_OP_BMUL:
        nonconst = [k for k in kids if not z3.is_bv_value(k)]
        if len(nonconst) >= 2:
            const = [k for k in kids if z3.is_bv_value(k)]
            nonconst.sort(key=lambda k: k.sexpr())
            acc = nonconst[0]
            f = mul_uf(t.size())
            for k in nonconst[1:]:
                acc = f(acc, k)
            for c in const:
                acc = acc * c
            r = acc
    if r is None:
        if kids and any(not a.eq(b) for a, b in zip(kids, t.children())):
            r = t.decl()(*kids)
        else:
            r = t
    cache[key] = (t, r)
    return r
