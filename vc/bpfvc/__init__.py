"""bpfvc: symbolic executor for eBPF bytecode over z3 bit-vectors."""
from .isa import Insn, decode, disasm, disasm_program
from .values import (
    ConcreteError, MapModel, MapRef, Obligation, Ptr, Region,
    hash_region_name, load_bytes)
from .machine import Env, Machine, RunResult, State, run
from .concrete import ConcreteResult, run_concrete
