"""Concrete mode: the same machine on BitVecVal inputs, for replaying
counterexamples and for the differential test against the kernel."""
import z3

from .machine import Env, Machine
from .values import BV64, ConcreteError, MapRef, Ptr, Region, bv, simp


class ConcreteResult(tuple):
    """(exit_kind, r0, regs, mem) plus .failed .tail_index .calls .trace .state.
    exit_kind: 'EXIT', 'TAILCALL', 'ABORT' (path ended by a failure) or
    'FAULT' (ran to the end but a safety obligation is violated)."""


def concrete_array(data):
    mem = z3.K(BV64, bv(0, 8))
    for i, byte in enumerate(bytes(data)):
        if byte:
            mem = z3.Store(mem, bv(i), bv(byte, 8))
    return mem


def array_bytes(mem, size):
    """the first `size` bytes of a concrete array term"""
    out, mem, seen = bytearray(size), simp(mem), set()
    while z3.is_store(mem):
        mem, idx, val = mem.children()
        if not (z3.is_bv_value(idx) and z3.is_bv_value(val)):
            raise ConcreteError(f"memory is not concrete: [{idx}] = {val}")
        i = idx.as_long()
        if i < size and i not in seen:
            out[i] = val.as_long()
        seen.add(i)
    if not (z3.is_K(mem) and z3.is_bv_value(mem.arg(0))):
        raise ConcreteError(f"memory is not concrete: {mem}")
    default = mem.arg(0).as_long()
    for i in range(size):
        if i not in seen:
            out[i] = default
    return bytes(out)


def _concrete_value(value):
    if value is None or isinstance(value, MapRef):
        return value
    term = simp(value.off if isinstance(value, Ptr) else value)
    if not z3.is_bv_value(term):
        raise ConcreteError(f"value is not concrete: {term}")
    return Ptr(value.region, term) if isinstance(value, Ptr) else term.as_long()


def run_concrete(code, env, regs=None, mem=None, pkt=None, helper_script=None):
    """run `code` on concrete inputs with the same machine.

    regs: register number -> int (or Ptr / MapRef).  mem: region name -> bytes
    (stack and array-map regions default to zero bytes; a 'map<fd>:<keyhex>'
    entry creates that hash entry's value).  pkt: packet bytes for ctx='xdp'.
    helper_script: {'fresh': [ints, consumed in order by ktime_get_ns,
    get_prandom_u32, scalar ctx loads, r0 after a failed tail call],
    'present': {hash region name: bool}, 'registered': [tail-call indices]}.
    Returns ConcreteResult (exit_kind, r0, regs, mem: region name -> bytes)."""
    script = dict(helper_script or {})
    script["fresh"] = list(script.get("fresh", ()))
    registered = None
    if "registered" in script:
        indices = set(script["registered"])
        registered = lambda index: z3.BoolVal(index.as_long() in indices)
    if env.ctx == "xdp" and pkt is None:
        raise ConcreteError("ctx='xdp' needs pkt")
    cenv = Env(ctx=env.ctx, maps=env.maps, registered=registered,
               pkt_len=bv(len(pkt or b"")), pkt_mem=concrete_array(pkt or b""),
               pkt_len_max=None, tail_call_r0=env.tail_call_r0)
    st = cenv.initial_state()
    if env.ctx is None:
        st.regs[1] = None
    mem = dict(mem or {})
    for name, region in st.regions.items():
        if name not in ("ctx", "pkt"):
            region.mem = concrete_array(mem.pop(name, b""))
    for name, data in mem.items():
        fd = name.split(":")[0][3:]
        if not (name.startswith("map") and ":" in name and fd.isdigit()
                and int(fd) in env.maps):
            raise ConcreteError(f"no region {name!r} in this environment")
        st.regions[name] = Region(name, env.maps[int(fd)].value_size,
                                  concrete_array(data))
    for name, flag in script.get("present", {}).items():
        st.present[name] = z3.BoolVal(bool(flag))
    for r, value in (regs or {}).items():
        st.regs[r] = bv(value) if isinstance(value, int) else value
    machine = Machine(code, cenv, max_paths=2, concrete=True, script=script)
    res = machine.run(st)
    final, = res.paths + res.aborted
    failed = [ob for ob in res.obligations if not z3.is_true(simp(ob.cond))]
    kind = "FAULT" if failed and final.exit != "ABORT" else final.exit
    out_mem = {name: array_bytes(region.mem, simp(region.size_bv).as_long())
               for name, region in final.regions.items() if name != "ctx"}
    result = ConcreteResult((
        kind, _concrete_value(final.r0) if final.exit == "EXIT" else None,
        {r: _concrete_value(v) for r, v in enumerate(final.regs)}, out_mem))
    result.failed, result.calls, result.trace = failed, final.calls, final.trace
    result.state = final
    result.tail_index = None if final.tail_index is None \
        else final.tail_index.as_long()
    return result
