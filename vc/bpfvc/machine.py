"""Symbolic eBPF machine over z3 bit-vectors (semantics: RFC 9669).

A register holds a z3 64-bit bit-vector (scalar), a `Ptr(region, off)`, a
`MapRef(fd)` or `None` (uninitialised).  Memory is a set of named regions,
each a z3 array from byte offset to byte.  `run` explores every path of a
loop-free program; safety conditions are *collected* as `Obligation`s, to be
proved by the caller (`RunResult.failed_obligations`).  Whatever the machine
cannot model ends the path with a failed (cond = False) obligation and puts
the state into `RunResult.aborted`; nothing is skipped silently.

values.py: Ptr, MapRef, MapModel, Region, Obligation (re-exported here);
helpers.py: the helper-call contracts (mixin of Machine);
concrete.py: run_concrete, the same machine on concrete inputs.
"""
import z3

from . import isa
from .helpers import HelperCalls
from .values import (    # noqa: F401 (re-exported)
    BV8, BV64, ConcreteError, MapModel, MapRef, Obligation, Ptr, Region,
    _Abort, _off64, bv, hash_region_name, is_scalar, load_bytes, simp)

STACK_SIZE = 512
XDP_CTX_SIZE = 24


class State:
    __slots__ = ("regs", "regions", "pc", "trace", "calls", "present", "ghost",
                 "ip", "nfresh", "exit", "r0", "tail_index")

    def __init__(self):
        self.regs = [None] * 11
        self.regions = {}
        self.pc = []            # path condition: list of z3 Bool
        self.trace = []         # slots executed
        self.calls = []         # helper call records (dicts)
        self.present = {}       # hash entry region name -> z3 Bool
        self.ghost = {}         # free for the caller
        self.ip = 0
        self.nfresh = 0
        self.exit = None        # 'EXIT' | 'TAILCALL' | 'ABORT'
        self.r0 = None
        self.tail_index = None

    def fork(self):
        s = State()
        s.regs = list(self.regs)
        s.regions = {k: r.copy() for k, r in self.regions.items()}
        s.pc, s.trace, s.calls = list(self.pc), list(self.trace), list(self.calls)
        s.present, s.ghost = dict(self.present), dict(self.ghost)
        s.ip, s.nfresh = self.ip, self.nfresh
        return s


class Env:
    """configuration of a run.

    ctx: 'xdp' or None.  maps: fd -> MapModel.  registered: callable from the
    BV32 tail-call index to a z3 Bool (must imply index < max_entries).
    regs: register number -> initial value, overriding the defaults.
    assumptions: z3 Bools put into the initial path condition.
    pkt_len_max: explicit assumption ULE(pkt_len, pkt_len_max), None for none.
    tail_call_r0: 'fresh' (any value) or 'uninit' (as the kernel verifier sees
    it) for r0 after a tail call that fell through."""

    def __init__(self, ctx=None, maps=None, registered=None, regs=None,
                 pkt_len=None, pkt_mem=None, pkt_len_max=0xffff,
                 assumptions=(), tail_call_r0="fresh"):
        if ctx not in (None, "xdp"):
            raise ValueError(f"unknown context kind {ctx!r}")
        if tail_call_r0 not in ("fresh", "uninit"):
            raise ValueError(tail_call_r0)
        self.ctx, self.maps, self.registered = ctx, dict(maps or {}), registered
        self.regs = dict(regs or {})
        self.pkt_len = z3.BitVec("pkt_len", 64) if pkt_len is None else pkt_len
        self.pkt_mem = pkt_mem
        self.pkt_len_max = pkt_len_max
        self.assumptions = list(assumptions)
        self.tail_call_r0 = tail_call_r0

    def initial_state(self):
        st = State()
        st.regions["stack"] = Region("stack", STACK_SIZE)
        st.regs[10] = Ptr("stack", STACK_SIZE)
        st.pc = list(self.assumptions)
        if self.ctx == "xdp":
            st.regions["ctx"] = Region("ctx", XDP_CTX_SIZE, writable=False)
            st.regions["pkt"] = Region("pkt", self.pkt_len, self.pkt_mem)
            st.regs[1] = Ptr("ctx", 0)
            if self.pkt_len_max is not None:
                st.pc.append(z3.ULE(_off64(self.pkt_len), bv(self.pkt_len_max)))
        else:
            st.regs[1] = z3.BitVec("r1_init", 64)
        for fd, model in self.maps.items():
            if model.kind == "array":
                st.regions[f"map{fd}"] = Region(f"map{fd}", model.value_size)
        for r, value in self.regs.items():
            st.regs[r] = value
        return st


class RunResult:
    def __init__(self, paths, aborted, obligations, stats):
        self.paths, self.aborted = paths, aborted
        self.obligations, self.stats = obligations, stats

    def failed_obligations(self, hyps=(), timeout_ms=20000):
        """[(obligation, 'refuted' | 'unknown')] for those z3 cannot prove"""
        failed = []
        for ob in self.obligations:
            s = z3.Solver()
            s.set("timeout", timeout_ms)
            s.add(*hyps)
            s.add(*ob.pc)
            s.add(z3.Not(ob.cond))
            r = s.check()
            if r != z3.unsat:
                failed.append((ob, "refuted" if r == z3.sat else "unknown"))
        return failed


_CMP = {
    isa.JEQ: lambda a, b: a == b, isa.JNE: lambda a, b: a != b,
    isa.JGT: z3.UGT, isa.JGE: z3.UGE, isa.JLT: z3.ULT, isa.JLE: z3.ULE,
    isa.JSGT: lambda a, b: a > b, isa.JSGE: lambda a, b: a >= b,
    isa.JSLT: lambda a, b: a < b, isa.JSLE: lambda a, b: a <= b,
    isa.JSET: lambda a, b: (a & b) != 0,
}
_UNSIGNED_ORDER = (isa.JGT, isa.JGE, isa.JLT, isa.JLE)


ABSTRACT_MUL = [False]     # set by the caller around run(); never in concrete mode


def alu_scalar(code, a, b, bits):
    """result of `a <op>= b` for two bit-vectors of width `bits`"""
    mask = bv(bits - 1, bits)
    zero = bv(0, bits)
    if code == isa.ADD: return a + b
    if code == isa.SUB: return a - b
    if code == isa.MUL:
        if ABSTRACT_MUL[0] and not z3.is_bv_value(simp(a)) \
                and not z3.is_bv_value(simp(b)):
            # sound weakening for proofs: the product of two non-constant
            # values is an uninterpreted function (arguments in a canonical
            # order); see vc/bvutil.py
            from ..bvutil import ac_mul
            return ac_mul(bits, [a, b])
        return a * b
    if code in (isa.DIV, isa.MOD) and ABSTRACT_MUL[0] and \
            not (z3.is_bv_value(simp(a)) and z3.is_bv_value(simp(b))):
        # unsigned quotient / remainder as uninterpreted functions (sound
        # weakening for proofs); the by-zero rules of the ISA stay explicit
        from ..bvutil import udiv_uf, urem_uf
        if code == isa.DIV:
            return z3.If(b == zero, zero, udiv_uf(bits)(a, b))
        return z3.If(b == zero, a, urem_uf(bits)(a, b))
    if code == isa.DIV: return z3.If(b == zero, zero, z3.UDiv(a, b))
    if code == isa.MOD: return z3.If(b == zero, a, z3.URem(a, b))
    if code == isa.OR: return a | b
    if code == isa.AND: return a & b
    if code == isa.XOR: return a ^ b
    if code == isa.LSH: return a << (b & mask)
    if code == isa.RSH: return z3.LShR(a, b & mask)
    if code == isa.ARSH: return a >> (b & mask)
    if code == isa.MOV: return b
    raise AssertionError(code)


def byteswap(value, bits):
    """zero-extended byte swap of the low `bits` bits of a BV64"""
    parts = [z3.Extract(8 * i + 7, 8 * i, value) for i in range(bits // 8)]
    swapped = z3.Concat(*parts)         # least significant byte first = MSB
    return swapped if bits == 64 else z3.ZeroExt(64 - bits, swapped)


class Machine(HelperCalls):
    def __init__(self, code, env, max_paths=20000, solver_timeout_ms=2000,
                 concrete=False, script=None):
        self.slots = isa.decode(code)
        self.env, self.max_paths = env, max_paths
        self.solver_timeout_ms = solver_timeout_ms
        self.concrete, self.script = concrete, script
        self.paths, self.aborted, self.obligations = [], [], []
        self.stats = {"insns": 0, "solver_calls": 0, "solver_unknown": 0,
                      "obligations_trivial": 0, "forks": 0, "infeasible": 0}

    # ---- bookkeeping ---------------------------------------------------
    def oblige(self, st, kind, cond, desc):
        if z3.is_true(simp(cond)):
            self.stats["obligations_trivial"] += 1
        else:
            self.obligations.append(
                Obligation(kind, st.ip, tuple(st.pc), cond, desc))

    def fail(self, st, kind, desc):
        """a failed obligation that also ends the path"""
        self.obligations.append(
            Obligation(kind, st.ip, tuple(st.pc), z3.BoolVal(False), desc))
        raise _Abort

    def fresh(self, st, label, bits):
        st.nfresh += 1
        if self.concrete:
            values = self.script.get("fresh")
            if not values:
                raise ConcreteError(f"helper_script['fresh'] exhausted at "
                                    f"slot {st.ip} ({label})")
            return bv(values.pop(0), bits)
        return z3.BitVec(f"{label}!{st.ip}!{st.nfresh}", bits)

    def feasible(self, pc, cond):
        self.stats["solver_calls"] += 1
        s = z3.Solver()
        s.set("timeout", self.solver_timeout_ms)
        s.add(*pc)
        s.add(cond)
        r = s.check()
        if r == z3.unknown:
            self.stats["solver_unknown"] += 1
        return r != z3.unsat

    def branch(self, st, cond):
        """[(state, outcome)] for the feasible outcomes of `cond`"""
        decided = simp(cond)     # only to decide: the pc keeps the readable form
        if z3.is_true(decided):
            return [(st, True)]
        if z3.is_false(decided):
            return [(st, False)]
        if self.concrete:
            raise ConcreteError(f"slot {st.ip}: condition is not concrete: {cond}")
        ncond = z3.Not(cond)
        yes = self.feasible(st.pc, cond)
        no = self.feasible(st.pc, ncond) if yes else True
        if yes and no:
            self.stats["forks"] += 1
            other = st.fork()
            st.pc.append(cond)
            other.pc.append(ncond)
            return [(st, True), (other, False)]
        self.stats["infeasible"] += 1
        known = cond if yes else ncond      # implied by pc; kept for the reader
        if not any(known.eq(c) for c in st.pc):
            st.pc.append(known)
        return [(st, yes)]

    def reserved(self, st, ok, what):
        if not ok:
            self.oblige(st, "reserved", z3.BoolVal(False),
                        f"reserved field not zero ({what}); the kernel rejects this")

    # ---- registers and memory ------------------------------------------
    def read_reg(self, st, r):
        if r > 10:
            self.fail(st, "unsupported", f"register r{r} does not exist")
        value = st.regs[r]
        if value is None:
            self.fail(st, "uninit", f"read of uninitialised r{r}")
        return value

    def write_reg(self, st, r, value):
        if r >= 10:
            self.fail(st, "unsupported", f"write to r{r} (r10 is read-only)")
        st.regs[r] = simp(value) if is_scalar(value) else value

    def scalar_arg(self, st, r, what):
        value = self.read_reg(st, r)
        if not is_scalar(value):
            self.fail(st, "helper-arg", f"{what}: r{r} = {value} is not a scalar")
        return value

    def access(self, st, base, off, n, write, what):
        """(region, address) for an n byte access at pointer `base` + off"""
        if not isinstance(base, Ptr):
            self.fail(st, "deref", f"{what}: {base} is not a pointer")
        region = st.regions.get(base.region)
        if region is None:
            self.fail(st, "deref", f"{what}: no region {base.region!r}")
        addr = simp(base.off + off)
        self.oblige(st, "bounds", region.in_bounds(addr, n),
                    f"{what}: {n} bytes at {base.region}[{addr}], "
                    f"size {region.size}")
        if write and not region.writable:
            self.fail(st, "readonly", f"{what}: region {region.name} is read-only")
        return region, addr

    def load(self, st, base, off, n, what):
        region, addr = self.access(st, base, off, n, False, what)
        if region.name == "ctx" and self.env.ctx == "xdp":
            return self.load_xdp_ctx(st, addr, n)
        return z3.ZeroExt(64 - 8 * n, region.read(addr, n)) if n < 8 \
            else region.read(addr, n)

    def load_xdp_ctx(self, st, addr, n):
        if not z3.is_bv_value(addr):
            self.fail(st, "unsupported", f"ctx access at symbolic offset {addr}")
        off = addr.as_signed_long()
        if n != 4 or off % 4 or not 0 <= off <= XDP_CTX_SIZE - 4:
            self.fail(st, "ctx-access", f"xdp_md access of {n} bytes at {off}")
        if off == 0:
            return Ptr("pkt", 0)
        if off == 4:
            return Ptr("pkt", st.regions["pkt"].size_bv)
        return z3.ZeroExt(32, self.fresh(st, f"ctx{off}", 32))

    # ---- instruction classes -------------------------------------------
    def step(self, st):
        """execute the instruction at st.ip; returns the live successors"""
        if not 0 <= st.ip < len(self.slots):
            self.fail(st, "fall-off-end", f"control reaches slot {st.ip}, "
                      f"outside of the program (0..{len(self.slots) - 1})")
        insn = self.slots[st.ip]
        if insn is None:
            self.fail(st, "bad-jump", "jump into the second slot of ld_imm64")
        st.trace.append(st.ip)
        self.stats["insns"] += 1
        cls = insn.opcode & 0x07
        if cls in (isa.ALU, isa.ALU64):
            self.alu(st, insn, cls == isa.ALU64)
        elif cls in (isa.JMP, isa.JMP32):
            return self.jmp(st, insn, cls == isa.JMP)
        elif insn.opcode == isa.OP_LD_IMM64:
            self.ld_imm64(st, insn)
        elif cls != isa.LD and insn.opcode & 0xe0 == isa.MODE_MEM:
            self.mem(st, insn, cls, isa.SIZE_BYTES[insn.opcode & 0x18])
        elif insn.opcode in (isa.OP_XADD_W, isa.OP_XADD_DW):
            self.xadd(st, insn, isa.SIZE_BYTES[insn.opcode & 0x18])
        else:
            self.fail(st, "unsupported", f"opcode {insn.opcode:#04x}")
        st.ip += insn.nslots
        return [st]

    def ld_imm64(self, st, insn):
        self.reserved(st, insn.off == 0, "ld_imm64 off")
        if insn.src == 0:
            self.write_reg(st, insn.dst, bv(insn.imm64))
        elif insn.src == isa.PSEUDO_MAP_FD:
            if insn.imm not in self.env.maps:
                self.fail(st, "unsupported", f"map fd {insn.imm} is not in env.maps")
            self.reserved(st, insn.imm64 >> 32 == 0, "ld_imm64 map fd high half")
            self.write_reg(st, insn.dst, MapRef(insn.imm))
        else:
            self.fail(st, "unsupported", f"ld_imm64 pseudo src={insn.src}")

    def mem(self, st, insn, cls, n):
        what = isa.disasm(insn)
        if cls == isa.LDX:
            self.reserved(st, insn.imm == 0, "ldx imm")
            value = self.load(st, self.read_reg(st, insn.src), insn.off, n, what)
            self.write_reg(st, insn.dst, value)
            return
        if cls == isa.ST:
            self.reserved(st, insn.src == 0, "st src")
            value = bv(insn.imm, 8 * n)     # sign-extended, truncated to size
        else:
            self.reserved(st, insn.imm == 0, "stx imm")
            value = self.read_reg(st, insn.src)
            if not is_scalar(value):
                self.fail(st, "unsupported", f"{what}: store of {value} to memory")
            value = z3.Extract(8 * n - 1, 0, value)
        region, addr = self.access(st, self.read_reg(st, insn.dst), insn.off,
                                   n, True, what)
        region.write(addr, n, simp(value))

    def xadd(self, st, insn, n):
        what = isa.disasm(insn)
        if insn.imm != 0:
            self.fail(st, "unsupported", f"atomic operation imm={insn.imm:#x}")
        value = self.read_reg(st, insn.src)
        if not is_scalar(value):
            self.fail(st, "ptr-arith", f"{what}: atomic add of {value}")
        region, addr = self.access(st, self.read_reg(st, insn.dst), insn.off,
                                   n, True, what)
        old = region.read(addr, n)
        region.write(addr, n, simp(old + z3.Extract(8 * n - 1, 0, value)))

    def alu(self, st, insn, is64):
        code, use_reg = insn.opcode & 0xf0, insn.opcode & isa.X
        what = isa.disasm(insn)
        if insn.off != 0 or code > isa.END:
            self.fail(st, "unsupported", f"{what}: opcode {insn.opcode:#04x} "
                      f"off={insn.off} (ISA v4 or invalid)")
        if code == isa.END:
            if is64 or insn.imm not in (16, 32, 64):
                self.fail(st, "unsupported", f"byte swap {insn.opcode:#04x} "
                          f"imm={insn.imm}")
            self.reserved(st, insn.src == 0, "end src")
            a = self.read_reg(st, insn.dst)
            if not is_scalar(a):
                self.fail(st, "ptr-arith", f"{what} on {a}")
            if use_reg:         # to big endian on a little endian host: swap
                res = byteswap(a, insn.imm)
            else:               # to little endian: truncate
                res = a if insn.imm == 64 else \
                    z3.ZeroExt(64 - insn.imm, z3.Extract(insn.imm - 1, 0, a))
            self.write_reg(st, insn.dst, res)
            return
        if code == isa.NEG:
            self.reserved(st, not use_reg and insn.src == 0 and insn.imm == 0,
                          "neg src/imm/X")
            a = self.read_reg(st, insn.dst)
            if not is_scalar(a):
                self.fail(st, "ptr-arith", f"{what} on {a}")
            res = -a if is64 else z3.ZeroExt(32, -z3.Extract(31, 0, a))
            self.write_reg(st, insn.dst, res)
            return
        if use_reg:
            self.reserved(st, insn.imm == 0, "alu X imm")
            b = self.read_reg(st, insn.src)
        else:
            self.reserved(st, insn.src == 0, "alu K src")
            b = bv(insn.imm)                # sign-extended to 64 bits
        if code == isa.MOV:
            if is_scalar(b):
                res = b if is64 else z3.ZeroExt(32, z3.Extract(31, 0, b))
            elif is64:
                res = b
            else:
                self.fail(st, "ptr-arith", f"{what}: 32-bit move of {b}")
            self.write_reg(st, insn.dst, res)
            return
        a = self.read_reg(st, insn.dst)
        if is_scalar(a) and is_scalar(b):
            if is64:
                res = alu_scalar(code, a, b, 64)
            else:
                res = z3.ZeroExt(32, alu_scalar(
                    code, z3.Extract(31, 0, a), z3.Extract(31, 0, b), 32))
        elif is64 and code == isa.ADD and isinstance(a, Ptr) and is_scalar(b):
            res = Ptr(a.region, simp(a.off + b))
        elif is64 and code == isa.ADD and is_scalar(a) and isinstance(b, Ptr):
            res = Ptr(b.region, simp(b.off + a))
        elif is64 and code == isa.SUB and isinstance(a, Ptr) and is_scalar(b):
            res = Ptr(a.region, simp(a.off - b))
        elif is64 and code == isa.SUB and isinstance(a, Ptr) \
                and isinstance(b, Ptr) and a.region == b.region:
            res = a.off - b.off
        else:
            self.fail(st, "ptr-arith", f"{what}: dst = {a}, operand = {b}")
        self.write_reg(st, insn.dst, res)

    def compare(self, st, code, a, b, is64, what):
        """z3 Bool for `a <code> b`"""
        if is_scalar(a) and is_scalar(b):
            if not is64:
                a, b = z3.Extract(31, 0, a), z3.Extract(31, 0, b)
            return _CMP[code](a, b)
        if not is64:
            self.fail(st, "ptr-compare", f"{what}: 32-bit compare of {a}, {b}")
        if isinstance(a, Ptr) and isinstance(b, Ptr) and a.region == b.region:
            if code in _UNSIGNED_ORDER:
                # equals the comparison of the addresses if neither offset is
                # before the region (regions do not wrap the address space)
                self.oblige(st, "ptr-compare", z3.And(a.off >= 0, b.off >= 0),
                            f"{what}: ordered compare needs offsets >= 0")
            elif code not in (isa.JEQ, isa.JNE):
                self.fail(st, "ptr-compare", f"{what}: {a} with {b}")
            return _CMP[code](a.off, b.off)
        for p, s in ((a, b), (b, a)):
            if isinstance(p, Ptr) and is_scalar(s) and code in (isa.JEQ, isa.JNE) \
                    and z3.is_bv_value(simp(s)) and simp(s).as_long() == 0:
                return z3.BoolVal(code == isa.JNE)      # a Ptr is never null
        self.fail(st, "ptr-compare", f"{what}: {a} with {b}")

    def jmp(self, st, insn, is64):
        code, use_reg = insn.opcode & 0xf0, insn.opcode & isa.X
        what = isa.disasm(insn)
        target = st.ip + insn.off + 1
        if code in (isa.EXIT, isa.CALL) or code == isa.JA:
            if not is64:
                self.fail(st, "unsupported", f"opcode {insn.opcode:#04x} (jmp32)")
            if use_reg:
                self.fail(st, "unsupported", f"opcode {insn.opcode:#04x} (X form)")
        if code == isa.EXIT:
            self.reserved(st, (insn.dst, insn.src, insn.off, insn.imm) == (0,) * 4,
                          "exit fields")
            r0 = self.read_reg(st, 0)
            if not is_scalar(r0):
                self.fail(st, "ptr-leak", f"exit with r0 = {r0}")
            st.exit, st.r0 = "EXIT", r0
            self.paths.append(st)
            return []
        if code == isa.CALL:
            return self.call(st, insn)
        if code != isa.JA and code not in isa.CONDITIONAL_JUMPS:
            self.fail(st, "unsupported", f"opcode {insn.opcode:#04x}")
        if target <= st.ip:
            self.fail(st, "unsupported", f"{what}: backward jump (loop)")
        if target >= len(self.slots) or self.slots[target] is None:
            self.fail(st, "bad-jump", f"{what}: no instruction at slot {target}")
        if code == isa.JA:
            self.reserved(st, (insn.dst, insn.src, insn.imm) == (0, 0, 0),
                          "ja fields")
            st.ip = target
            return [st]
        a = self.read_reg(st, insn.dst)
        if use_reg:
            self.reserved(st, insn.imm == 0, "jmp X imm")
            b = self.read_reg(st, insn.src)
        else:
            self.reserved(st, insn.src == 0, "jmp K src")
            b = bv(insn.imm)                # sign-extended; low half for jmp32
        cond = self.compare(st, code, a, b, is64, what)
        out = []
        for s, taken in self.branch(st, cond):
            s.ip = target if taken else s.ip + 1
            out.append(s)
        return out

    # ---- exploration ------------------------------------------------------
    def run(self, init_state):
        stack = [init_state]
        while stack:
            if len(stack) + len(self.paths) + len(self.aborted) > self.max_paths:
                self.obligations.append(Obligation(
                    "unsupported", stack[-1].ip, (), z3.BoolVal(False),
                    f"more than max_paths={self.max_paths} paths; "
                    f"{len(stack)} states left unexplored"))
                self.stats["truncated"] = True
                break
            st = stack.pop()
            try:
                succ = self.step(st)
            except _Abort:
                st.exit = "ABORT"
                self.aborted.append(st)
                continue
            stack.extend(reversed(succ))
        self.stats["paths"] = len(self.paths)
        self.stats["aborted"] = len(self.aborted)
        return RunResult(self.paths, self.aborted, self.obligations, self.stats)


def run(code, env, init_state=None, max_paths=20000, solver_timeout_ms=2000):
    """explore all paths of `code` depth-first; see RunResult"""
    machine = Machine(code, env, max_paths, solver_timeout_ms)
    return machine.run(env.initial_state() if init_state is None else init_state)


def run_concrete(code, env, regs=None, mem=None, pkt=None, helper_script=None):
    """concrete mode, see concrete.run_concrete"""
    from .concrete import run_concrete as impl
    return impl(code, env, regs, mem, pkt, helper_script)
