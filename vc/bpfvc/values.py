"""Values and memory of the symbolic eBPF machine: scalars are z3 BV64 terms,
pointers are `Ptr(region, off)`, map references `MapRef(fd)`; memory is a set
of `Region`s, each a z3 array from byte offset to byte."""
from collections import namedtuple

import z3

BV64, BV8 = z3.BitVecSort(64), z3.BitVecSort(8)
ENOENT, E2BIG, EEXIST, EINVAL = 2, 7, 17, 22


def bv(value, bits=64):
    return z3.BitVecVal(value, bits)


def simp(term):
    return z3.simplify(term)


def is_scalar(value):
    return z3.is_bv(value)


def _off64(off):
    return bv(off) if isinstance(off, int) else off


class Ptr:
    """pointer `off` bytes (signed BV64) after the start of region `region`"""
    __slots__ = ("region", "off")

    def __init__(self, region, off):
        self.region, self.off = region, _off64(off)

    def __repr__(self):
        return f"Ptr({self.region}, {simp(self.off)})"


class MapRef:
    """what LD_IMM64 with src=1 loads: a reference to the map with this fd"""
    __slots__ = ("fd",)

    def __init__(self, fd):
        self.fd = fd

    def __repr__(self):
        return f"MapRef({self.fd})"


class MapModel:
    """kind: 'array' (one entry, 4 byte key), 'hash' (ghost entry per concrete
    key), 'prog_array' (tail calls only).  `update_may_fail`: map_update_elem
    of an absent hash key may also fail with -E2BIG (map full)."""

    def __init__(self, kind, key_size, value_size, update_may_fail=False):
        if kind not in ("array", "hash", "prog_array"):
            raise ValueError(f"unknown map kind {kind!r}")
        self.kind, self.key_size, self.value_size = kind, key_size, value_size
        self.update_may_fail = update_may_fail


def hash_region_name(fd, key):
    """region holding the value of `key` (bytes) in the hash map `fd`; its
    initial contents are the z3 array `<name>_init`, its initial presence the
    z3 Bool `<name>_present`"""
    return f"map{fd}:{bytes(key).hex()}"


class Region:
    """`size` bytes (int or BV64 term) of memory; `mem` maps offset to byte.
    Mutable; `State.fork` copies it."""

    def __init__(self, name, size, mem=None, writable=True):
        if not (isinstance(size, int) and not isinstance(size, bool)
                or z3.is_bv(size) and size.size() == 64):
            raise TypeError(f"region {name}: size must be int or BV64, got {size!r}")
        self.name, self.size, self.writable = name, size, writable
        self.mem = z3.Array(f"{name}_init", BV64, BV8) if mem is None else mem

    @property
    def size_bv(self):
        return _off64(self.size)

    def copy(self):
        return Region(self.name, self.size, self.mem, self.writable)

    def read(self, off, n):
        """little-endian value of the n bytes at off, as BV(8n)"""
        off = _off64(off)
        parts = [z3.Select(self.mem, simp(off + i)) for i in reversed(range(n))]
        return parts[0] if n == 1 else z3.Concat(*parts)

    def write(self, off, n, value):
        """store BV(8n) `value` little-endian at off"""
        assert value.size() == 8 * n, (value.size(), n)
        off = _off64(off)
        for i in range(n):
            self.mem = z3.Store(self.mem, simp(off + i),
                                z3.Extract(8 * i + 7, 8 * i, value))

    def in_bounds(self, off, n):
        """0 <= off and off + n <= size, without wrap-around"""
        off, size = _off64(off), self.size_bv
        return z3.And(off >= 0, z3.UGE(size, bv(n)), z3.ULE(off, size - n))


def load_bytes(region, off, n):
    return region.read(off, n)


Obligation = namedtuple("Obligation", "kind slot pc cond desc")
# kind: 'bounds' 'readonly' 'uninit' 'ptr-arith' 'ptr-compare' 'deref'
#       'ctx-access' 'reserved' 'bad-jump' 'fall-off-end' 'ptr-leak'
#       'helper-arg' 'unsupported'.  To prove: And(pc) implies cond.


class ConcreteError(Exception):
    """concrete mode met something that is not a concrete value"""


class _Abort(Exception):
    pass
