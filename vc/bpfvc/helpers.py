"""Contracts of the helper functions (CALL imm) as a mixin of Machine."""
import z3

from . import isa
from .values import (
    BV64, E2BIG, EEXIST, EINVAL, ENOENT, ConcreteError, MapRef, Ptr, Region, bv,
    hash_region_name, simp)


class HelperCalls:
    """needs from the machine: env, concrete, fail, fresh, branch, reserved,
    read_reg, scalar_arg, access, paths"""

    def call(self, st, insn):
        if insn.src != 0:
            self.fail(st, "unsupported", f"call with src={insn.src} "
                      f"(bpf-to-bpf call or kfunc)")
        self.reserved(st, insn.dst == 0 and insn.off == 0, "call dst/off")
        hid = insn.imm
        name = isa.HELPER_NAMES.get(hid)
        rec = {"slot": st.ip, "helper": hid, "name": name}
        st.calls.append(rec)
        if hid in (1, 2, 3):
            succ = self.map_helper(st, hid, rec)
        elif hid == 5:
            succ = [(st, self.fresh(st, "ktime", 64))]
        elif hid == 7:
            succ = [(st, z3.ZeroExt(32, self.fresh(st, "prandom", 32)))]
        elif hid == 12:
            succ = self.tail_call(st, rec)
        else:
            self.fail(st, "unsupported", f"unsupported helper {hid}")
        out = []
        for s, r0 in succ:
            # the record of the forked state is its own copy
            s.calls[-1] = dict(s.calls[-1], result=r0)
            s.regs[0] = r0
            s.regs[1:6] = [None] * 5
            s.ip += 1
            out.append(s)
        return out

    def map_arg(self, st, kinds):
        ref = self.read_reg(st, 1)
        if not isinstance(ref, MapRef):
            self.fail(st, "helper-arg", f"r1 = {ref} is not a map")
        model = self.env.maps[ref.fd]
        if model.kind not in kinds:
            self.fail(st, "unsupported", f"helper on a {model.kind} map")
        return ref.fd, model

    def map_helper(self, st, hid, rec):
        """lookup (1), update (2), delete (3) -> [(state, r0)]"""
        fd, model = self.map_arg(st, ("array", "hash"))
        key = simp(self.load_arg(st, 2, model.key_size, "key"))
        rec.update(fd=fd, key=key)
        if model.kind == "array":
            if model.key_size != 4:
                self.fail(st, "unsupported", "array map with key_size != 4")
            if hid == 2:
                self.fail(st, "unsupported", "map_update_elem on an array map")
            if hid == 3:                    # array_map_delete_elem
                return [(st, bv(-EINVAL))]
            return [(s, Ptr(f"map{fd}", 0) if hit else bv(0))
                    for s, hit in self.branch(st, key == 0)]
        if not z3.is_bv_value(key):
            self.fail(st, "unsupported", f"hash map key is not concrete: {key}")
        name = hash_region_name(fd, key.as_long().to_bytes(model.key_size, "little"))
        rec["region"] = name
        present = st.present.get(name)
        if present is None:
            if self.concrete:
                raise ConcreteError(f"helper_script['present'][{name!r}] missing")
            present = z3.Bool(f"{name}_present")
        if name not in st.regions:
            mem = None                      # the symbolic array <name>_init
            if self.concrete:               # an absent entry's bytes are unused
                if not z3.is_false(present):
                    raise ConcreteError(f"mem[{name!r}] missing for a present entry")
                mem = z3.K(BV64, bv(0, 8))
            st.regions[name] = Region(name, model.value_size, mem)
        if hid == 1:
            return [(s, Ptr(name, 0) if hit else bv(0))
                    for s, hit in self.branch(st, present)]
        if hid == 3:
            out = []
            for s, hit in self.branch(st, present):
                s.present[name] = z3.BoolVal(False)
                out.append((s, bv(0) if hit else bv(-ENOENT)))
            return out
        flags = simp(self.scalar_arg(st, 4, "flags"))
        if not z3.is_bv_value(flags) or flags.as_long() not in (0, 1, 2):
            self.fail(st, "unsupported", f"map_update_elem flags {flags}")
        flags = flags.as_long()             # 0 ANY, 1 NOEXIST, 2 EXIST
        value = self.load_arg(st, 3, model.value_size, "value")
        rec.update(flags=flags, value=value)
        out = []
        for s, hit in self.branch(st, present):
            if (hit and flags == 1) or (not hit and flags == 2):
                out.append((s, bv(-EEXIST if hit else -ENOENT)))
                continue
            full = self.fresh(s, "mapfull", 1) == 1 \
                if not hit and model.update_may_fail else z3.BoolVal(False)
            for s2, is_full in self.branch(s, full):
                if is_full:
                    s2.present[name] = z3.BoolVal(False)
                    out.append((s2, bv(-E2BIG)))
                else:
                    s2.present[name] = z3.BoolVal(True)
                    s2.regions[name].write(0, model.value_size, value)
                    out.append((s2, bv(0)))
        return out

    def load_arg(self, st, r, n, what):
        """the n bytes a helper reads through the pointer in register r"""
        base = self.read_reg(st, r)
        region, addr = self.access(st, base, 0, n, False, f"helper {what} r{r}")
        if region.name == "ctx":
            self.fail(st, "unsupported", f"helper {what} in the context")
        return region.read(addr, n)

    def tail_call(self, st, rec):
        ctx = self.read_reg(st, 1)
        if self.env.ctx is not None and not (
                isinstance(ctx, Ptr) and ctx.region == "ctx"
                and z3.is_bv_value(simp(ctx.off)) and simp(ctx.off).as_long() == 0):
            self.fail(st, "helper-arg", f"tail_call: r1 = {ctx} is not the context")
        ref = self.read_reg(st, 2)
        if not isinstance(ref, MapRef) or self.env.maps[ref.fd].kind != "prog_array":
            self.fail(st, "helper-arg", f"tail_call: r2 = {ref} is not a prog_array")
        index = simp(z3.Extract(31, 0, self.scalar_arg(st, 3, "tail_call index")))
        if self.env.registered is None:
            self.fail(st, "unsupported", "tail_call without env.registered")
        rec.update(fd=ref.fd, index=index)
        out = []
        for s, hit in self.branch(st, self.env.registered(index)):
            if hit:
                s.calls[-1] = dict(s.calls[-1], result="TAILCALL")
                s.exit, s.tail_index = "TAILCALL", index
                self.paths.append(s)
            elif self.env.tail_call_r0 == "uninit":
                out.append((s, None))
            else:
                out.append((s, self.fresh(s, "tailcall_r0", 64)))
        return out
