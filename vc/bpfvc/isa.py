"""eBPF instruction set: decoding and disassembly (RFC 9669).

An instruction is 8 bytes, little endian "<BBHI":
    opcode, dst | src << 4, off (16 bit), imm (32 bit)
LD_IMM64 (opcode 0x18) occupies two slots; the second slot has opcode 0 and
carries the high 32 bits of the immediate in its imm field.

Nothing in here knows about z3; the semantics live in machine.py.
"""
from collections import namedtuple
from struct import unpack_from

# instruction classes (opcode & 7)
LD, LDX, ST, STX, ALU, JMP, JMP32, ALU64 = range(8)
CLASS_NAMES = ["ld", "ldx", "st", "stx", "alu", "jmp", "jmp32", "alu64"]

# source bit for ALU and JMP classes
K, X = 0x00, 0x08

# ALU operations (opcode & 0xf0)
ADD, SUB, MUL, DIV, OR, AND, LSH, RSH, NEG, MOD, XOR, MOV, ARSH, END = \
    range(0x00, 0xe0, 0x10)
ALU_NAMES = {ADD: "add", SUB: "sub", MUL: "mul", DIV: "div", OR: "or",
             AND: "and", LSH: "lsh", RSH: "rsh", NEG: "neg", MOD: "mod",
             XOR: "xor", MOV: "mov", ARSH: "arsh", END: "end"}
ALU_SYMBOLS = {ADD: "+=", SUB: "-=", MUL: "*=", DIV: "/=", OR: "|=",
               AND: "&=", LSH: "<<=", RSH: ">>=", MOD: "%=", XOR: "^=",
               MOV: "=", ARSH: "s>>="}

# JMP operations (opcode & 0xf0)
JA, JEQ, JGT, JGE, JSET, JNE, JSGT, JSGE, CALL, EXIT, JLT, JLE, JSLT, JSLE = \
    range(0x00, 0xe0, 0x10)
JMP_NAMES = {JA: "ja", JEQ: "jeq", JGT: "jgt", JGE: "jge", JSET: "jset",
             JNE: "jne", JSGT: "jsgt", JSGE: "jsge", CALL: "call",
             EXIT: "exit", JLT: "jlt", JLE: "jle", JSLT: "jslt", JSLE: "jsle"}
JMP_SYMBOLS = {JEQ: "==", JGT: ">", JGE: ">=", JSET: "&", JNE: "!=",
               JSGT: "s>", JSGE: "s>=", JLT: "<", JLE: "<=", JSLT: "s<",
               JSLE: "s<="}
CONDITIONAL_JUMPS = frozenset(JMP_SYMBOLS)

# load/store sizes (opcode & 0x18) and modes (opcode & 0xe0)
W, H, B, DW = 0x00, 0x08, 0x10, 0x18
SIZE_BYTES = {W: 4, H: 2, B: 1, DW: 8}
SIZE_NAMES = {W: "u32", H: "u16", B: "u8", DW: "u64"}
MODE_IMM, MODE_ABS, MODE_IND, MODE_MEM, MODE_MEMSX, MODE_ATOMIC = \
    0x00, 0x20, 0x40, 0x60, 0x80, 0xc0

OP_LD_IMM64 = 0x18      # LD | DW | IMM
OP_LE = 0xd4            # ALU | END | K: to little endian
OP_BE = 0xdc            # ALU | END | X: to big endian
OP_XADD_W = 0xc3        # STX | ATOMIC | W
OP_XADD_DW = 0xdb       # STX | ATOMIC | DW
PSEUDO_MAP_FD = 1       # src of LD_IMM64: imm is a map file descriptor

HELPER_NAMES = {1: "map_lookup_elem", 2: "map_update_elem",
                3: "map_delete_elem", 5: "ktime_get_ns",
                7: "get_prandom_u32", 12: "tail_call"}

Insn = namedtuple("Insn", "idx opcode dst src off imm imm64 nslots")


class DecodeError(ValueError):
    pass


def insn_class(insn):
    return insn.opcode & 0x07


def _signed(value, bits):
    value &= (1 << bits) - 1
    return value - (1 << bits) if value >> (bits - 1) else value


def decode(code):
    """decode a program; returns a list indexed by *slot*.

    Entry `i` is the `Insn` starting at slot `i`, or `None` if slot `i` is the
    second half of an LD_IMM64 (jumping there is an error the machine reports).
    `off` and `imm` are signed; `imm64` is the unsigned 64-bit immediate of an
    LD_IMM64 and None for every other instruction.  A jump at slot `pc` goes
    to slot `pc + off + 1`."""
    code = bytes(code)
    if len(code) % 8:
        raise DecodeError(f"program length {len(code)} is not a multiple of 8")
    nslots = len(code) // 8
    slots = [None] * nslots
    i = 0
    while i < nslots:
        opcode, regs, off, imm = unpack_from("<BBHI", code, 8 * i)
        dst, src = regs & 0x0f, regs >> 4
        if opcode == OP_LD_IMM64:
            if i + 1 >= nslots:
                raise DecodeError(f"slot {i}: LD_IMM64 truncated")
            opcode2, regs2, off2, imm2 = unpack_from("<BBHI", code, 8 * i + 8)
            if opcode2 != 0 or regs2 != 0 or off2 != 0:
                raise DecodeError(f"slot {i}: malformed second LD_IMM64 slot")
            slots[i] = Insn(i, opcode, dst, src, _signed(off, 16),
                            _signed(imm, 32), imm | imm2 << 32, 2)
            i += 2
        else:
            slots[i] = Insn(i, opcode, dst, src, _signed(off, 16),
                            _signed(imm, 32), None, 1)
            i += 1
    return slots


def _mem(reg, off):
    return f"r{reg}{off:+d}" if off else f"r{reg}"


def disasm(insn):
    """human readable form of one instruction (roughly the kernel's syntax)"""
    if insn is None:
        return "(second slot of ld_imm64)"
    op, cls = insn.opcode, insn.opcode & 0x07
    if cls in (ALU, ALU64):
        r = "r" if cls == ALU64 else "w"
        code = op & 0xf0
        if code == END:
            if cls != ALU:
                return f"?? byteswap opcode {op:#04x}"
            return f"r{insn.dst} = {'be' if op & X else 'le'}{insn.imm} r{insn.dst}"
        if code == NEG:
            return f"{r}{insn.dst} = -{r}{insn.dst}"
        if code not in ALU_SYMBOLS:
            return f"?? alu opcode {op:#04x}"
        operand = f"{r}{insn.src}" if op & X else f"{insn.imm}"
        return f"{r}{insn.dst} {ALU_SYMBOLS[code]} {operand}"
    if cls in (JMP, JMP32):
        r = "r" if cls == JMP else "w"
        code = op & 0xf0
        target = insn.idx + insn.off + 1
        if code == JA:
            return f"goto {target}"
        if code == CALL:
            name = HELPER_NAMES.get(insn.imm, "?")
            return f"call {insn.imm} ({name})"
        if code == EXIT:
            return "exit"
        if code not in JMP_SYMBOLS:
            return f"?? jmp opcode {op:#04x}"
        operand = f"{r}{insn.src}" if op & X else f"{insn.imm}"
        return f"if {r}{insn.dst} {JMP_SYMBOLS[code]} {operand} goto {target}"
    size, mode = op & 0x18, op & 0xe0
    if op == OP_LD_IMM64:
        if insn.src == PSEUDO_MAP_FD:
            return f"r{insn.dst} = map_fd {insn.imm}"
        return f"r{insn.dst} = {insn.imm64:#x} ll"
    if mode == MODE_MEM:
        ty = SIZE_NAMES[size]
        if cls == LDX:
            return f"r{insn.dst} = *({ty} *)({_mem(insn.src, insn.off)})"
        if cls == ST:
            return f"*({ty} *)({_mem(insn.dst, insn.off)}) = {insn.imm}"
        if cls == STX:
            return f"*({ty} *)({_mem(insn.dst, insn.off)}) = r{insn.src}"
    if mode == MODE_ATOMIC and cls == STX and insn.imm == 0:
        ty = SIZE_NAMES[size]
        return f"lock *({ty} *)({_mem(insn.dst, insn.off)}) += r{insn.src}"
    return f"?? opcode {op:#04x} dst={insn.dst} src={insn.src} " \
           f"off={insn.off} imm={insn.imm}"


def disasm_program(code):
    """list of "slot: text" lines for a whole program"""
    return [f"{i.idx:4d}: {disasm(i)}" for i in decode(code) if i is not None]
