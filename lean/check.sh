#!/bin/sh
# Checks XaddSum.lean from scratch. Exit 0 iff it compiles, contains none of the
# forbidden words, and the main theorems rest only on the standard axioms.
# Writes only under the directory containing this script (./build).
set -eu
cd "$(dirname "$0")"
SRC=XaddSum.lean
if grep -n -i -E 'sorry|axiom|admit' "$SRC"; then
  echo "FAIL: forbidden word in $SRC" >&2; exit 1
fi
rm -rf build && mkdir build
if ! lean -o build/XaddSum.olean "$SRC" > build/compile.log 2>&1; then
  cat build/compile.log; echo "FAIL: $SRC does not compile" >&2; exit 1
fi
cat build/compile.log
if grep -q -E 'error|warning' build/compile.log; then
  echo "FAIL: diagnostics while compiling $SRC" >&2; exit 1
fi
cat > build/Axioms.lean <<'EOL'
import XaddSum
#print axioms XaddSum.exec_interleaving
#print axioms XaddSum.exec_one_xadd_each
EOL
LEAN_PATH="$PWD/build" lean build/Axioms.lean > build/axioms.log 2>&1 || {
  cat build/axioms.log; echo "FAIL: axiom report failed" >&2; exit 1; }
cat build/axioms.log
[ "$(grep -c "depends on axioms\|does not depend on any axioms" build/axioms.log)" -eq 2 ] || {
  echo "FAIL: expected two axiom reports" >&2; exit 1; }
# strip the allowed names; anything left inside the brackets is non-standard
if sed -n 's/.*depends on axioms: \[\(.*\)\]/\1/p' build/axioms.log | tr ',' '\n' | tr -d ' ' \
   | grep -v -x -E 'propext|Classical\.choice|Quot\.sound' | grep -q .; then
  echo "FAIL: non-standard axiom used" >&2; exit 1
fi
echo "OK: XaddSum.lean checked"
