/-
L-XADD: concurrent atomic adds to one shared cell are never lost.
Whatever the interleaving of the program instances, the final cell value is
the initial value plus the sum of all added amounts.
-/
import Mathlib.Algebra.BigOperators.Group.List.Basic
import Mathlib.Data.ZMod.Defs

namespace XaddSum

/-- An instruction either leaves the shared cell alone or atomically adds `a` to it. -/
inductive Instr (M : Type) where
  | other : Instr M
  | xadd (a : M) : Instr M

variable {M : Type} [AddCommMonoid M]

/-- The amount an instruction adds to the shared cell. -/
def amount : Instr M → M
  | .other => 0
  | .xadd a => a

/-- Run a sequence of instructions from cell value `x`. -/
def exec (x : M) : List (Instr M) → M
  | [] => x
  | .other :: l => exec x l
  | .xadd a :: l => exec (x + a) l

/-- `Interleaving ts l`: `l` merges the threads `ts`, keeping each thread's own order. -/
inductive Interleaving : List (List (Instr M)) → List (Instr M) → Prop
  | done (ts : List (List (Instr M))) (h : ∀ t ∈ ts, t = []) : Interleaving ts []
  | step (ts : List (List (Instr M))) (i : Nat) (hi : i < ts.length)
      (ins : Instr M) (rest l : List (Instr M)) (hd : ts[i] = ins :: rest)
      (tl : Interleaving (ts.set i rest) l) : Interleaving ts (ins :: l)

/-- Sum of all amounts in all threads. -/
def total (ts : List (List (Instr M))) : M := (ts.flatten.map amount).sum

theorem total_of_all_nil (ts : List (List (Instr M))) (h : ∀ t ∈ ts, t = []) :
    total ts = 0 := by
  induction ts with
  | nil => rfl
  | cons t ts ih =>
    have ht : t = [] := h t (by simp)
    have := ih (fun u hu => h u (by simp [hu]))
    simp_all [total]

theorem total_set (ts : List (List (Instr M))) (i : Nat) (hi : i < ts.length)
    (ins : Instr M) (rest : List (Instr M)) (hd : ts[i] = ins :: rest) :
    total ts = amount ins + total (ts.set i rest) := by
  induction ts generalizing i with
  | nil => simp at hi
  | cons t ts ih =>
    cases i with
    | zero => simp at hd; simp [total, hd]
    | succ j =>
      have := ih j (by simpa using hi) (by simpa using hd)
      simp only [total, List.set_cons_succ, List.flatten_cons, List.map_append,
        List.sum_append] at this ⊢
      rw [this, add_left_comm]

theorem exec_step (x : M) (ins : Instr M) (l : List (Instr M)) :
    exec x (ins :: l) = exec (x + amount ins) l := by
  cases ins <;> simp [exec, amount]

/-- **L-XADD.** No update is lost, whatever the interleaving. -/
theorem exec_interleaving (ts : List (List (Instr M))) (l : List (Instr M))
    (h : Interleaving ts l) (x0 : M) :
    exec x0 l = x0 + (ts.flatten.map amount).sum := by
  induction h generalizing x0 with
  | done ts h =>
    have := total_of_all_nil ts h
    simp only [total] at this; simp only [exec, this, add_zero]
  | step ts i hi ins rest l hd _ ih =>
    have := total_set ts i hi ins rest hd
    rw [exec_step, ih, add_assoc]; simp only [total] at this; rw [this]

/-- Shape of the compiled statement: instance `i` is `m` untouching instructions, one
`xadd a_i`, then `n` more untouching instructions. Then final = x0 + Σ a_i. -/
theorem exec_one_xadd_each (as : List M) (ts : List (List (Instr M))) (l : List (Instr M))
    (hts : List.Forall₂ (fun a t => ∃ m n, t = List.replicate m .other ++
      Instr.xadd a :: List.replicate n .other) as ts)
    (h : Interleaving ts l) (x0 : M) : exec x0 l = x0 + as.sum := by
  rw [exec_interleaving ts l h]; congr 1; clear h
  induction hts with
  | nil => rfl
  | cons hat _ ih => obtain ⟨m, n, rfl⟩ := hat; simp [amount] at ih ⊢; rw [ih]

/-- The concrete instance: a `w`-bit cell with wrap-around arithmetic. -/
example (w : Nat) (ts : List (List (Instr (ZMod (2 ^ w))))) (l) (h : Interleaving ts l)
    (x0 : ZMod (2 ^ w)) : exec x0 l = x0 + (ts.flatten.map amount).sum :=
  exec_interleaving ts l h x0

/-- Sanity: the relation is inhabited, e.g. thread 1 may go before thread 0. -/
example : Interleaving (M := Nat) [[.xadd 1], [.xadd 2]] [.xadd 2, .xadd 1] :=
  .step _ 1 (by simp) _ [] _ rfl (.step _ 0 (by simp) _ [] _ rfl (.done _ (by simp)))

end XaddSum
