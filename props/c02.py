"""C02 -- fixed-point arithmetic follows the per-100000 decimal semantics"""
import json
import multiprocessing as mp
import os

import z3

from vc import smt, stagea as A
from vc import report as R
from vc import dsl as D
from vc.bvutil import abstract_mul, ac_mul, narrow_axioms, udiv_uf, urem_uf
from vc.pyvc import api, lib
from props.c01 import dest_value, klass

F = D.FIXED


# ------------------------------------------------------------------ Stage A
def atoms():
    return [D.Reg("x", 4), D.Loc("x"), D.Const(2.5), D.Const(0.29),
            D.Reg("sr", 3), D.Reg("r", 2), D.Loc("q"), D.Const(3)]


def dests():
    return [D.Reg("x", 6), D.Loc("x", "d_x"), D.Reg("sr", 6), D.Loc("q", "d_q")]


def programs(tier):
    out = []
    for op in ("+", "-", "*", "/", "//", "%"):
        for a in atoms():
            for b in atoms():
                if isinstance(a, D.Const) and isinstance(b, D.Const):
                    continue
                if not (a.fixed or b.fixed or op == "/"):
                    continue                      # plain integer arithmetic is C01
                for d in dests():
                    if tier == "quick" and isinstance(d, D.Loc) and isinstance(a, D.Loc) and isinstance(b, D.Loc):
                        continue
                    out.append((op, a, b, d))
    return out


def val64(a, st):
    """64-bit value of an operand: raw scaled integer of a fixed-point one"""
    if isinstance(a, D.Const):
        v = round(a.value * F) if isinstance(a.value, float) else a.value
        return z3.BitVecVal(v, 64)
    return st.atom(a, 64)


def mulc(v, c):
    return v * z3.BitVecVal(c, 64)


def spec(op, a, b, d, st, real=False):
    """the property's result as a 64-bit modular formula (the unsigned
    quotient / remainder and the product of two non-constants are the
    uninterpreted functions the abstracted program uses; lemmas L-* link them
    to the exact values under the FITS precondition).
    value r of the expression, representation: raw = 100000 r if fixed.
      + -   fixed if either operand is: sum of the operands scaled to fixed
      *     fixed x fixed: product / 100000; one fixed: product (already scaled)
      /     always fixed: 100000 * A / B with A, B the operand *values*
      //    always integer: floor(A / B)
      %     fixed if either is: remainder of the scaled operands
    (a common factor 100000 of numerator and denominator is cancelled: floor(xF / yF) = floor(x / y))"""
    x, y = val64(a, st), val64(b, st)
    fa, fb = a.fixed, b.fixed
    UD, UR = (z3.UDiv, z3.URem) if real else (udiv_uf(64), urem_uf(64))

    def mul(p, q):
        if real or z3.is_bv_value(z3.simplify(p)) or z3.is_bv_value(z3.simplify(q)):
            return p * q
        return ac_mul(64, [p, q])

    def const(t):
        return z3.is_bv_value(z3.simplify(t))

    def div(p, q):
        if const(p) and const(q):        # as the abstracted machine: constants are computed
            return z3.If(q == 0, z3.BitVecVal(0, 64), z3.UDiv(p, q))
        return z3.If(q == 0, z3.BitVecVal(0, 64), UD(z3.simplify(p), z3.simplify(q)))

    def rem(p, q):
        if const(p) and const(q):
            return z3.If(q == 0, p, z3.URem(p, q))
        return z3.If(q == 0, p, UR(z3.simplify(p), z3.simplify(q)))
    sx = x if fa else mulc(x, F)
    sy = y if fb else mulc(y, F)
    if op in "+-":
        if fa or fb:
            r, rf = (sx + sy if op == "+" else sx - sy), True
        else:
            r, rf = (x + y if op == "+" else x - y), False
    elif op == "*":
        if fa and fb:
            r, rf = div(mul(x, y), z3.BitVecVal(F, 64)), True
        else:
            r, rf = mul(x, y), (fa or fb)
    elif op == "/":
        rf = True
        if fa and not fb:
            r = div(x, y)
        elif not fa and fb:
            r = div(mulc(x, F * F), y)
        else:
            r = div(mulc(x, F), y)
    elif op == "//":
        rf = False
        if fa and not fb and isinstance(a, D.Const):
            # floor(c / n) = floor(floor(c) / n) for an integer n >= 1
            r = div(z3.BitVecVal(int(a.value), 64), y)
        elif fa and not fb:
            r = div(x, mulc(y, F))
        elif not fa and fb:
            r = div(mulc(x, F), y)
        else:
            r = div(x, y)
    else:
        rf = fa or fb
        r = rem(sx, sy) if rf else rem(x, y)
    if d.fixed:
        out = r if rf else mulc(r, F)
    else:
        out = div(r, z3.BitVecVal(F, 64)) if rf else r
    return out


def uses_division(op, a, b, d):
    return op in ("/", "//", "%") or (op == "*" and a.fixed and b.fixed) or \
        (not d.fixed and (a.fixed or b.fixed or op == "/"))


def check_program(job):
    from contracts import c01_expr as S
    from vc.bpfvc import Env, run as bpf_run
    import vc.bpfvc.machine as M
    op, a, b, d = job
    expr = D.Bin(op, a, b)
    label = f"{d.label()} = {expr.label()}"
    name = f"fixed[{klass(a)}{op}{klass(b)} -> {klass(d)}]"
    out = {"name": name, "label": label, "verdict": smt.PROVED, "backend": "z3-5.1(api)", "seconds": 0.0,
           "queries": 0, "data": None, "raw": ""}
    try:
        code, layout = S.build(expr, d)
    except Exception as e:
        out.update(verdict="rejected", raw=repr(e))
        return out
    st = D.SymState(layout)
    M.ABSTRACT_MUL[0] = True
    try:
        res = bpf_run(code, Env(ctx=None, regs=dict(st.regs)))
    finally:
        M.ABSTRACT_MUL[0] = False
    if res.aborted:
        out.update(verdict=smt.REFUTED, raw="generated code faults", data={"fault": True})
        return out
    cache = {}

    def ab(t):
        return abstract_mul(z3.simplify(t), cache)
    want = z3.Extract(8 * d.size - 1, 0, spec(op, a, b, d, st))
    for path in res.paths:
        got = dest_value(d, path, st, layout)
        hyps = [ab(p) for p in path.pc]
        g = ab(got == want)
        hyps += narrow_axioms(hyps + [g])
        r = smt.prove(hyps, g, 10000)
        out["queries"] += 1
        out["seconds"] += r.seconds
        if r.verdict != smt.PROVED:
            out["verdict"], out["backend"] = r.verdict, r.backend
            # the counter-model of the abstracted query need not be one of the
            # real program: search a small witness with the real operations
            # (a search heuristic; a witness counts only if it replays)
            w = small_witness(job, code, layout)
            if w is not None:
                out["data"] = w
                out["verdict"] = smt.REFUTED
            return out
    return out


def small_witness(job, code, layout):
    from vc.bpfvc import Env, run as bpf_run
    op, a, b, d = job
    st = D.SymState(layout)
    res = bpf_run(code, Env(ctx=None, regs=dict(st.regs)))
    want = z3.Extract(8 * d.size - 1, 0, spec(op, a, b, d, st, real=True))
    small = []
    for t in (a, b):
        if not isinstance(t, D.Const):
            v = st.atom(t, 64)
            small.append(z3.And(z3.UGE(v, 1), z3.ULE(v, 3000)))
    for path in res.paths:
        got = dest_value(d, path, st, layout)
        s = z3.Solver()
        s.set("timeout", 15000)
        s.add(*path.pc)
        s.add(*small)
        s.add(got != want)
        if s.check() == z3.sat:
            m = s.model()
            return {"regs": {k: m.eval(v, model_completion=True).as_long() for k, v in st.regs.items()},
                    "stack": bytes(m.eval(A.sel(st.stack, j), model_completion=True).as_long() for j in range(512))}
    return None


def pyexpected(op, a, b, d, regs, stack, layout):
    """the exact rational result dropped to the destination (python oracle);
    returns the set of admissible raw results (truncation or floor)"""
    from fractions import Fraction
    import math

    def value(t):
        if isinstance(t, D.Const):
            return Fraction(round(t.value * F), F) if isinstance(t.value, float) else Fraction(t.value)
        v = D.pyatom(t, regs, stack, layout)
        return Fraction(v, F) if t.fixed else Fraction(v)
    x, y = value(a), value(b)
    if op in ("/", "//", "%") and y == 0:
        return None
    r = {"+": lambda: x + y, "-": lambda: x - y, "*": lambda: x * y, "/": lambda: x / y,
         "//": lambda: Fraction(math.floor(x / y)),
         "%": lambda: x - y * math.floor(x / y)}[op]()
    if op == "/":
        # the true quotient is dropped to five fractional digits first
        r = Fraction(math.floor(r * F), F)
    rep = r * F if d.fixed else r
    n = 8 * d.size
    return {math.floor(rep) % 2 ** n, math.trunc(rep) % 2 ** n}


def replay_one(job, data):
    from contracts import c01_expr as S
    from vc.bpfvc import Env, run_concrete
    op, a, b, d = job
    expr = D.Bin(op, a, b)
    code, layout = S.build(expr, d)
    regs = {int(k): v for k, v in data["regs"].items()}
    r = run_concrete(code, Env(ctx=None), regs=regs, mem={"stack": data["stack"]})
    n = 8 * d.size
    if isinstance(d, D.Reg):
        got = r[2][d.no] % 2 ** n
    else:
        o = A.stack_off(layout[d.name])
        got = int.from_bytes(r[3]["stack"][o:o + d.size], "little")
    ops = {t.label(): D.pyatom(t, regs, data["stack"], layout) for t in expr.atoms()}
    nonneg = all(v >= 0 for v in ops.values()) and not any(
        isinstance(t, D.Const) and t.value < 0 for t in (a, b))
    want = pyexpected(op, a, b, d, regs, data["stack"], layout)
    small = all(abs(v) < 2 ** 20 for v in ops.values())
    decided = want is not None and small and (nonneg or not uses_division(op, a, b, d))
    return {"inputs": {"statement": f"{d.label()} = {expr.label()}", "operands (raw)": ops},
            "reproduced": (got not in want) if decided else None,
            "detail": f"ISA model on the real bytes: destination raw = {got}; exact decimal result dropped to the "
                      f"destination: {sorted(want) if want else None}"}


def run(tier, seed):
    from contracts import c02_fixed as S
    rep = R.Report("C02", tier, seed)
    for a in lib.ASSUMED:
        rep.assume(a)
    rep.assume("binary64 standard model: the double of a decimal d is d(1+e), every operation returns the exact "
               "result times (1+e), |e| <= 2**-53; no overflow/underflow for |scaled value| < 2**50")
    rep.assume("eBPF ISA model of vc/bpfvc; products of two non-constants and unsigned quotients/remainders are "
               "uninterpreted in the Stage-A proofs (sound weakening); lemmas L-* link the 64-bit modular formula to "
               "the exact value when the scaled operands and intermediate results fit 64 bits")
    rep.assume("negative operands of a statement that needs a division (true/floor division, remainder, the "
               "rescaling after fixed x fixed, storing a fixed value into an integer) are the recorded C01 finding "
               "R-SDIV (signed division emitted as unsigned): the 64-bit formula proved here is the unsigned one")
    # (i) conversions
    for c in S.conversion_contracts():
        api.verify(c, rep, replay=native_conv, quiet=True)
    # (ii) arithmetic, Stage A
    jobs = programs(tier)
    rep.bound(f"Stage A: {len(jobs)} statements `dest = A op B` with at least one fixed-point operand (x register, "
              f"x variable, decimal constants 2.5 and 0.29) or a true division, over 8-byte operands and four "
              f"destinations; each proved for all register and memory contents. Bounded in program shape (depth 1).")
    procs = int(os.environ.get("VERIF_PROCS", "14"))
    with mp.get_context("fork").Pool(procs) as pool:
        results = pool.map(check_program, jobs, chunksize=8)
    merged = {}
    for job, r in zip(jobs, results):
        m = merged.setdefault(r["name"], {"n": 0, "seconds": 0.0, "bad": None, "rejected": 0, "labels": []})
        m["n"] += 1
        m["seconds"] += r["seconds"]
        if r["verdict"] == "rejected":
            m["rejected"] += 1
            if len(m["labels"]) < 2:
                m["labels"].append(r["label"] + " REJECTED " + r["raw"][:80])
        elif r["verdict"] != smt.PROVED and m["bad"] is None:
            m["bad"] = (job, r)
        if len(m["labels"]) < 2:
            m["labels"].append(r["label"])
    rep.extra["programs"] = len(jobs)
    rep.extra["rejected_by_generator"] = sum(m["rejected"] for m in merged.values())
    for name, m in sorted(merged.items()):
        if m["n"] == m["rejected"]:
            rep.sample({"rejected": m["labels"][:1]})
            continue
        if m["bad"] is None:
            rep.obligation(name, smt.Result(smt.PROVED, "z3-5.1(api)", m["seconds"]),
                           func="generated statement", text="; ".join(m["labels"]))
            continue
        job, r = m["bad"]
        res = smt.Result(r["verdict"], r["backend"], m["seconds"], r["data"], r["raw"])
        rp = None
        if r["data"] is not None and "regs" in r["data"]:
            rp = lambda _m, j=job, dd=r["data"]: replay_one(j, dd)
        rep.obligation(name, res, func="generated statement", text=r["label"], replay=rp,
                       candidate=r["data"] is None)
    # comparisons mixing fixed-point and integer operands: the Stage-A family
    # of C03 restricted to fixed-point operands, re-proved in this run
    from contracts import c03_cond as S3
    from props.c03 import check_program as check_cmp, replay_one as replay_cmp
    cjobs = [(k, [c]) for c in S3.atoms(tier) if isinstance(c, D.Cmp) and c.mixed_fixed()
             for k in ("if", "ifelse")]
    with mp.get_context("fork").Pool(procs) as pool:
        cres = pool.map(check_cmp, cjobs, chunksize=8)
    cm = {}
    for job, r in zip(cjobs, cres):
        m = cm.setdefault("cmp-" + r["name"], {"seconds": 0.0, "bad": None, "label": r["label"], "n": 0, "rej": 0})
        m["seconds"] += r["seconds"]
        m["n"] += 1
        if r["verdict"] == "rejected":
            m["rej"] += 1
        elif r["verdict"] != smt.PROVED and m["bad"] is None:
            m["bad"] = (job, r)
    rep.extra["comparison_programs"] = len(cjobs)
    for name, m in sorted(cm.items()):
        if m["n"] == m["rej"]:
            continue
        if m["bad"] is None:
            rep.obligation(name, smt.Result(smt.PROVED, "z3-5.1(api)", m["seconds"]),
                           func="generated construct", text=m["label"])
            continue
        (kind, conds), r = m["bad"]
        rp = None
        if r["data"] is not None and "regs" in r["data"]:
            rp = lambda _m, k=kind, c=conds, dd=r["data"]: replay_cmp(k, c, dd)
        rep.obligation(name, smt.Result(r["verdict"], r["backend"], m["seconds"], r["data"], r["raw"]),
                       func="generated construct", text=r["label"], replay=rp)
    # lemmas linking the modular formula to exact arithmetic
    x, y = z3.BitVecs("x y", 64)
    P = z3.ZeroExt(64, x) * z3.ZeroExt(64, y)
    rep.obligation("lemma[L-MUL-U: a product that fits 64 bits is the 64-bit product]",
                   smt.prove([z3.ZeroExt(64, z3.Extract(63, 0, P)) == P], P == z3.ZeroExt(64, x * y), 60000),
                   func="lemma", text="zext(x) * zext(y) < 2**64  ==>  zext(x * y) == zext(x) * zext(y)")
    rep.assume("the unsigned 64-bit quotient/remainder (bvudiv/bvurem) are floor division and its remainder on "
               "non-negative integers by definition (SMT-LIB)")
    rep.canary("CANARY[fixed x fixed without the rescaling]", canary())
    return rep.finish(
        explanation="pyvc with the IEEE-754 standard model on Constant.__init__ and ArrayGlobalVarDesc.__set__ "
        "(decimal constants and Python-side writes are represented exactly); Stage A: every enumerated statement "
        "mixing fixed-point and integer operands is built with the real DSL and its bytes are proved equal to the "
        "property's scaled-integer formula for all inputs",
        trusted_base=["pyvc encoding (vc/pyvc)", "eBPF ISA model vc/bpfvc", "z3 5.1", "binary64 standard model"],
        level="other")


def canary():
    from contracts import c01_expr as S
    from vc.bpfvc import Env, run as bpf_run
    import vc.bpfvc.machine as M
    a, b, d = D.Reg("x", 4), D.Loc("x"), D.Reg("x", 6)
    code, layout = S.build(D.Bin("*", a, b), d)
    st = D.SymState(layout)
    M.ABSTRACT_MUL[0] = True
    try:
        res = bpf_run(code, Env(ctx=None, regs=dict(st.regs)))
    finally:
        M.ABSTRACT_MUL[0] = False
    p = res.paths[0]
    wrong = ac_mul(64, [st.atom(a, 64), st.atom(b, 64)])
    return smt.prove([abstract_mul(z3.simplify(c)) for c in p.pc], abstract_mul(z3.simplify(p.regs[6] == wrong)))


def native_conv(name, conc, notes):
    from ebpfcat.ebpf import Constant
    bad = []
    import struct
    from ebpfcat.arraymap import ArrayGlobalVarDesc
    for k in (29000, 57000, 1, 115, 99999, 2 ** 40 + 29, -29000, -1, -150000, -250000):
        d = k / 100000
        got = int(Constant(None, d).value)
        if got != k:
            bad.append(("constant", d, got, k))

        class Map:
            name, base_register = "amap", 0
        desc = ArrayGlobalVarDesc(Map, "x")
        desc.name = "v"
        inst = type("P", (), {})()
        inst.ebpf = inst
        inst.loaded = True
        inst.amap = bytearray(16)
        inst.__dict__["v"] = 8
        desc.__set__(inst, d)
        raw = struct.unpack_from("q", inst.amap, 8)[0]
        if raw != k:
            bad.append(("write of an x variable", d, raw, k))
        struct.pack_into("q", inst.amap, 8, k)
        back = desc.__get__(inst, None)
        if back != d:
            bad.append(("read of an x variable holding the raw integer", k, back, d))
    return {"inputs": {"decimals tried": "0.29 0.57 0.00001 0.00115 0.99999 ... and negative ones"},
            "reproduced": bool(bad),
            "detail": f"real Constant(ebpf, d) / ArrayGlobalVarDesc.__set__: (what, decimal, scaled integer, exact) "
                      f"mismatches: {bad[:4]}"}


def replay_file(path):
    print(json.dumps(json.load(open(path)), indent=1)[:3000])
    return 0
