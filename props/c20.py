"""C20 -- a terminal's FMMUs are never shared by two live mappings"""
import asyncio
import json

from vc import report as R
from vc.pyvc import api, lib


def run_real(table, logical, write, mode):
    """the real context manager on a real Terminal with a stub bus"""
    from ebpfcat.ethercat import Terminal

    class EC:
        def __init__(self):
            self.writes = []

        async def roundtrip(self, cmd, pos, offset, *args, data=None, idx=0):
            self.writes.append(offset)
            return ()
    t = object.__new__(Terminal)
    t.ec = EC()
    t.position = 9
    t.fmmu_used = list(table)
    t.pdo_out_off, t.pdo_out_sz, t.pdo_in_off, t.pdo_in_sz = 0x1000, 4, 0x1100, 6
    res = {"bad": []}

    async def go():
        before = list(t.fmmu_used)
        try:
            async with t.map_fmmu(logical, write) as idx:
                res["index"] = idx
                if not 0 <= idx < len(before):
                    res["bad"].append("index_in_table")
                elif before[idx] is not None:
                    res["bad"].append("slot_was_free")
                if 0 <= idx < len(before) and t.fmmu_used[idx] != logical:
                    res["bad"].append("slot_marked")
                if any(a != b for j, (a, b) in enumerate(zip(before, t.fmmu_used)) if j != idx):
                    res["bad"].append("others_kept")
                if t.ec.writes[-1] != 0x600 + 0x10 * idx:
                    res["bad"].append("register_block")
                mid = list(t.fmmu_used)
                if mode != "normal":
                    raise RuntimeError("leave the block")
        except RuntimeError:
            pass
        except ValueError:
            res["raised"] = "ValueError"
            if t.fmmu_used != before:
                res["bad"].append("table_unchanged")
            return
        idx = res["index"]
        if 0 <= idx < len(before):
            if t.fmmu_used[idx] is not None:
                res["bad"].append("own_slot_freed")
            if any(a != b for j, (a, b) in enumerate(zip(mid, t.fmmu_used)) if j != idx):
                res["bad"].append("only_own_slot")
    asyncio.run(go())
    return res


def run_real_failing_bus(table, logical, write):
    """the bus write of the enter half fails (datagram not processed) or the
    task is cancelled there: the table must be as before"""
    from ebpfcat.ethercat import EtherCatError, Terminal
    out = {}
    for what, exc in (("bus error", EtherCatError("datagram was not processed")),
                      ("cancelled", asyncio.CancelledError())):
        class EC:
            async def roundtrip(self, cmd, pos, offset, *args, data=None, idx=0):
                raise exc
        t = object.__new__(Terminal)
        t.ec = EC()
        t.position = 9
        t.fmmu_used = list(table)
        t.pdo_out_off, t.pdo_out_sz, t.pdo_in_off, t.pdo_in_sz = 0x1000, 4, 0x1100, 6

        async def go():
            try:
                async with t.map_fmmu(logical, write):
                    pass
            except (EtherCatError, asyncio.CancelledError, ValueError):
                pass
        try:
            asyncio.run(go())
        except BaseException as e:     # noqa
            out[what] = f"raised {type(e).__name__}"
            continue
        out[what] = "table unchanged" if t.fmmu_used == list(table) else f"table left as {t.fmmu_used}"
    return out


def native(name, conc, notes):
    table = conc["self"]["fmmu_used"]
    logical, write = conc["logical"], conc["write"]
    if ".enter.raises[" in name:
        out = run_real_failing_bus(table, logical, write)
        return {"inputs": {"fmmu_used": table, "logical": logical, "write": write,
                           "bus": "the FMMU configuration write fails / is cancelled"},
                "reproduced": any(v != "table unchanged" for v in out.values()),
                "detail": f"real Terminal.map_fmmu with a failing configuration write: {out}"}
    mode = "normal"
    for n in notes or []:
        if n.startswith("with-block left by:"):
            mode = n.split(":")[1].strip()
    res = run_real(table, logical, write, mode)
    return {"inputs": {"fmmu_used": table, "logical": logical, "write": write, "exit": mode},
            "reproduced": bool(res["bad"]),
            "detail": f"real Terminal.map_fmmu on this table: {res}"}


def native_two_tasks(name, conc, notes):
    """two tasks map the same real terminal at once; the bus write yields to
    the event loop (as a real round trip does)"""
    from ebpfcat.ethercat import Terminal
    bad = []
    for n_fmmu in (1, 2, 3, 4):
        hw = {}

        class EC:
            async def roundtrip(self, cmd, pos, offset, *args, data=None, idx=0):
                await asyncio.sleep(0)
                if 0x600 <= offset < 0x700 and len(args) > 1:
                    k = (offset - 0x600) // 0x10
                    if offset % 0x10 == 0:
                        if hw.get(k) is not None:
                            bad.append(f"{n_fmmu} FMMUs: FMMU {k}, live for logical address {hw[k]:#x}, is "
                                       f"reprogrammed for {args[1]:#x}")
                        hw[k] = args[1]
                    elif offset % 0x10 == 0xc:
                        hw[k] = None
                return ()
        t = object.__new__(Terminal)
        t.ec, t.position = EC(), 3
        t.fmmu_used = [None] * n_fmmu
        t.pdo_out_off, t.pdo_out_sz, t.pdo_in_off, t.pdo_in_sz = 0x1000, 4, 0x1100, 6
        got = []

        async def user(logical):
            try:
                async with t.map_fmmu(logical, False) as idx:
                    got.append(idx)
                    await asyncio.sleep(0)
                    await asyncio.sleep(0)
            except ValueError:
                got.append(None)

        async def main():
            await asyncio.gather(user(0x10000), user(0x20000))
        try:
            asyncio.run(main())
        except Exception as e:      # noqa
            bad.append(f"{n_fmmu} FMMUs: {type(e).__name__}: {e}")
        live = [g for g in got if g is not None]
        if len(set(live)) != len(live):
            bad.append(f"{n_fmmu} FMMUs: both mappings got FMMU {live[0]}")
        if n_fmmu == 1 and len(live) == 2:
            bad.append("1 FMMU: two live mappings on a terminal with one FMMU")
    return {"inputs": {"scenario": "two tasks map one terminal concurrently, 1-4 FMMUs"}, "reproduced": bool(bad),
            "detail": f"real Terminal.map_fmmu from two tasks on a bus that yields: {bad[:3]}"}


def run(tier, seed):
    from contracts import c20_fmmu as S
    rep = R.Report("C20", tier, seed)
    for a in lib.ASSUMED:
        rep.assume(a)
    rep.assume("A-ASYNC; rely: while a mapping is open other mappings of the terminal change only their own slots")
    rep.assume("bus contract: an FMMU register write is recorded and may fail with EtherCatError")
    rep.assume("list[start::-1].index(None): first None from `start` downwards (modelled with exact clamping)")
    api.verify(S.map_fmmu, rep, replay=native, options={"cancellation": False})
    api.verify(S.map_fmmu_interleaved(), rep, replay=native_two_tasks, options={"cancellation": False})
    for n in (2, 3):
        api.verify(S.map_fmmu_fixed(n), rep, replay=native, options={"cancellation": False})
    api.REGISTRY[S.map_fmmu.qualname] = S.map_fmmu
    return rep.finish(
        explanation="pyvc: the real source of Terminal.map_fmmu (an @asynccontextmanager, split at its yield "
        "into enter/exit halves; Terminal.write inlined) is executed symbolically for tables of any length and "
        "contents, both directions, with normal, exceptional and cancelled exits and a failing bus",
        trusted_base=["pyvc encoding (vc/pyvc)", "z3 5.1", "bus contract", "rely on other mappings"])


def replay_file(path):
    d = json.load(open(path))
    i = d["inputs"]
    res = run_real(i["fmmu_used"], i["logical"], i["write"], i["exit"])
    print(res)
    return 1 if res["bad"] else 0
