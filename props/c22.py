"""C22 -- the dispatcher keeps fast groups running under loss and injection
(step contract of the real bytes + history lemmas over the proved step)"""
import json

import z3

from vc import parallel, smt
from vc import report as R
from vc.bpfvc import Env, MapModel, run_concrete
from vc.bpfvc import run as bpf_run

PASS, TX = 2, 3


def step_jobs(info, rep):
    from contracts import c22_dispatcher as S
    code = info["code"]
    rep.function("ebpfcat.ebpfcat:EtherXDP.program -> EtherXDP.assemble() bytes", code.hex())
    rep.extra["program_instructions"] = len(code) // 8
    pkt_len = z3.BitVec("pkt_len", 64)
    pkt0 = z3.Array("pkt0", z3.BitVecSort(64), z3.BitVecSort(8))
    map0 = z3.Array(f"map{S.MAP_FD}_init", z3.BitVecSort(64), z3.BitVecSort(8))
    REG = z3.Function("registered", z3.BitVecSort(32), z3.BoolSort())
    env = Env(ctx="xdp", pkt_len=pkt_len, pkt_mem=pkt0,
              maps={S.MAP_FD: MapModel("array", 4, info["map_size"]),
                    S.PROG_FD: MapModel("prog_array", 4, 4)},
              registered=lambda idx: z3.And(REG(idx), z3.ULT(idx, info["max_progs"])))
    res = bpf_run(code, env)
    rep.extra["paths"] = len(res.paths)
    if res.aborted:
        rep.out_of_reach(f"{len(res.aborted)} aborted paths")
    jobs, texts = [], {}

    def add(name, hyps, goal, text, on_model=None):
        texts[name] = text
        jobs.append((name, list(hyps), goal, 30000, on_model, name.startswith("CANARY")))

    for ob in res.obligations:
        cond = ob.cond if not isinstance(ob.cond, bool) else z3.BoolVal(ob.cond)
        add(f"safety[{ob.kind}@slot{ob.slot}]", ob.pc, cond, ob.desc)

    cb = info["counters"]
    eth = S.u16be(pkt0, 12)
    cmd0 = S.b(pkt0, 16)
    i8 = S.b(pkt0, 17)
    g = S.u32le(pkt0, 18)
    g64 = z3.ZeroExt(32, g)
    caddr = z3.BitVecVal(cb, 64) + 4 * g64
    c = S.u32le_at(map0, caddr)
    c8 = z3.Extract(7, 0, c)
    long_enough = z3.UGT(pkt_len, info["min_size"])
    ecat = z3.And(long_enough, eth == 0x88A4, cmd0 == 0)
    in_range = z3.ULT(g, info["max_progs"])
    resync = i8 == c8
    normal = z3.And(z3.Not(resync), z3.Or(i8 + 1 == c8, i8 == 0))
    stale = z3.And(z3.Not(resync), z3.Not(normal))
    odd = z3.Extract(0, 0, c) == 1
    k = z3.BitVec("k", 64)

    def conc(m):
        n = 64
        return {"packet": bytes(m.eval(z3.Select(pkt0, z3.BitVecVal(j, 64)), model_completion=True).as_long() for j in range(n)),
                "map": bytes(m.eval(z3.Select(map0, z3.BitVecVal(j, 64)), model_completion=True).as_long() for j in range(info["map_size"])),
                "pkt_len": min(m.eval(pkt_len, model_completion=True).as_long(), 2000),
                "registered": [j for j in range(info["max_progs"])
                               if z3.is_true(m.eval(REG(z3.BitVecVal(j, 32)), model_completion=True))]}

    for path in res.paths:
        fin = path.regions["pkt"].mem
        finmap = path.regions[f"map{S.MAP_FD}"].mem if f"map{S.MAP_FD}" in path.regions else map0
        pc = list(path.pc)
        is_exit = path.exit == "EXIT"
        is_tail = path.exit == "TAILCALL"
        r0 = path.r0 if is_exit else None
        passes = z3.BoolVal(False) if not is_exit else r0 == PASS
        txs = z3.BoolVal(False) if not is_exit else r0 == TX
        tails = z3.BoolVal(is_tail)
        pkt_same = z3.Select(fin, k) == z3.Select(pkt0, k)
        map_same = z3.Select(finmap, k) == z3.Select(map0, k)
        eth_from_id = z3.And(S.u16be(fin, 12) == S.u16le(pkt0, 26))
        others = z3.Implies(z3.And(k != 12, k != 13, k != 17), pkt_same)
        # H1 / never dropped
        add("never_drop_or_abort", pc,
            z3.Or(tails, passes, txs), "every path ends in PASS, TX or a tail call", conc)
        # foreign frames untouched
        add("foreign_frames_pass_unchanged", pc + [z3.Not(ecat)],
            z3.And(passes, pkt_same, map_same),
            "non-EtherCAT frames, frames not starting with the identification datagram and short "
            "frames: PASS, packet and maps unchanged", conc)
        # group number out of range
        add("group_out_of_range_to_user_space", pc + [ecat, z3.Not(in_range)],
            z3.And(passes, eth_from_id, z3.Implies(z3.And(k != 12, k != 13), pkt_same), map_same),
            "g >= MAX_PROGS: PASS with the ethertype from the identification datagram", conc)
        base = pc + [ecat, in_range]
        cnew = S.u32le_at(finmap, caddr)
        other_counters = z3.Implies(z3.Or(z3.ULT(k, caddr), z3.UGE(k, caddr + 4)), map_same)
        idx_upd = S.b(fin, 17) == z3.Extract(7, 0, cnew)
        tail_g = z3.And(tails, path.tail_index == g) if is_tail else z3.BoolVal(False)
        unreg_pass = z3.And(passes, eth_from_id)
        # resync
        add("resync[counter,index]", base + [resync],
            z3.And(cnew == c + 1 + z3.ZeroExt(31, z3.Extract(0, 0, c)), idx_upd,
                   other_counters, others),
            "lost frame: counter += 1 + (counter & 1), index byte := counter, nothing else", conc)
        add("resync[handed to the group program]", base + [resync],
            z3.Or(z3.And(tail_g, z3.And(S.u16be(fin, 12) == eth)),
                  z3.And(z3.Not(REG(g)), unreg_pass)),
            "tail call into the group's program, or PASS to user space if none is registered", conc)
        add("normal[counter,index]", base + [normal],
            z3.And(cnew == c + 1, idx_upd, other_counters, others),
            "expected frame: counter += 1, index byte := counter", conc)
        add("normal[passive after active]", base + [normal, odd],
            z3.And(txs, S.u16be(fin, 12) == eth),
            "old counter odd: frame goes back to the bus (TX) without running the program", conc)
        add("normal[active]", base + [normal, z3.Not(odd)],
            z3.Or(z3.And(tail_g, S.u16be(fin, 12) == eth),
                  z3.And(z3.Not(REG(g)), unreg_pass)),
            "old counter even: tail call, or PASS if no program is registered", conc)
        add("stale_to_user_space", base + [stale],
            z3.And(passes, eth_from_id, z3.Implies(z3.And(k != 12, k != 13), pkt_same), map_same),
            "any other index: PASS with the ethertype from the identification datagram, counters unchanged", conc)
        add("CANARY[stale frames are transmitted]", base + [stale], txs, "wrong on purpose")
    return jobs, texts, env


def replay_step(info, d):
    """run the real bytes on the model's frame in the concrete ISA mode and
    evaluate the step clauses natively"""
    from contracts import c22_dispatcher as S
    pkt = d["packet"][:max(14, min(d["pkt_len"], len(d["packet"])))] if d["pkt_len"] <= 64 \
        else d["packet"] + bytes(d["pkt_len"] - 64)
    env = Env(ctx="xdp", maps={S.MAP_FD: MapModel("array", 4, info["map_size"]),
                               S.PROG_FD: MapModel("prog_array", 4, 4)})
    r = run_concrete(info["code"], env, pkt=pkt, mem={f"map{S.MAP_FD}": d["map"]},
                     helper_script={"fresh": [0, 0, 0], "registered": d["registered"]})
    exp = native_step(info, pkt, d["map"], set(d["registered"]))
    out = r[3]["pkt"]
    got = (r[0], r[1] if r[0] == "EXIT" else r.tail_index, bytes(out), bytes(r[3][f"map{S.MAP_FD}"]))
    ok = got[0] == exp[0] and got[1] == exp[1] and got[2] == exp[2] and got[3] == exp[3]
    return {"inputs": d, "reproduced": not ok,
            "detail": f"ISA model on the real bytes: {got[0]} {got[1]}; property's step function: {exp[0]} {exp[1]}; "
                      f"packet equal: {got[2] == exp[2]}, map equal: {got[3] == exp[3]}"}


def native_step(info, pkt, mp, registered):
    """the step contract as a plain python function (oracle of the replay
    and transition function of the history lemmas)"""
    import struct
    pkt = bytearray(pkt)
    mp = bytearray(mp)
    if len(pkt) <= info["min_size"] or pkt[12:14] != b"\x88\xa4" or pkt[16] != 0:
        return ("EXIT", PASS, bytes(pkt), bytes(mp))
    g, = struct.unpack_from("<I", pkt, 18)
    idn = pkt[26:28]

    def to_user():
        pkt[12:14] = bytes([idn[1], idn[0]])
        return ("EXIT", PASS, bytes(pkt), bytes(mp))
    if g >= info["max_progs"]:
        return to_user()
    off = info["counters"] + 4 * g
    c, = struct.unpack_from("<I", mp, off)
    i = pkt[17]
    if i == c & 0xff:
        c2 = (c + 1 + (c & 1)) & 0xffffffff
        active = True
    elif (i + 1) & 0xff == c & 0xff or i == 0:
        c2 = (c + 1) & 0xffffffff
        active = not (c & 1)
    else:
        return to_user()
    struct.pack_into("<I", mp, off, c2)
    pkt[17] = c2 & 0xff
    if not active:
        return ("EXIT", TX, bytes(pkt), bytes(mp))
    if g in registered:
        return ("TAILCALL", g, bytes(pkt), bytes(mp))
    return to_user()


def run(tier, seed):
    from contracts import c22_dispatcher as S
    rep = R.Report("C22", tier, seed)
    rep.assume("eBPF ISA model of vc/bpfvc (cross-checked against the kernel by selftest/test_bpfvc.py)")
    rep.assume("helper contracts: map_lookup_elem (array, key 0), get_prandom_u32 (any 32-bit value), "
               "tail_call (transfers control iff a program is registered at the index < max_entries)")
    rep.assume("rate = 0 as in the class (the random-drop test branch is then dead, which is proved)")
    try:
        info = S.build()
    except Exception as e:
        res = smt.Result(smt.REFUTED, "cpython", 0.0, None, repr(e))
        rep.obligation("dispatcher_can_be_generated", res, func="EtherXDP.assemble",
                       text="EtherXDP().assemble() returns a program",
                       replay=lambda m: {"inputs": "EtherXDP().assemble()", "reproduced": True,
                                         "detail": f"real call raises {e!r}"})
        return rep.finish("the dispatcher cannot be generated", ["cpython"])
    rep.obligation("dispatcher_can_be_generated", smt.Result(smt.PROVED, "cpython", 0.0),
                   func="EtherXDP.assemble", text="EtherXDP().assemble() returns a program")
    jobs, texts, env = step_jobs(info, rep)
    merged = parallel.aggregate(parallel.discharge(jobs))
    rep.extra["vc_queries"] = len(jobs)
    for name, m in merged.items():
        res = parallel.to_result(m)
        if name.startswith("CANARY"):
            rep.canary(name, res)
            continue
        rp = None
        if res.verdict == smt.REFUTED and isinstance(m.get("data"), dict) and "packet" in m["data"]:
            rp = lambda _m, d=m["data"]: replay_step(info, d)
        rep.obligation(name, res, func="EtherXDP program bytes", text=texts[name], replay=rp,
                       candidate=m.get("candidate", False))
    from props import c22_history
    c22_history.lemmas(info, rep, tier)
    return rep.finish(
        explanation="bpfvc: the assembled bytes of the real dispatcher are executed symbolically on all paths "
        "(loop-free: complete) and proved against the step contract for all packets, counters and program "
        "tables; history clauses are lemmas over the proved step relation",
        trusted_base=["eBPF ISA model vc/bpfvc", "helper contracts", "z3 5.1"])


def replay_file(path):
    from contracts import c22_dispatcher as S
    d = json.load(open(path))
    print(json.dumps(d, indent=1)[:3000])
    return 0
