"""C09 -- hash-map variables and Dict entries agree between Python and program"""
import json
import struct

import z3

from vc import parallel, smt, stagea as A
from vc import report as R
from vc.pyvc import api, lib


def python_key_value(info, kv, vv):
    """the bytes Python's Structure members give for a key / value (the real
    Member descriptors on real Structure instances)"""
    K, V = info["dict_classes"]
    k, v = K(), V()
    for n, x in kv.items():
        setattr(k, n, x)
    for n, x in vv.items():
        setattr(v, n, x)
    return bytes(k.data), bytes(v.data), {n: (getattr(V, n).fmt, getattr(V, n).relative_addr) for n in vv}


def program_side(rep, tier):
    from contracts import c04_frame as F
    from vc.bpfvc import Env, MapModel
    from vc.bpfvc import run as bpf_run
    from vc.bpfvc.values import hash_region_name
    jobs, texts = [], {}
    stack0 = z3.Array("stack_init", z3.BitVecSort(64), z3.BitVecSort(8))
    done = 0
    for stmt in ("d = h1 (hash read)", "h1 = c + 1 (hash write)", "table[5,7] = (d, 9) (Dict update)",
                 "c = table[5,7].v2 (Dict lookup)", "h2 = c (narrow local into a 64-bit cell)",
                 "h2 = g (signed narrow local into a 64-bit cell)") + tuple(F.C09_PROGRAMS):
        info = F.build(stmt)
        rep.function(f"EBPF program `{stmt}`: assemble() bytes", info["code"].hex())
        ks, vs = info["dict_sizes"]
        maps = {77: MapModel("array", 4, info["map_size"]), 78: MapModel("hash", 1, 8),
                79: MapModel("hash", ks, vs)}
        res = bpf_run(info["code"], Env(ctx=None, maps=maps, regs={1: z3.BitVec("r1_0", 64)}))
        if res.aborted:
            rep.out_of_reach(f"{stmt}: aborted paths")
            continue
        last = len(info["code"]) // 8 - 1

        def add(clause, hyps, goal, text, canary=False):
            name = f"{clause} <{stmt}>"
            texts[name] = text
            jobs.append((name, list(hyps), goal, 20000, None, canary))

        def local(mem, n):
            fmt, rel = info["locals"][n]
            return A.rd_le(mem, A.stack_off(rel), A.FMT_SIZE[fmt])
        for ob in res.obligations:
            cond = ob.cond if not isinstance(ob.cond, bool) else z3.BoolVal(ob.cond)
            add(f"safety[{ob.kind}@slot{ob.slot}]", ob.pc, cond, ob.desc)
        full = [p for p in res.paths if p.exit == "EXIT" and p.ip == last]
        if not full:
            rep.broken.append(f"{stmt}: no path completes the statement")
        for path in full:
            done += 1
            fstack = path.regions["stack"].mem
            if stmt.startswith("d = h1"):
                fmt, count = info["hashvars"]["h1"]
                r = hash_region_name(78, bytes([count]))
                cell = z3.Array(r + "_init", z3.BitVecSort(64), z3.BitVecSort(8))
                add("program_reads_the_cell_of_its_key_with_its_format", path.pc,
                    local(fstack, "d") == z3.ZeroExt(32, A.rd_le(cell, 0, 4)),
                    "d' == the low four bytes (format I) of the 8-byte cell stored under key 1")
            elif stmt.startswith("h1 = c"):
                fmt, count = info["hashvars"]["h1"]
                r = hash_region_name(78, bytes([count]))
                want = z3.ZeroExt(32, local(stack0, "c")) + 1
                ok = r in path.regions and path.regions[r].mem is not None
                add("program_writes_the_whole_cell_of_its_key", path.pc,
                    A.rd_le(path.regions[r].mem, 0, 8) == want if ok else z3.BoolVal(False),
                    "cell'(key 1) == c + 1 as a 64-bit value: Python reads it back with format I")
                add("the_entry_exists_afterwards", path.pc,
                    path.present.get(r, z3.BoolVal(False)) if ok else z3.BoolVal(False), "key 1 is present")
            elif stmt in F.HASH_VALUES:
                size, expected = F.HASH_VALUES[stmt]

                class St:
                    local = staticmethod(lambda n: local(stack0, n))
                    zext = staticmethod(lambda v, bits: z3.ZeroExt(bits - v.size(), v))
                    sext = staticmethod(lambda v, bits: z3.SignExt(bits - v.size(), v))
                r = hash_region_name(78, bytes([info["hashvars"]["h2"][1]]))
                ok = r in path.regions and path.regions[r].mem is not None
                add("program_stores_the_value_extended_to_64_bits", path.pc,
                    A.rd_le(path.regions[r].mem, 0, 8) == expected(St) if ok else z3.BoolVal(False),
                    "cell(h2)' is the source variable's value extended to 64 bits (Python reads it with format q)")
            elif stmt.startswith("c = c + h1"):
                fmt, count = info["hashvars"]["h1"]
                r = hash_region_name(78, bytes([count]))
                cell = z3.Array(r + "_init", z3.BitVecSort(64), z3.BitVecSort(8))
                add("program_reads_the_cell_as_an_operand", path.pc,
                    local(fstack, "c") == local(stack0, "c") + A.rd_le(cell, 0, 4),
                    "c' == c + the low four bytes (format I) of the cell stored under key 1, also when the "
                    "register the lookup returns in is in use")
            elif stmt.startswith("lookup: h2 = h1"):
                kb, vb, voff = python_key_value(info, {"k1": 5, "k2": 7}, {"v1": 0, "v2": 0})
                re = hash_region_name(79, kb)
                entry = z3.Array(re + "_init", z3.BitVecSort(64), z3.BitVecSort(8))
                present = z3.Bool(re + "_present")
                f2, o2 = voff["v2"]
                r1 = hash_region_name(78, bytes([info["hashvars"]["h1"][1]]))
                r2 = hash_region_name(78, bytes([info["hashvars"]["h2"][1]]))
                c1 = z3.Array(r1 + "_init", z3.BitVecSort(64), z3.BitVecSort(8))
                ok = re in path.regions and path.regions[re].mem is not None and r2 in path.regions \
                    and path.regions[r2].mem is not None
                add("a_hash_copy_inside_a_lookup_block_leaves_the_entry_pointer_alone", path.pc + [present],
                    z3.And(A.rd_le(path.regions[re].mem, o2, 4) == A.rd_le(entry, o2, 4) + 1,
                           A.rd_le(path.regions[r2].mem, 0, 8) == A.rd_le(c1, 0, 8),
                           A.rd_le(path.regions[r1].mem, 0, 8) == A.rd_le(c1, 0, 8)
                           if r1 in path.regions and path.regions[r1].mem is not None else z3.BoolVal(True))
                    if ok else z3.BoolVal(False),
                    "with the key present: entry.v2' == entry.v2 + 1 (at its Python offset), cell(h2)' == cell(h1), "
                    "cell(h1) unchanged")
            elif "Dict update" in stmt:
                kb, vb, voff = python_key_value(info, {"k1": 5, "k2": 7}, {"v1": 0, "v2": 9})
                r = hash_region_name(79, kb)
                ok = r in path.regions and path.regions[r].mem is not None
                add("entry_is_stored_under_the_key_bytes_python_uses", path.pc,
                    path.present.get(r, z3.BoolVal(False)) if ok else z3.BoolVal(False),
                    f"the key passed to map_update_elem is {kb.hex()} = Python's Key(k1=5, k2=7).data")
                if ok:
                    mem = path.regions[r].mem
                    f1, o1 = voff["v1"]
                    f2, o2 = voff["v2"]
                    add("value_members_at_the_offsets_python_uses", path.pc,
                        z3.And(A.rd_le(mem, o1, 8) == local(stack0, "d"),
                               A.rd_le(mem, o2, 4) == z3.BitVecVal(9, 32)),
                        "Value.v1 (q at its Python offset) == d, Value.v2 (I at its Python offset) == 9")
            else:
                kb, vb, voff = python_key_value(info, {"k1": 5, "k2": 7}, {"v1": 0, "v2": 0})
                r = hash_region_name(79, kb)
                present = z3.Bool(r + "_present")
                entry = z3.Array(r + "_init", z3.BitVecSort(64), z3.BitVecSort(8))
                f2, o2 = voff["v2"]
                add("lookup_runs_the_body_with_the_stored_member_or_the_else_block", path.pc,
                    local(fstack, "c") == z3.If(present, A.rd_le(entry, o2, 4), z3.BitVecVal(0, 32)),
                    "c' == the entry's v2 (at its Python offset) if the key is present, else 0 (Else block)")
    add("CANARY[hash read returns zero]", [], z3.BitVec("x", 8) == 0, "wrong on purpose", canary=True)
    return jobs, texts, done


def native_lemma(contract, name, conc, notes):
    """the lemma's function on the real descriptors, a dict standing in for
    the kernel hash map (update stores the bytes, lookup returns them)"""
    import ebpfcat.hashmap as HM
    from contracts import c09_hashmap as S
    if not conc:
        return {"inputs": None, "reproduced": None, "detail": "no concrete input"}
    store = {}

    def update_elem(fd, key, value, flags=0):
        store[bytes(key)] = bytes(value)

    def lookup_elem(fd, key, fmt):
        import ctypes
        if bytes(key) not in store:
            raise KeyError(key)
        return ctypes.create_string_buffer(store[bytes(key)], fmt) if isinstance(fmt, int) else store[bytes(key)]
    saved = HM.update_elem, HM.lookup_elem
    HM.update_elem, HM.lookup_elem = update_elem, lookup_elem
    try:
        prog = S.Prog()
        prog.g_cells = {k[0]: v for k, v in store.items()}
        for n in ("a", "b", "c"):
            prog.__dict__[n] = type("V", (), {"fd": 9})()

        class Cells(dict):
            def __getitem__(self, k):
                return store[bytes([k])]
        prog.g_cells = Cells()
        args = {k: v for k, v in conc.items() if k != "prog"}
        try:
            result = contract.target(prog, **args)
        except Exception as e:      # noqa
            return {"inputs": args, "reproduced": True, "detail": f"raised {type(e).__name__}: {e}"}
    finally:
        HM.update_elem, HM.lookup_elem = saved
    env = dict(vars(S))
    env.update(args, prog=prog, result=result)
    failed = [k for k, c in contract.ensures.items() if not eval(c, env)]
    return {"inputs": args, "reproduced": bool(failed),
            "detail": f"real descriptors over a dict as the kernel map: result {result!r}, cells "
                      f"{ {k.hex(): v.hex() for k, v in store.items()} }; clauses failing natively: {failed}"}


def run(tier, seed):
    from contracts import c09_hashmap as S
    rep = R.Report("C09", tier, seed)
    for a in lib.ASSUMED:
        rep.assume(a)
    rep.assume("kernel hash map: BPF_MAP_LOOKUP_ELEM returns the bytes the last BPF_MAP_UPDATE_ELEM of that key "
               "stored, ENOENT if none; the same ghost map backs bpfvc's helper contracts (a region per key)")
    rep.assume("host little endian; eBPF ISA model of vc/bpfvc")
    saved = dict(api.REGISTRY)
    S.install()
    try:
        for c in S.lemmas():
            api.verify(c, rep, quiet=True, replay=lambda n, i, nt, c=c: native_lemma(c, n, i, nt))
        for c in [S.global_var, S.member_fmt_addr]:
            api.verify(c, rep, quiet=True)
        # members are packed one after the other, each in its own bytes
        # (C04's contract of Member.__set_name__, re-proved here)
        from contracts import c04_layout as L4
        for f in ("B", "I", "q"):
            api.verify(L4.member_set_name(f), rep, quiet=True)
        fm = list(S.FMTS) if tier == "thorough" else ["B", "H", "I", "q", "h"]
        for f in fm:
            api.verify(S.member_get(f), rep, quiet=True)
            api.verify(S.member_set(f), rep, quiet=True)
    finally:
        api.REGISTRY.clear()
        api.REGISTRY.update(saved)
    jobs, texts, done = program_side(rep, tier)
    rep.bound("hash variables: two declared variables (formats I and q with defaults), values symbolic; Structure "
              "members of every format at any offset on the Python side; program side: four generated programs "
              "(hash read, hash write, Dict update, Dict lookup) over one Key/Value definition with constant keys")
    merged = parallel.aggregate(parallel.discharge(jobs))
    rep.extra["vc_queries"] = rep.extra.get("vc_queries", 0) + len(jobs)
    for name, m in merged.items():
        res = parallel.to_result(m)
        if name.startswith("CANARY"):
            rep.canary(name, res)
            continue
        rep.obligation(name, res, func="generated program bytes", text=texts[name],
                       candidate=m.get("candidate", False))
    return rep.finish(
        explanation="pyvc: lemmas over the real HashGlobalVarDesc.__set__/__get__, HashMap.load/globalVar against a "
        "ghost kernel map; Member.__get__/__set__/fmt_addr byte-level contracts; bpfvc: generated programs access "
        "the hash cells and Dict entries with the keys, offsets and formats the Python side uses",
        trusted_base=["pyvc encoding (vc/pyvc)", "eBPF ISA model vc/bpfvc", "z3 5.1", "kernel hash-map contract"],
        level="other")


def replay_file(path):
    print(json.dumps(json.load(open(path)), indent=1)[:3000])
    return 0
