"""C27 -- the Valve device enforces its safe state on timeout"""
import json

from vc import report as R
from vc.pyvc import api, lib, replay as RP
from vc.pyvc.values import Obj


def options(contract_mod):
    import time
    from ebpfcat.ebpfcat import DeviceVar, TerminalVar

    def dget(ex, obj, name, raw):
        if isinstance(raw, (TerminalVar, DeviceVar)):
            return obj.fields[name]
        return NotImplemented

    def dset(ex, obj, name, raw, value):
        if isinstance(raw, (TerminalVar, DeviceVar)):
            obj.fields[name] = value
            return True
        return NotImplemented
    return {"descriptor_get": dget, "descriptor_set": dset}


def install_clock():
    """monotonic() returns the ghost parameter `now`"""
    import ebpfcat.devices as D

    @lib.model(D.monotonic)
    def m_monotonic(ex, args, kw):
        return ex.inputs["now"]


def native(contract, name, conc, notes):
    import ebpfcat.devices as D
    from contracts import c27_valve as S
    cls = RP.plain_subclass(D.Valve, S.FIELDS)

    def call(args):
        self = RP.make_obj(cls, args["self"])
        args["self"] = self
        saved = D.monotonic
        D.monotonic = lambda: args["now"]
        try:
            return getattr(D.Valve, contract.target.__name__)(self)
        finally:
            D.monotonic = saved
    conc = dict(conc)
    r = RP.replay(contract, name, conc, call, S)
    return r


def _fix_old(conc):
    return conc


def run(tier, seed):
    from contracts import c27_valve as S
    rep = R.Report("C27", tier, seed)
    for a in lib.ASSUMED:
        rep.assume(a)
    rep.assume("TerminalVar/DeviceVar attributes behave as plain boolean fields of the device on the slow path "
               "(assumed contract; their own behaviour is C19/C08)")
    rep.assume("time.monotonic() is non-decreasing (ghost clock `now` >= lastGood)")
    install_clock()
    opts = options(S)
    for c in (S.update, S.reset):
        api.verify(c, rep, options=opts,
                   replay=lambda n, i, nt, c=c: native(c, n, i, nt))
    return rep.finish(
        explanation="pyvc: symbolic execution of the real source of Valve.update/reset against the step "
        "contract written from the property (booleans and reals; all paths); the history statement is the "
        "invariant established by the step contract",
        trusted_base=["pyvc encoding (vc/pyvc)", "z3 5.1", "descriptor contract (plain fields)",
                      "monotonic clock"])


def replay_file(path):
    d = json.load(open(path))
    print(json.dumps(d, indent=1)[:3000])
    return 0
