"""History lemmas of C22 over the *proved* step relation of the dispatcher.

The step contract (props/c22.py) is proved for the real bytes for all inputs;
`native_step` is that contract as a function.  The abstract state of one
registered group is (counter mod 256, the index bytes of the <= 3 frames in
flight).  Environment actions: deliver any frame, lose any frame, inject a
fresh frame (index 0) while fewer than three are in flight.

H1 (no frame is dropped) is the step clause `never_drop_or_abort`.
H3: for a registered group no more than two consecutive deliveries pass
    without running the group's program.  It is stated as a z3 query over an
    unrolled history (a refutation is a concrete history, replayed on the
    real bytes); a proof would need an inductive invariant and is only
    claimed if one is found.
H2 (frames of an unregistered group do not circulate forever) is a liveness
    statement over infinite histories: not decidable by contracts; not claimed.
"""
import struct

import z3

from vc import smt

SLOTS = 3
DELIVER, LOSE, INJECT = 0, 1, 2


def h3_query(n_steps, limit=3):
    """a history of n_steps actions from the primed start state in which three
    consecutive deliveries do not run the program"""
    s = []
    c = [z3.BitVec(f"c{t}", 8) for t in range(n_steps + 1)]
    pres = [[z3.Bool(f"p{t}_{k}") for k in range(SLOTS)] for t in range(n_steps + 1)]
    idx = [[z3.BitVec(f"i{t}_{k}", 8) for k in range(SLOTS)] for t in range(n_steps + 1)]
    run = [z3.Int(f"n{t}") for t in range(n_steps + 1)]
    act = [z3.Int(f"a{t}") for t in range(n_steps)]
    slot = [z3.Int(f"s{t}") for t in range(n_steps)]
    F = []
    # start: counter 0, nothing in flight (user space primes by injecting)
    F += [c[0] == 0, run[0] == 0] + [z3.Not(p) for p in pres[0]]
    bad = []
    for t in range(n_steps):
        F += [act[t] >= 0, act[t] <= 2, slot[t] >= 0, slot[t] < SLOTS]
        cases = []
        for k in range(SLOTS):
            sel = slot[t] == k
            i8 = idx[t][k]
            resync = i8 == c[t]
            normal = z3.And(z3.Not(resync), z3.Or(i8 + 1 == c[t], i8 == 0))
            odd = z3.Extract(0, 0, c[t]) == 1
            cn = z3.If(resync, c[t] + 1 + z3.ZeroExt(7, z3.Extract(0, 0, c[t])),
                       z3.If(normal, c[t] + 1, c[t]))
            active = z3.Or(resync, z3.And(normal, z3.Not(odd)))
            stale = z3.And(z3.Not(resync), z3.Not(normal))
            same_others = [z3.And(pres[t + 1][j] == pres[t][j], idx[t + 1][j] == idx[t][j])
                           for j in range(SLOTS) if j != k]
            deliver = z3.And(
                act[t] == DELIVER, sel, pres[t][k], c[t + 1] == cn,
                pres[t + 1][k] == z3.Not(stale),            # stale frames leave to user space
                idx[t + 1][k] == z3.If(stale, i8, cn),
                run[t + 1] == z3.If(active, 0, run[t] + 1), *same_others)
            lose = z3.And(act[t] == LOSE, sel, pres[t][k], c[t + 1] == c[t],
                          z3.Not(pres[t + 1][k]), run[t + 1] == run[t], *same_others)
            inject = z3.And(act[t] == INJECT, sel, z3.Not(pres[t][k]), c[t + 1] == c[t],
                            pres[t + 1][k], idx[t + 1][k] == 0, run[t + 1] == run[t],
                            *same_others)
            cases += [deliver, lose, inject]
        F.append(z3.Or(*cases))
        bad.append(run[t + 1] >= limit)
    F.append(z3.Or(*bad))
    return F, act, slot, run


def decode(model, act, slot, run):
    hist = []
    for t in range(len(act)):
        a = model.eval(act[t], model_completion=True).as_long()
        k = model.eval(slot[t], model_completion=True).as_long()
        hist.append((["deliver", "lose", "inject"][a], k))
        if model.eval(run[t + 1], model_completion=True).as_long() >= 3:
            break
    return hist


def replay_history(info, hist, g=5):
    """execute the history on the real dispatcher bytes (ISA model, concrete
    mode); returns the list of outcomes"""
    from contracts import c22_dispatcher as S
    from vc.bpfvc import Env, MapModel, run_concrete
    mp = bytearray(info["map_size"])
    frames = {}
    out = []

    def fresh():
        p = bytearray(64)
        p[12:14] = b"\x88\xa4"
        p[16] = 0
        p[17] = 0
        struct.pack_into("<I", p, 18, g)
        struct.pack_into("<H", p, 26, 0x3333)
        return p
    consecutive = worst = 0
    for a, k in hist:
        if a == "inject":
            frames[k] = fresh()
            out.append(("inject", k))
        elif a == "lose":
            frames.pop(k, None)
            out.append(("lose", k))
        else:
            env = Env(ctx="xdp", maps={S.MAP_FD: MapModel("array", 4, info["map_size"]),
                                       S.PROG_FD: MapModel("prog_array", 4, 4)})
            r = run_concrete(info["code"], env, pkt=bytes(frames[k]),
                             mem={f"map{S.MAP_FD}": bytes(mp)},
                             helper_script={"fresh": [0, 0, 0], "registered": [g]})
            mp = bytearray(r[3][f"map{S.MAP_FD}"])
            if r[0] == "TAILCALL":
                frames[k] = bytearray(r[3]["pkt"])
                consecutive = 0
                out.append(("deliver", k, "TAILCALL (program runs)", frames[k][17]))
            elif r[1] == 3:
                frames[k] = bytearray(r[3]["pkt"])
                consecutive += 1
                out.append(("deliver", k, "TX without program", frames[k][17]))
            else:
                frames.pop(k)
                consecutive += 1
                out.append(("deliver", k, "PASS to user space", None))
            worst = max(worst, consecutive)
    return out, worst


def lemmas(info, rep, tier):
    n = 10 if tier == "quick" else 14
    # weaker bound (three in a row): holds on every history up to n actions;
    # kept so that a change that makes things worse is still reported while
    # the H3 finding is recorded
    F4, *_ = h3_query(n, limit=4)
    r4 = smt.check_sat(F4, 120000)
    if r4.verdict == smt.PROVED:
        rep.bound(f"H3-weak is decided for histories up to {n} actions only (unrolled step relation)")
        rep.obligation(f"H3-weak[never four consecutive deliveries without the program, histories up to {n} actions]",
                       smt.Result(smt.PROVED, r4.backend, r4.seconds), func="dispatcher step relation",
                       text="bounded lemma over the proved step relation")
    else:
        rep.obligation(f"H3-weak[never four consecutive deliveries without the program, histories up to {n} actions]",
                       smt.Result(r4.verdict, r4.backend, r4.seconds, r4.model, "a history with four exists"),
                       func="dispatcher step relation", text="bounded lemma over the proved step relation")
    F, act, slot, run = h3_query(n)
    res = smt.check_sat(F, 120000)
    # check_sat: REFUTED = satisfiable = a violating history exists
    if res.verdict == smt.PROVED:
        rep.bound(f"H3: no violating history of length <= {n} exists (z3, unrolled step relation); "
                  f"no inductive invariant was found, so H3 is decided only up to this length")
        rep.obligation("H3[at most two consecutive deliveries without the program, histories up to "
                       f"{n} actions]", smt.Result(smt.PROVED, res.backend, res.seconds),
                       func="dispatcher step relation", text="bounded lemma")
        return
    if res.verdict == smt.UNKNOWN:
        rep.obligation("H3[at most two consecutive deliveries without the program]", res,
                       func="dispatcher step relation", text="lemma over the step relation")
        return
    hist = decode(res.model, act, slot, run)

    def rp(_m):
        out, worst = replay_history(info, hist)
        return {"inputs": {"history": hist}, "reproduced": worst >= 3,
                "detail": f"history executed on the real dispatcher bytes: {out}; "
                          f"longest run of deliveries without the program: {worst}"}
    r = smt.Result(smt.REFUTED, res.backend, res.seconds, res.model,
                   "history: " + str(hist))
    rep.obligation("H3[at most two consecutive deliveries without the program]", r,
                   func="dispatcher step relation (proved for the real bytes)",
                   text="for a registered group no more than two consecutive deliveries pass without a tail "
                        "call, under deliveries in any order, losses and injections (<= 3 in flight)",
                   replay=rp)
