"""C21(a) / C11 (sterile clause): what user space emits is a sterile copy of the
assembled frame - SterilePacket.sterile and append_writer against their
contracts (contracts/c18_alloc.py)"""


def verify(rep):
    from contracts import c18_alloc as S
    from vc.pyvc import api
    saved = dict(api.REGISTRY)
    try:
        S.install_assemble_stub()
        api.verify(S.s_sterile, rep, quiet=True, replay=native_sterile)
    finally:
        api.REGISTRY.clear()
        api.REGISTRY.update(saved)
    api.verify(S.s_append_writer, rep, quiet=True, replay=native_writer)


def _packets():
    """real SterilePackets: readers and writers mixed, a writer that was rejected"""
    from ebpfcat.ebpfcat import SterilePacket
    from ebpfcat.ethercat import ECCmd
    out = []
    p = SterilePacket()
    p.append(ECCmd.FPRD, b"\x01\x02\x03", 0, 7, 0x1000)
    p.append_writer(ECCmd.FPWR, b"\x04\x05", 0, 7, 0x1100)
    p.append(ECCmd.LRD, b"\x00" * 5, 0, 0x10000)
    p.append_writer(ECCmd.LWR, b"\x09" * 4, 0, 0x10800)
    out.append(("readers and writers", p))
    p = SterilePacket()
    p.append(ECCmd.FPRD, b"\x01" * 700, 0, 7, 0x1000)
    try:
        p.append_writer(ECCmd.FPWR, b"\x02" * 900, 0, 7, 0x1100)      # does not fit: rejected
    except OverflowError:
        pass
    p.append(ECCmd.FPRD, b"\x03" * 100, 0, 8, 0x1000)
    out.append(("a rejected writer, then a reader at its place", p))
    return out


def native_sterile(name, conc, notes):
    bad = []
    for what, p in _packets():
        try:
            frame, st = p.assemble(5), p.sterile(5)
        except Exception as e:      # noqa
            bad.append(f"{what}: {type(e).__name__}: {e}")
            continue
        starts, pos = [], 16
        for d in p.data:
            starts.append((pos, d[0]))
            pos += 12 + len(d[1])
        writers = {s for s, c in starts if c.name in ("FPWR", "APWR", "LWR", "BWR", "LRW", "FPRW", "APRW", "BRW")}
        diff = [k for k in range(len(frame)) if frame[k] != st[k]]
        if set(diff) - writers or any(st[k] != 0 for k in writers):
            bad.append(f"{what}: the sterile copy differs from the frame at {diff}, the write datagrams start at "
                       f"{sorted(writers)}")
    return {"inputs": {"packets": [w for w, _ in _packets()]}, "reproduced": bool(bad),
            "detail": f"real SterilePacket.sterile vs assemble: {bad[:2]}"}


def native_writer(name, conc, notes):
    from ebpfcat.ebpfcat import SterilePacket
    from ebpfcat.ethercat import ECCmd
    p = SterilePacket()
    p.append(ECCmd.FPRD, b"\x01" * 700, 0, 7, 0x1000)
    before = list(p.on_the_fly)
    try:
        p.append_writer(ECCmd.FPWR, b"\x02" * 900, 0, 7, 0x1100)
        return {"inputs": "700 + 900 bytes", "reproduced": True, "detail": "an oversize writer was accepted"}
    except OverflowError:
        pass
    return {"inputs": "a 900-byte writer appended to a frame that holds 700 bytes", "reproduced": p.on_the_fly != before,
            "detail": f"real SterilePacket.append_writer rejected the datagram; on_the_fly before {before}, "
                      f"after {p.on_the_fly}"}
