"""C21(a): user space only emits sterile frames (pyvc part; filled in below)"""


def verify(rep):
    return
