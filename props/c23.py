"""C23 -- processes sharing an interface coordinate the dispatcher safely"""
import itertools
import json
import threading

from vc import report as R
from vc.pyvc import api, lib


# --------------------------------------------------------------------------
# Native replay: several participants run the REAL functions in threads; every
# file-system call goes through a shim that (a) hands control to a token
# scheduler first and (b) acts on one simulated file with POSIX semantics
# (O_EXCL creation, whole-file record locks between participants).
class SimFile:
    def __init__(self):
        self.exists, self.content, self.owner = False, bytearray(), None


class Scheduler:
    def __init__(self, schedule):
        self.schedule = list(schedule)
        self.turn = {}
        self.back = threading.Semaphore(0)
        self.done = {}
        self.blocked = {}
        self.trace = []

    def register(self, pid):
        self.turn[pid] = threading.Semaphore(0)
        self.done[pid] = False
        self.blocked[pid] = False

    def point(self, pid, what):
        """called by a participant before each atomic action"""
        self.back.release()
        self.turn[pid].acquire()
        self.trace.append((pid, what))

    def run(self, threads):
        for t in threads.values():
            t.start()
        for pid in threads:             # every participant runs up to its first action
            self.back.acquire()
        order = list(self.schedule)
        pids = list(threads)
        steps = 0
        while not all(self.done.values()):
            steps += 1
            if steps > 2000:
                raise RuntimeError("schedule does not terminate")
            pid = order.pop(0) if order else next(p for p in pids if not self.done[p] and not self.blocked[p])
            if self.done[pid] or self.blocked[pid]:
                runnable = [p for p in pids if not self.done[p] and not self.blocked[p]]
                if not runnable:
                    raise RuntimeError("deadlock")
                pid = runnable[0]
            self.turn[pid].release()
            self.back.acquire()


class OsShim:
    """stands in for the modules `os` and `fcntl` (and randrange) inside ebpfcat.lock"""
    O_CREAT, O_RDWR, O_EXCL, O_CLOEXEC = 64, 2, 128, 524288
    LOCK_EX, LOCK_UN, LOCK_NB = 2, 8, 4

    def __init__(self, sched, f, rands):
        self.sched, self.f, self.rands = sched, f, rands
        self.local = threading.local()

    @property
    def pid(self):
        return self.local.pid

    def makedirs(self, *a, **k):
        pass

    def open(self, name, flags):
        self.sched.point(self.pid, "open" + ("(O_EXCL)" if flags & self.O_EXCL else ""))
        if flags & self.O_EXCL:
            if self.f.exists:
                raise FileExistsError(name)
            self.f.exists = True
        elif not self.f.exists:
            raise FileNotFoundError(name)
        return 100 + self.pid

    def lockf(self, fd, cmd, *a):
        if cmd & self.LOCK_UN:
            self.sched.point(self.pid, "unlock")
            assert self.f.owner == self.pid
            self.f.owner = None
            for p in self.sched.blocked:
                self.sched.blocked[p] = False
            return
        while True:
            self.sched.point(self.pid, "lockf")
            if self.f.owner is None:
                self.f.owner = self.pid
                return
            self.sched.blocked[self.pid] = True

    def flock(self, fd, cmd):
        # another kind of lock: no exclusion against lockf
        self.sched.point(self.pid, "flock")

    def pread(self, fd, n, off):
        self.sched.point(self.pid, f"pread({n},{off})")
        return bytes(self.f.content[off:off + n])

    def _store(self, data, off):
        c = self.f.content
        if len(c) < off + len(data):
            c.extend(bytes(off + len(data) - len(c)))
        c[off:off + len(data)] = data
        return len(data)

    def pwrite(self, fd, data, off):
        self.sched.point(self.pid, f"pwrite({len(data)},{off})")
        return self._store(data, off)

    def write(self, fd, data):
        self.sched.point(self.pid, f"write({len(data)})")
        return self._store(data, 0)

    def ftruncate(self, fd, n):
        self.sched.point(self.pid, f"ftruncate({n})")
        c = self.f.content
        del c[n:]
        c.extend(bytes(n - len(c)))

    def close(self, fd):
        pass

    def randrange(self, lo, hi):
        r = self.rands[self.pid]
        v = r.pop(0) if r else lo + 1
        # a scripted number may be taken: walk on (the real code loops on randrange)
        return lo + (v - lo) % (hi - lo)


def run_participants(n, schedule, rands, action="init"):
    """n participants each construct a real FMMULock (and optionally use it)
    under the given schedule; returns (locks, file, trace, errors)"""
    import ebpfcat.lock as L
    f = SimFile()
    sched = Scheduler(schedule)
    shim = OsShim(sched, f, {p: list(rands.get(p, [])) for p in range(n)})
    saved = (L.os, L.fcntl, L.randrange)
    L.os = L.fcntl = shim
    L.randrange = shim.randrange
    locks, errors = {}, {}

    def body(pid):
        shim.local.pid = pid
        try:
            sched.point(pid, "start")
            locks[pid] = L.FMMULock("/run/ebpf/sim.fmmu")
        except BaseException as e:     # noqa
            errors[pid] = e
        finally:
            sched.done[pid] = True
            sched.back.release()
    threads = {}
    try:
        for p in range(n):
            sched.register(p)
            threads[p] = threading.Thread(target=body, args=(p,), daemon=True)
        sched.run(threads)
    finally:
        L.os, L.fcntl, L.randrange = saved
    return locks, f, sched.trace, errors


def windows_disjoint(locks, f):
    """the clauses of the property over the final state: distinct address
    numbers, each registered in the bitmap"""
    nums = {p: l.base_addr >> 22 for p, l in locks.items()}
    bad = []
    if len(set(nums.values())) != len(nums):
        bad.append(f"two participants share an address number: {nums}")
    for p, a in nums.items():
        if not (1 <= a < 512):
            bad.append(f"participant {p}: address number {a} out of range")
        elif len(f.content) != 64 or not (f.content[a // 8] >> (a % 8)) & 1:
            bad.append(f"participant {p}: its number {a} is not marked in the bitmap "
                       f"(another process may be given the same window)")
    return bad


def search_interleaving(n=2, limit=4000):
    """bounded search for a failing interleaving of n FMMULock constructions
    (replay support only: the proof is the resource-invariant obligations)"""
    tried = 0
    for rands in ({1: [1], 0: [1]}, {0: [5], 1: [5]}, {0: [1], 1: [2]}):
        for schedule in itertools.product(range(n), repeat=9):
            tried += 1
            if tried > limit:
                return None, tried
            try:
                locks, f, trace, errors = run_participants(n, schedule, rands)
            except RuntimeError:
                continue
            if errors:
                return {"schedule": list(schedule), "rands": rands, "trace": trace,
                        "what": [f"participant {p} raised {type(e).__name__}: {e}" for p, e in errors.items()]}, tried
            bad = windows_disjoint(locks, f)
            if bad:
                return {"schedule": list(schedule), "rands": {str(k): v for k, v in rands.items()},
                        "trace": [f"{p}:{w}" for p, w in trace], "what": bad}, tried
    return None, tried


def native_fmmu_init(name, conc, notes):
    w, tried = search_interleaving()
    if w is None:
        return {"inputs": {"interleavings_tried": tried}, "reproduced": None,
                "detail": f"no failing interleaving of two real FMMULock constructions among {tried} schedules"}
    return {"inputs": {"schedule": w["schedule"], "scripted randrange": w["rands"]}, "reproduced": True,
            "detail": f"two real FMMULock.__init__ over one simulated file, interleaved at the file-system calls: "
                      f"{'; '.join(w['what'])}; trace {' '.join(w['trace'])}"}


def native_next(name, conc, notes):
    import ebpfcat.lock as L
    l = object.__new__(L.FMMULock)
    mine = 7
    l.base_addr = mine << 22
    first_bad = None
    try:
        for i in range(1100):
            a = l.get_next_addr()
            if not (mine << 22) <= a < ((mine + 1) << 22) - 4095:
                first_bad = (i + 1, a)
                break
    except RuntimeError as e:
        if l.base_addr >> 22 != mine:
            return {"inputs": {"address number": mine, "calls": i + 1}, "reproduced": True,
                    "detail": f"real FMMULock.get_next_addr raised RuntimeError({e}) at call {i + 1} and left "
                              f"base_addr = {hex(l.base_addr)}, in the window of address number "
                              f"{l.base_addr >> 22}: remove() would clear that participant's bit, not {mine}'s"}
        return {"inputs": {"address number": mine, "calls": i + 1}, "reproduced": False,
                "detail": f"real FMMULock.get_next_addr raised RuntimeError({e}) at call {i + 1}: the window is "
                          f"never left"}
    return {"inputs": {"address number": mine, "calls": first_bad and first_bad[0]}, "reproduced": first_bad is not None,
            "detail": f"real FMMULock.get_next_addr: call number {first_bad and first_bad[0]} returned "
                      f"{first_bad and hex(first_bad[1])}, which lies in the window of address number "
                      f"{first_bad and first_bad[1] >> 22}, not {mine}"}


def remove_race():
    """participant 0 (address number 9) leaves while participant 1 starts and
    draws number 10 (same byte of the bitmap); every interleaving of the two"""
    import ebpfcat.lock as L
    # the leaver runs k steps, the newcomer runs to its end, the leaver goes on;
    # and the same with the roles swapped
    schedules = [[0] * k + [1] * 12 + [0] * 12 for k in range(1, 8)] + \
                [[1] * k + [0] * 12 + [1] * 12 for k in range(1, 8)]
    for schedule in schedules:
        f = SimFile()
        f.exists = True
        f.content = bytearray(64)
        f.content[1] |= 1 << 1                      # number 9 registered
        sched = Scheduler(schedule)
        shim = OsShim(sched, f, {0: [], 1: [10]})
        saved = (L.os, L.fcntl, L.randrange)
        L.os = L.fcntl = shim
        L.randrange = shim.randrange
        leaver = object.__new__(L.FMMULock)
        leaver.base_addr, leaver.fd, leaver.filename = 9 << 22, 100, "sim"
        out, errors = {}, {}

        def body(pid):
            shim.local.pid = pid
            try:
                sched.point(pid, "start")
                if pid == 0:
                    leaver.remove()
                else:
                    out[1] = L.FMMULock("sim")
            except BaseException as e:      # noqa
                errors[pid] = e
            finally:
                sched.done[pid] = True
                sched.back.release()
        threads = {}
        try:
            for p in range(2):
                sched.register(p)
                threads[p] = threading.Thread(target=body, args=(p,), daemon=True)
            try:
                sched.run(threads)
            except RuntimeError:
                continue
        finally:
            L.os, L.fcntl, L.randrange = saved
        if errors:
            return {"schedule": list(schedule), "what": [f"{p}: {type(e).__name__}: {e}" for p, e in errors.items()],
                    "trace": [f"{p}:{w}" for p, w in sched.trace]}
        n = out[1].base_addr >> 22
        if not (f.content[n // 8] >> (n % 8)) & 1:
            return {"schedule": list(schedule), "trace": [f"{p}:{w}" for p, w in sched.trace],
                    "what": [f"the newcomer got address number {n}, but its bit is clear after the leaver's "
                             f"write-back: the next process may be given the same window"]}
    return None


def native_remove(name, conc, notes):
    w = remove_race()
    if w is not None:
        return {"inputs": {"schedule": w["schedule"]}, "reproduced": True,
                "detail": f"real FMMULock.remove of one participant interleaved with a real FMMULock.__init__ of "
                          f"another over one simulated file: {'; '.join(w['what'])}; trace {' '.join(w['trace'])}"}
    return native_remove_alone(name, conc, notes)


def native_remove_alone(name, conc, notes):
    import ebpfcat.lock as L
    if not conc or "self" not in conc:
        return {"inputs": None, "reproduced": None, "detail": "no concrete input"}
    try:
        mine, g = conc["self"]["g_mine"], conc["g"]
        base = conc["self"]["base_addr"]
        content = bytearray(conc["fs"]["content"])
    except Exception as e:      # noqa
        return {"inputs": None, "reproduced": None, "detail": f"counter-model not concrete ({e})"}
    if len(content) != 64:
        return {"inputs": None, "reproduced": None, "detail": "counter-model outside the resource invariant"}
    content[mine // 8] |= 1 << (mine % 8)
    f = SimFile()
    f.exists, f.content = True, bytearray(content)
    sched = Scheduler([0] * 8)
    shim = OsShim(sched, f, {0: []})
    saved = (L.os, L.fcntl)
    L.os = L.fcntl = shim
    l = object.__new__(L.FMMULock)
    l.base_addr, l.fd = base, 100
    err = []

    def body():
        shim.local.pid = 0
        try:
            sched.point(0, "start")
            l.remove()
        except BaseException as e:      # noqa
            err.append(e)
        finally:
            sched.done[0] = True
            sched.back.release()
    try:
        sched.register(0)
        sched.run({0: threading.Thread(target=body, daemon=True)})
    finally:
        L.os, L.fcntl = saved
    after = f.content
    changed = [k for k in range(512) if ((content[k // 8] >> (k % 8)) & 1) != ((after[k // 8] >> (k % 8)) & 1)]
    bad = bool(err) or changed != [mine]
    return {"inputs": {"address number": mine, "base_addr": base}, "reproduced": bad,
            "detail": f"real FMMULock.remove: bits changed {changed} (own number {mine}); errors {err}"}


# --------------------------------------------------------------------------
# Native replay of the start/stop protocol: every participant is a real
# ParallelEtherCat whose `run` context manager executes in its own thread (own
# event loop); file system, bpf objects and the network interface are one
# simulated world, and each call into it is a scheduling point.
class Stepper:
    """token scheduler: a participant runs only when the driver steps it"""

    def __init__(self):
        self.turn, self.pending, self.done = {}, {}, {}
        self.back = threading.Semaphore(0)
        self.trace = []

    def register(self, pid):
        self.turn[pid] = threading.Semaphore(0)
        self.pending[pid] = None
        self.done[pid] = False

    def point(self, pid, what):
        self.pending[pid] = what
        self.back.release()
        self.turn[pid].acquire()
        self.trace.append(f"{pid}:{what}")

    def step(self, pid):
        self.turn[pid].release()
        self.back.acquire()

    def until(self, pid, label, limit=200):
        """let pid run until its next action is `label` (not executed yet)"""
        n = 0
        while not self.done[pid] and self.pending[pid] != label:
            self.step(pid)
            n += 1
            if n > limit:
                raise RuntimeError(f"participant {pid} never reaches {label}")

    def finish(self, pid):
        self.until(pid, "<never>")


class SimWorld:
    """lock directory, pin file, attached dispatcher"""

    def __init__(self, st):
        self.st = st
        self.local = threading.local()
        self.dirs = {"/run/lock": {}}          # directory -> {name: content}
        self.pin = None                        # pinned map id
        self.attached = None                   # map id the attached dispatcher uses
        self.next_map = 100
        self.tmp = 0
        self.shared_removed = []
        self.running = {}                      # pid -> the participant (while inside its with-block)
        self.violations = []

    @property
    def pid(self):
        return self.local.pid

    def p(self, what):
        self.st.point(self.pid, what)

    # os / shutil / tempfile -------------------------------------------------
    def makedirs(self, *a, **k):
        pass

    def getpid(self):
        return 1000 + ord(self.pid)

    def mkdtemp(self, dir=None):
        self.p("mkdtemp")
        self.tmp += 1
        d = f"{dir}/tmp{self.tmp}"
        self.dirs[d] = {}
        return d

    def exists(self, path):
        d, name = path.rsplit("/", 1)
        self.p(f"exists({name})")
        return d in self.dirs and name in self.dirs[d]

    def open(self, path, mode):
        d, name = path.rsplit("/", 1)
        self.p(f"create({name})" if d.endswith(".lock") else "create(private)")
        assert mode in ("x", "w")
        if d not in self.dirs:
            raise FileNotFoundError(path)
        if name in self.dirs[d] and mode == "x":
            raise FileExistsError(path)
        self.dirs[d][name] = self.pid
        import io
        return io.StringIO()

    def rename(self, src, dst):
        self.p("rename")
        if dst in self.dirs and self.dirs[dst]:
            raise OSError(39, "Directory not empty")
        self.dirs[dst] = self.dirs.pop(src)

    def rmtree(self, d):
        self.p("rmtree")
        self.dirs.pop(d, None)

    def remove(self, path):
        if path.endswith("/programs"):
            self.p("remove(programs)")
            if self.pin is None:
                raise FileNotFoundError(path)
            self.pin = None
            return
        d, name = path.rsplit("/", 1)
        self.p("remove(lockfile)")
        del self.dirs[d][name]

    def rmdir(self, d):
        self.p("rmdir")
        if d not in self.dirs:
            raise FileNotFoundError(d)
        if self.dirs[d]:
            raise OSError(39, "Directory not empty")
        del self.dirs[d]

    # bpf ----------------------------------------------------------------------
    def create_map(self, *a):
        self.next_map += 1
        return self.next_map

    def obj_get(self, path):
        self.p("obj_get")
        if self.pin is None:
            raise FileNotFoundError(path)
        return self.pin

    def obj_pin(self, path, fd):
        self.p("obj_pin")
        if self.pin is not None:
            raise FileExistsError(path)
        self.pin = fd

    async def sleep(self, t):
        self.p("sleep")


def start_stop_scenario(script, pids):
    """run the real ParallelEtherCat.run of the participants `pids` under the
    driver `script(st, world)`; returns (world, trace, errors)"""
    import asyncio
    import ebpfcat.ebpfcat as EC
    st = Stepper()
    world = SimWorld(st)

    class Xdp:
        def __init__(self):
            self.programs = None

        async def attach(self, network):
            world.p("attach")
            world.attached = self.programs

        async def detach(self, network):
            world.p("detach")
            world.attached = None

        def close(self):
            pass

    class SharedFile:
        def __init__(self, *a):
            pass

        def remove(self):
            world.p("remove(shared lock files)")
            world.shared_removed.append(world.pid)

    class Named:
        def __init__(self, **k):
            self.__dict__.update(k)

    class OsShim:
        makedirs, getpid, rename, remove, rmdir = (world.makedirs, world.getpid, world.rename, world.remove,
                                                   world.rmdir)
        path = Named(exists=world.exists)

    async def connect(self):
        world.p("connect")
        self.g_bound = self.ethertype
    base = EC.FastEtherCat.__mro__[1]
    saved = {k: getattr(EC, k) for k in ("os", "shutil", "tempfile", "obj_get", "obj_pin", "create_map", "sleep",
                                         "LockFile", "FMMULock", "EtherXDP")}
    saved_connect = base.connect
    had_open = "open" in vars(EC)
    EC.os, EC.shutil, EC.tempfile = OsShim, Named(rmtree=world.rmtree), Named(mkdtemp=world.mkdtemp)
    EC.obj_get, EC.obj_pin, EC.create_map, EC.sleep = world.obj_get, world.obj_pin, world.create_map, world.sleep
    EC.LockFile = EC.FMMULock = SharedFile
    EC.EtherXDP = Xdp
    EC.open = world.open
    base.connect = connect
    errors, ecs = {}, {}

    def body(pid):
        world.local.pid = pid

        async def main():
            ec = object.__new__(EC.ParallelEtherCat)
            ec.addr = ("sim0", 0x88A4)
            ec.sync_groups = {}
            ec.terminal_addr_range = (0, 10)
            ecs[pid] = ec
            async with ec.run():
                world.running[pid] = ec
                world.p("running")
                world.p("leave")
                del world.running[pid]
        try:
            st.point(pid, "start")
            asyncio.run(main())
        except BaseException as e:      # noqa
            errors[pid] = e
            world.running.pop(pid, None)
        finally:
            st.done[pid] = True
            st.back.release()
    threads = {}
    try:
        for p in pids:
            st.register(p)
            threads[p] = threading.Thread(target=body, args=(p,), daemon=True)
            threads[p].start()
            st.back.acquire()

        def observe(when):
            inside = {p: ec for p, ec in world.running.items() if st.pending.get(p) == "leave"}
            ets = [ec.ethertype for ec in inside.values()]
            if len(set(ets)) != len(ets):
                world.violations.append(f"{when}: running participants share an ethertype: "
                                        f"{ {p: hex(ec.ethertype) for p, ec in inside.items()} }")
            for p, ec in inside.items():
                if world.attached is None or world.pin != world.attached or ec.programs != world.attached:
                    world.violations.append(
                        f"{when}: participant {p} is running with program table {ec.programs}, but the attached "
                        f"dispatcher uses {world.attached} and the pinned table is {world.pin}")
        script(st, world, observe)
        for p in pids:
            if not st.done[p]:
                st.finish(p)
    finally:
        for k, v in saved.items():
            setattr(EC, k, v)
        if not had_open:
            del EC.open
        base.connect = saved_connect
    types = {p: getattr(ec, "ethertype", None) for p, ec in ecs.items()}
    return world, st.trace, errors, types


def leave_race(st, world, observe):
    """A runs alone and leaves; after A's rmdir, B starts; then A finishes its clean-up"""
    st.until("A", "leave")
    st.until("A", "detach")          # A: lock file removed, rmdir done, about to detach
    st.until("B", "leave")           # B: starts completely (it is the installer now) and runs
    observe("B has started")
    st.finish("A")                   # A: detach, remove(programs), remove the shared lock files
    observe("A has finished leaving")


def join_during_install(st, world, observe):
    """A leaves (lock file removed, directory not yet); X renames over the empty
    directory and becomes the installer; B joins before X has replaced the pin"""
    st.until("A", "leave")
    st.until("A", "rmdir")
    st.until("X", "remove(programs)")
    st.until("B", "leave")           # B joins: obj_get returns the table of A's dispatcher
    st.until("X", "leave")           # X installs its own dispatcher and table
    observe("X has installed its dispatcher")
    st.finish("A")
    observe("A has left")


def double_install(st, world, observe):
    """A is preempted right after its rename; B starts completely; A goes on"""
    n = 0
    while not st.done["A"] and st.pending["A"] != "connect" and not str(st.pending["A"]).startswith("create(") or \
            st.pending["A"] == "create(private)":
        if st.pending["A"] == "rename":
            st.step("A")
            break
        st.step("A")
        n += 1
        if n > 50:
            break
    st.until("B", "leave")
    st.until("A", "leave")
    observe("A and B have both started")


def sequential(st, world, observe):
    """no overlap of start and stop phases: everything must be fine"""
    st.until("A", "leave")
    observe("A runs")
    st.until("B", "leave")
    observe("A and B run")
    st.finish("A")
    observe("A has left")
    st.until("X", "leave")
    observe("B and X run")
    st.finish("B")
    observe("B has left")
    st.finish("X")


def native_ethertype(name, conc, notes):
    """two participants start while a third keeps the lock directory alive;
    the second runs completely at each point of the first one's start"""
    found = None
    for k in range(1, 14):
        def script(st, world, observe, k=k):
            st.until("K", "leave")             # K installs and keeps running
            for _ in range(k):
                if not st.done["A"] and st.pending["A"] != "leave":
                    st.step("A")
            st.until("B", "leave")
            st.until("A", "leave")
            observe(f"A preempted after {k} steps, B started meanwhile")
        script.__doc__ = f"K runs; A starts and is preempted after {k} system calls; B starts; A goes on"
        # both newcomers draw the same random ethertype first
        import ebpfcat.ebpfcat as EC
        saved = EC.randrange
        seq = iter([0x4000, 0x4000, 0x4001, 0x4002, 0x4003, 0x4004])
        EC.randrange = lambda a, b: next(seq)
        try:
            bad, trace = native_scenario(script, "KAB")
        finally:
            EC.randrange = saved
        bad = [b for b in bad if "ethertype" in b]
        if bad:
            found = (k, bad, trace)
            break
    if found is None:
        return {"inputs": {"preemption points tried": 13}, "reproduced": None,
                "detail": "three real participants (one running, two starting with the same random draws), the "
                          "second newcomer run at every system call of the first: ethertypes always distinct"}
    k, bad, trace = found
    return {"inputs": {"participants": "K (running), A, B; both draw 0x4000 first", "A preempted after": k},
            "reproduced": True, "detail": f"{bad[0]}; trace {' '.join(trace)}"[:2500]}


def native_scenario(script, pids):
    world, trace, errors, types = start_stop_scenario(script, pids)
    bad = list(world.violations)
    for p, e in errors.items():
        bad.append(f"participant {p} raised {type(e).__name__}: {e}")
    return bad, trace


def witness(script, pids):
    def w():
        bad, trace = native_scenario(script, pids)
        return {"inputs": {"participants": list(pids), "schedule": script.__doc__},
                "reproduced": bool(bad),
                "detail": f"real ParallelEtherCat.run of {len(pids)} participants over a simulated file system / "
                          f"bpf / interface, interleaved at the system calls: {'; '.join(bad[:3])}; trace "
                          f"{' '.join(trace)}"[:3000]}
    return w


def run(tier, seed):
    from contracts import c23_parallel as S
    rep = R.Report("C23", tier, seed)
    for a in lib.ASSUMED:
        rep.assume(a)
    for a in S.ASSUMPTIONS:
        rep.assume(a)
    for b in S.BOUNDS:
        rep.bound(b)
    S.install()
    try:
        api.verify(S.fmmu_init, rep, replay=native_fmmu_init)
        api.verify(S.fmmu_next, rep, replay=native_next)
        api.verify(S.fmmu_remove, rep, replay=native_remove)
        api.verify(S.get_ethertype(), rep, replay=native_ethertype)
        api.verify(S.get_ethertype_private(), rep)
        S.install_stubs()
        try:
            # outside the regions of the two recorded findings: a participant
            # that fetches the table while nobody installs and that is not the
            # last one to leave
            api.verify(S.run_contract(False), rep,
                       replay=lambda n, i, nt: witness(double_install, "AB")() if "at_most_one_installer" in n
                       else witness(sequential, "ABX")())
            for region, contract, wit in (
                    ("ParallelEtherCat.run: the last participant leaves (its rmdir of the lock directory succeeds)",
                     S.run_contract(True), witness(leave_race, "AB")),
                    ("ParallelEtherCat.run: a participant joins while another one is installing the dispatcher",
                     S.run_contract(False, True), witness(join_during_install, "AXB"))):
                scratch = R.Report("C23", tier, seed)
                scratch.quiet = True
                api.verify(contract, scratch, quiet=True)
                rep.fold_region(scratch, region, wit)
        finally:
            S.uninstall_stubs()
    finally:
        S.uninstall()
    return rep.finish(
        explanation="pyvc, rely/guarantee: the real source of lock.FMMULock and of ParallelEtherCat's start/stop "
        "protocol is executed symbolically for one participant against atomic-action contracts of the file-system "
        "calls; shared bytes are accessed only under the lock that protects them and the resource invariant is "
        "re-established at every unlock; the clauses of the property are postconditions over the ghost shared state",
        trusted_base=["pyvc encoding (vc/pyvc)", "z3 5.1", "POSIX contracts of open(O_EXCL)/rename/rmdir/lockf"],
        level="other")


def replay_file(path):
    d = json.load(open(path))
    print(json.dumps(d, indent=1)[:3000])
    return 0
