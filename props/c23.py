"""C23 -- processes sharing an interface coordinate the dispatcher safely"""
import itertools
import json
import threading

from vc import report as R
from vc.pyvc import api, lib


# --------------------------------------------------------------------------
# Native replay: several participants run the REAL functions in threads; every
# file-system call goes through a shim that (a) hands control to a token
# scheduler first and (b) acts on one simulated file with POSIX semantics
# (O_EXCL creation, whole-file record locks between participants).
class SimFile:
    def __init__(self):
        self.exists, self.content, self.owner = False, bytearray(), None


class Scheduler:
    def __init__(self, schedule):
        self.schedule = list(schedule)
        self.turn = {}
        self.back = threading.Semaphore(0)
        self.done = {}
        self.blocked = {}
        self.trace = []

    def register(self, pid):
        self.turn[pid] = threading.Semaphore(0)
        self.done[pid] = False
        self.blocked[pid] = False

    def point(self, pid, what):
        """called by a participant before each atomic action"""
        self.back.release()
        self.turn[pid].acquire()
        self.trace.append((pid, what))

    def run(self, threads):
        for t in threads.values():
            t.start()
        for pid in threads:             # every participant runs up to its first action
            self.back.acquire()
        order = list(self.schedule)
        pids = list(threads)
        steps = 0
        while not all(self.done.values()):
            steps += 1
            if steps > 2000:
                raise RuntimeError("schedule does not terminate")
            pid = order.pop(0) if order else next(p for p in pids if not self.done[p] and not self.blocked[p])
            if self.done[pid] or self.blocked[pid]:
                runnable = [p for p in pids if not self.done[p] and not self.blocked[p]]
                if not runnable:
                    raise RuntimeError("deadlock")
                pid = runnable[0]
            self.turn[pid].release()
            self.back.acquire()


class OsShim:
    """stands in for the modules `os` and `fcntl` (and randrange) inside ebpfcat.lock"""
    O_CREAT, O_RDWR, O_EXCL, O_CLOEXEC = 64, 2, 128, 524288
    LOCK_EX, LOCK_UN, LOCK_NB = 2, 8, 4

    def __init__(self, sched, f, rands):
        self.sched, self.f, self.rands = sched, f, rands
        self.local = threading.local()

    @property
    def pid(self):
        return self.local.pid

    def makedirs(self, *a, **k):
        pass

    def open(self, name, flags):
        self.sched.point(self.pid, "open" + ("(O_EXCL)" if flags & self.O_EXCL else ""))
        if flags & self.O_EXCL:
            if self.f.exists:
                raise FileExistsError(name)
            self.f.exists = True
        elif not self.f.exists:
            raise FileNotFoundError(name)
        return 100 + self.pid

    def lockf(self, fd, cmd, *a):
        if cmd & self.LOCK_UN:
            self.sched.point(self.pid, "unlock")
            assert self.f.owner == self.pid
            self.f.owner = None
            for p in self.sched.blocked:
                self.sched.blocked[p] = False
            return
        while True:
            self.sched.point(self.pid, "lockf")
            if self.f.owner is None:
                self.f.owner = self.pid
                return
            self.sched.blocked[self.pid] = True

    def pread(self, fd, n, off):
        self.sched.point(self.pid, f"pread({n},{off})")
        return bytes(self.f.content[off:off + n])

    def _store(self, data, off):
        c = self.f.content
        if len(c) < off + len(data):
            c.extend(bytes(off + len(data) - len(c)))
        c[off:off + len(data)] = data
        return len(data)

    def pwrite(self, fd, data, off):
        self.sched.point(self.pid, f"pwrite({len(data)},{off})")
        return self._store(data, off)

    def write(self, fd, data):
        self.sched.point(self.pid, f"write({len(data)})")
        return self._store(data, 0)

    def ftruncate(self, fd, n):
        self.sched.point(self.pid, f"ftruncate({n})")
        c = self.f.content
        del c[n:]
        c.extend(bytes(n - len(c)))

    def close(self, fd):
        pass

    def randrange(self, lo, hi):
        r = self.rands[self.pid]
        v = r.pop(0) if r else lo + 1
        # a scripted number may be taken: walk on (the real code loops on randrange)
        return lo + (v - lo) % (hi - lo)


def run_participants(n, schedule, rands, action="init"):
    """n participants each construct a real FMMULock (and optionally use it)
    under the given schedule; returns (locks, file, trace, errors)"""
    import ebpfcat.lock as L
    f = SimFile()
    sched = Scheduler(schedule)
    shim = OsShim(sched, f, {p: list(rands.get(p, [])) for p in range(n)})
    saved = (L.os, L.fcntl, L.randrange)
    L.os = L.fcntl = shim
    L.randrange = shim.randrange
    locks, errors = {}, {}

    def body(pid):
        shim.local.pid = pid
        try:
            sched.point(pid, "start")
            locks[pid] = L.FMMULock("/run/ebpf/sim.fmmu")
        except BaseException as e:     # noqa
            errors[pid] = e
        finally:
            sched.done[pid] = True
            sched.back.release()
    threads = {}
    try:
        for p in range(n):
            sched.register(p)
            threads[p] = threading.Thread(target=body, args=(p,), daemon=True)
        sched.run(threads)
    finally:
        L.os, L.fcntl, L.randrange = saved
    return locks, f, sched.trace, errors


def windows_disjoint(locks, f):
    """the clauses of the property over the final state: distinct address
    numbers, each registered in the bitmap"""
    nums = {p: l.base_addr >> 22 for p, l in locks.items()}
    bad = []
    if len(set(nums.values())) != len(nums):
        bad.append(f"two participants share an address number: {nums}")
    for p, a in nums.items():
        if not (1 <= a < 512):
            bad.append(f"participant {p}: address number {a} out of range")
        elif len(f.content) != 64 or not (f.content[a // 8] >> (a % 8)) & 1:
            bad.append(f"participant {p}: its number {a} is not marked in the bitmap "
                       f"(another process may be given the same window)")
    return bad


def search_interleaving(n=2, limit=4000):
    """bounded search for a failing interleaving of n FMMULock constructions
    (replay support only: the proof is the resource-invariant obligations)"""
    tried = 0
    for rands in ({1: [1], 0: [1]}, {0: [5], 1: [5]}, {0: [1], 1: [2]}):
        for schedule in itertools.product(range(n), repeat=9):
            tried += 1
            if tried > limit:
                return None, tried
            try:
                locks, f, trace, errors = run_participants(n, schedule, rands)
            except RuntimeError:
                continue
            if errors:
                return {"schedule": list(schedule), "rands": rands, "trace": trace,
                        "what": [f"participant {p} raised {type(e).__name__}: {e}" for p, e in errors.items()]}, tried
            bad = windows_disjoint(locks, f)
            if bad:
                return {"schedule": list(schedule), "rands": {str(k): v for k, v in rands.items()},
                        "trace": [f"{p}:{w}" for p, w in trace], "what": bad}, tried
    return None, tried


def native_fmmu_init(name, conc, notes):
    w, tried = search_interleaving()
    if w is None:
        return {"inputs": {"interleavings_tried": tried}, "reproduced": None,
                "detail": f"no failing interleaving of two real FMMULock constructions among {tried} schedules"}
    return {"inputs": {"schedule": w["schedule"], "scripted randrange": w["rands"]}, "reproduced": True,
            "detail": f"two real FMMULock.__init__ over one simulated file, interleaved at the file-system calls: "
                      f"{'; '.join(w['what'])}; trace {' '.join(w['trace'])}"}


def native_next(name, conc, notes):
    import ebpfcat.lock as L
    l = object.__new__(L.FMMULock)
    mine = 7
    l.base_addr = mine << 22
    first_bad = None
    try:
        for i in range(1100):
            a = l.get_next_addr()
            if not (mine << 22) <= a < ((mine + 1) << 22) - 4095:
                first_bad = (i + 1, a)
                break
    except RuntimeError as e:
        return {"inputs": {"address number": mine, "calls": i + 1}, "reproduced": False,
                "detail": f"real FMMULock.get_next_addr raised RuntimeError({e}) at call {i + 1}: the window is "
                          f"never left"}
    return {"inputs": {"address number": mine, "calls": first_bad and first_bad[0]}, "reproduced": first_bad is not None,
            "detail": f"real FMMULock.get_next_addr: call number {first_bad and first_bad[0]} returned "
                      f"{first_bad and hex(first_bad[1])}, which lies in the window of address number "
                      f"{first_bad and first_bad[1] >> 22}, not {mine}"}


def native_remove(name, conc, notes):
    import ebpfcat.lock as L
    if not conc or "self" not in conc:
        return {"inputs": None, "reproduced": None, "detail": "no concrete input"}
    try:
        mine, g = conc["self"]["g_mine"], conc["g"]
        base = conc["self"]["base_addr"]
        content = bytearray(conc["fs"]["content"])
    except Exception as e:      # noqa
        return {"inputs": None, "reproduced": None, "detail": f"counter-model not concrete ({e})"}
    if len(content) != 64:
        return {"inputs": None, "reproduced": None, "detail": "counter-model outside the resource invariant"}
    content[mine // 8] |= 1 << (mine % 8)
    f = SimFile()
    f.exists, f.content = True, bytearray(content)
    sched = Scheduler([0] * 8)
    shim = OsShim(sched, f, {0: []})
    saved = (L.os, L.fcntl)
    L.os = L.fcntl = shim
    l = object.__new__(L.FMMULock)
    l.base_addr, l.fd = base, 100
    err = []

    def body():
        shim.local.pid = 0
        try:
            sched.point(0, "start")
            l.remove()
        except BaseException as e:      # noqa
            err.append(e)
        finally:
            sched.done[0] = True
            sched.back.release()
    try:
        sched.register(0)
        sched.run({0: threading.Thread(target=body, daemon=True)})
    finally:
        L.os, L.fcntl = saved
    after = f.content
    changed = [k for k in range(512) if ((content[k // 8] >> (k % 8)) & 1) != ((after[k // 8] >> (k % 8)) & 1)]
    bad = bool(err) or changed != [mine]
    return {"inputs": {"address number": mine, "base_addr": base}, "reproduced": bad,
            "detail": f"real FMMULock.remove: bits changed {changed} (own number {mine}); errors {err}"}


def run(tier, seed):
    from contracts import c23_parallel as S
    rep = R.Report("C23", tier, seed)
    for a in lib.ASSUMED:
        rep.assume(a)
    for a in S.ASSUMPTIONS:
        rep.assume(a)
    for b in S.BOUNDS:
        rep.bound(b)
    S.install()
    try:
        api.verify(S.fmmu_init, rep, replay=native_fmmu_init)
        api.verify(S.fmmu_next, rep, replay=native_next)
        api.verify(S.fmmu_remove, rep, replay=native_remove)
        S.verify_rest(api, rep, tier)
    finally:
        S.uninstall()
    return rep.finish(
        explanation="pyvc, rely/guarantee: the real source of lock.FMMULock and of ParallelEtherCat's start/stop "
        "protocol is executed symbolically for one participant against atomic-action contracts of the file-system "
        "calls; shared bytes are accessed only under the lock that protects them and the resource invariant is "
        "re-established at every unlock; the clauses of the property are postconditions over the ghost shared state",
        trusted_base=["pyvc encoding (vc/pyvc)", "z3 5.1", "POSIX contracts of open(O_EXCL)/rename/rmdir/lockf"],
        level="other")


def replay_file(path):
    d = json.load(open(path))
    print(json.dumps(d, indent=1)[:3000])
    return 0
