"""C24 -- cancelling a sync group releases its resources and ends cancelled"""
import asyncio
import json

from vc import report as R
from vc.pyvc import api, lib


# ------------------------------------------------------------ native replay
def cancel_scenarios(kind="slow", max_steps=40):
    """the real run() coroutine on a simulated bus, cancelled after j steps of
    the event loop, for every j: returns the list of violated scenarios.
    (A bounded search used only to turn a failed obligation into a concrete
    failing schedule -- never to claim the property.)"""
    from contextlib import asynccontextmanager
    from ebpfcat.ebpfcat import SyncGroup
    from ebpfcat.ethercat import MachineState, SyncManager
    bad = []

    async def one(j):
        log = {"op": set(), "back": set(), "open": 0, "events": []}

        class Term:
            def __init__(self, name):
                self.name = name

            async def set_state(self, state):
                await asyncio.sleep(0)
                log["events"].append((self.name, state.name))
                if state is MachineState.OPERATIONAL:
                    log["op"].add(self.name)
                    log["back"].discard(self.name)
                elif self.name in log["op"]:
                    log["back"].add(self.name)
                await asyncio.sleep(0)

            async def to_operational(self, target=MachineState.OPERATIONAL):
                await asyncio.sleep(0)

            @asynccontextmanager
            async def map_fmmu(self, logical, write):
                await asyncio.sleep(0)
                log["open"] += 1
                try:
                    yield 0
                    await asyncio.sleep(0)
                finally:
                    log["open"] -= 1

        class EC:
            ethertype = 0x88A4

            def roundtrip_packet(self, data, index=None):
                f = asyncio.get_event_loop().create_future()
                asyncio.get_event_loop().call_soon(lambda: f.done() or f.set_result(bytes(data)))
                return f
        g = object.__new__(SyncGroup)
        a, b = Term("a"), Term("b")
        g.ec, g.devices = EC(), []
        g.terminals = {a: True, b: True}
        g.fmmu_maps = {a: {SyncManager.OUT: 0x1000, SyncManager.IN: 0x1800}, b: {SyncManager.IN: 0x1810}}
        g.asm_packet = bytes(64)
        g.packet_index = 7
        g.cycletime = 0.0
        g.update_devices = lambda data: data
        task = asyncio.ensure_future(g.run())
        for _ in range(j):
            await asyncio.sleep(0)
            if task.done():
                break
        import logging
        logging.disable(logging.CRITICAL)
        task.cancel()
        outcome = None
        for attempt in range(4):
            # asyncio.wait_for of this interpreter may swallow a cancellation
            # that races with the completion of the awaited future (an asyncio
            # matter, not ebpfcat's): deliver it again, do not judge it
            for _ in range(200):
                if task.done():
                    break
                await asyncio.sleep(0)
            if task.done():
                break
            task.cancel()
        if not task.done():
            outcome = "undecided: task did not finish after repeated cancellation"
        else:
            try:
                task.result()
                outcome = "returned"
            except asyncio.CancelledError:
                outcome = "cancelled"
            except Exception as e:       # noqa
                outcome = f"{type(e).__name__}: {e}"
        if outcome.startswith("undecided"):
            return
        left_op = sorted(log["op"] - log["back"])
        if outcome != "cancelled" or left_op or log["open"]:
            bad.append({"cancel_after_loop_steps": j, "outcome": outcome,
                        "left_in_OPERATIONAL": left_op, "fmmu_mappings_still_open": log["open"],
                        "bus_writes": log["events"]})
    for j in range(max_steps):
        asyncio.run(one(j))
    return bad


def native_run(name, conc, notes):
    bad = cancel_scenarios()
    if bad:
        return {"inputs": bad[0], "reproduced": True,
                "detail": f"real SyncGroupBase.run on a simulated bus, task cancelled after "
                          f"{bad[0]['cancel_after_loop_steps']} event-loop steps: outcome {bad[0]['outcome']}, "
                          f"terminals left in OPERATIONAL {bad[0]['left_in_OPERATIONAL']}, FMMU mappings open "
                          f"{bad[0]['fmmu_mappings_still_open']}; bus writes {bad[0]['bus_writes']} "
                          f"({len(bad)} failing cancellation points)"}
    return {"inputs": conc, "reproduced": None,
            "detail": "no failing cancellation point among the first 40 event-loop steps of the simulated run"}


def native_register(name, conc, notes):
    """the real register_sync_group against a real, empty program array of
    this kernel (the group's program is a stand-in: the replay only asks
    whether the free slot is recognised)"""
    from types import SimpleNamespace as NS
    from ebpfcat.bpf import MapType, create_map
    from ebpfcat.ebpfcat import FastEtherCat
    try:
        ec = object.__new__(FastEtherCat)
        ec.programs = create_map(MapType.PROG_ARRAY, 4, 4, 64)
        ec.sync_groups = {}
    except Exception as e:      # noqa
        return {"inputs": None, "reproduced": None, "detail": f"no bpf() here: {e!r}"}
    sg = NS(load=lambda: None, close=lambda: None, file_descriptor=-1)
    try:
        with ec.register_sync_group(sg):
            out = "registered"
    except KeyError as e:
        out = f"KeyError({e}) from the lookup of the free slot"
    except Exception as e:      # noqa
        out = f"past the lookup ({type(e).__name__} for the stand-in program)"
    return {"inputs": {"program table": "empty PROG_ARRAY of 64 slots (real kernel map)"},
            "reproduced": out.startswith("KeyError"),
            "detail": f"real FastEtherCat.register_sync_group: {out}"}


def native_fast_update(name, conc, notes):
    from ebpfcat.ebpfcat import FastSyncGroup
    bad = []
    for first in (None, b"old-frame"):
        for bit in (0, 1):
            g = object.__new__(FastSyncGroup)
            g.devices, g.asm_packet, g.current_data = [], b"assembled", first
            data = bytes([0, 0, 0, 0x10 | bit, 9, 9])
            ret = g.update_devices(data)
            want = data if bit else first
            if ret is not g.asm_packet or g.current_data is not want:
                bad.append((first, bit, ret, g.current_data))
    return {"inputs": {"current_data before": [None, "a frame"], "processed bit": [0, 1]}, "reproduced": bool(bad),
            "detail": f"real FastSyncGroup.update_devices: (before, bit, returned, current_data after) that differ: {bad[:2]}"}


def native_stop(name, conc, notes):
    """the real run() of a slow group whose flag is cleared while every frame
    times out (the bus delivers nothing any more)"""
    from contextlib import asynccontextmanager
    from ebpfcat.ebpfcat import SyncGroup
    from ebpfcat.ethercat import MachineState, SyncManager
    log = {"events": [], "open": 0}

    class Term:
        name = "a"

        async def set_state(self, state):
            log["events"].append(state.name)

        async def to_operational(self, target=MachineState.OPERATIONAL):
            pass

        @asynccontextmanager
        async def map_fmmu(self, logical, write):
            log["open"] += 1
            try:
                yield 0
            finally:
                log["open"] -= 1

    class EC:
        ethertype = 0x88A4

        def roundtrip_packet(self, data, index=None):
            return asyncio.get_event_loop().create_future()      # never answered

    async def go():
        g = object.__new__(SyncGroup)
        a = Term()
        g.ec, g.devices, g.name = EC(), [], "group"
        g.terminals = {a: True}
        g.fmmu_maps = {a: {SyncManager.OUT: 0x1000}}
        g.asm_packet, g.packet_index, g.cycletime = bytes(64), 7, 0.0
        g.missed_counter, g.running = 0, True
        g.update_devices = lambda data: data
        task = asyncio.ensure_future(g.run())
        await asyncio.sleep(0.05)
        g.running = False
        await asyncio.sleep(0.3)
        done = task.done()
        task.cancel()
        try:
            await task
        except BaseException:      # noqa
            pass
        return done
    import logging
    logging.disable(logging.CRITICAL)
    try:
        done = asyncio.run(go())
    finally:
        logging.disable(logging.NOTSET)
    return {"inputs": {"bus": "every frame times out", "flag cleared after": "0.05 s"}, "reproduced": not done,
            "detail": f"real SyncGroupBase.run: 0.3 s after `running` was cleared the coroutine had "
                      f"{'ended' if done else 'NOT ended (it keeps re-sending)'}; bus writes until then {log['events']}"}


def native_wait(name, conc, notes):
    """the real wait_for_process with a real child process, cancelled while
    the child is still running"""
    import subprocess
    import time
    from ebpfcat.ebpfcat import ProcessSyncGroup

    class V:
        value = True

    async def go():
        child = subprocess.Popen(["sleep", "0.4"])
        g = object.__new__(ProcessSyncGroup)
        g.process = child
        g.runningValue = V()
        task = asyncio.ensure_future(g.wait_for_process())
        await asyncio.sleep(0.05)
        task.cancel()
        t0 = time.time()
        try:
            await asyncio.wait_for(asyncio.shield(task), 5)
            out = "returned"
        except asyncio.CancelledError:
            out = "cancelled"
        except Exception as e:      # noqa
            out = f"{type(e).__name__}: {e}"
        exited = child.poll() is not None
        child.wait()
        return out, exited, g.runningValue.value
    out, exited, running = asyncio.run(go())
    bad = out != "cancelled" or not exited or running
    return {"inputs": {"child": "sleep 0.4", "cancel_after_s": 0.05}, "reproduced": bad,
            "detail": f"real ProcessSyncGroup.wait_for_process, cancelled while the child runs: task outcome "
                      f"{out}; child had exited when the task ended: {exited}; runningValue afterwards: {running}"}


def run(tier, seed):
    from contracts import c24_cancel as S
    from ebpfcat.ebpfcat import SyncGroup
    rep = R.Report("C24", tier, seed)
    for a in lib.ASSUMED:
        rep.assume(a)
    rep.assume("A-ASYNC; CancelledError may be raised at any await, once per run (a second cancellation during "
               "the clean-up is outside the property)")
    rep.assume("program table: bpf.lookup_elem finds the slot free (KeyError, as bpf._lookup_elem reports ENOENT - C10), "
               "taken, or fails with another OSError; update_elem enters the group or is refused (OSError); update_elem / "
               "delete_elem add / remove the entry; the child's pidfd becomes readable when the child has exited; "
               "map variables of the group (wkc_errors) as plain fields (C08)")
    rep.assume("Terminal.set_state/to_operational: the bus write happens at some point while the coroutine is "
               "awaited; asyncio.gather: on cancellation any subset of the children has done its write; "
               "Terminal.map_fmmu by its C20 contract; AsyncExitStack leaves all entered managers")
    # FMMUs freed: the sync group relies on Terminal.map_fmmu's C20 contract
    # (leaving frees the slot, also on failure and cancellation): it is
    # re-proved in this run, so that a change inside map_fmmu fails here too
    from contracts import c20_fmmu as S20
    from props.c20 import native as native20
    api.verify(S20.map_fmmu, rep, replay=native20, options={"cancellation": False})
    saved = dict(api.REGISTRY)
    S.install()
    try:
        ns = (0, 1, 2) if tier == "thorough" else (1, 2)
        for n in ns:
            api.verify(S.run_contract(SyncGroup, n), rep, replay=native_run)
            if n == 1:
                api.verify(S.run_stop_contract(), rep, replay=native_stop)
        api.verify(S.wait_for_process, rep, replay=native_wait)
        for n in (ns if tier == "thorough" else (1,)):
            api.verify(S.fast_run_contract(n), rep,
                       replay=lambda nm, i, nt: native_register(nm, i, nt) if "KeyError" in nm else native_run(nm, i, nt))
        # (last: the contract takes the place of the stub UpdateDevices in the registry)
        api.verify(S.fast_update_devices(), rep, replay=native_fast_update)
        rep.bound(f"SyncGroupBase.run is proved for groups of {ns} terminals (any read/write flags, any subset of "
                  f"FMMU mappings) - bounded in the number of terminals; every await is a cancellation point")
    finally:
        api.REGISTRY.clear()
        api.REGISTRY.update(saved)
    return rep.finish(
        explanation="pyvc: the real source of SyncGroupBase.run (map_fmmu inlined), FastSyncGroup.run (with "
        "FastEtherCat.register_sync_group and SyncGroupBase.run inlined) and ProcessSyncGroup.wait_for_process "
        "with CancelledError as an exceptional exit of every await; exceptional postconditions from the property "
        "(asked back, FMMUs freed, program unregistered, child stopped, ends cancelled)",
        trusted_base=["pyvc encoding (vc/pyvc)", "z3 5.1", "asyncio contracts (gather, wait_for, AsyncExitStack)"],
        level="other")


def replay_file(path):
    bad = cancel_scenarios()
    print(json.dumps(bad[:2], indent=1, default=str)[:3000])
    return 1 if bad else 0
