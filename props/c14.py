"""C14 -- state changes walk the EtherCAT state machine in order"""
import asyncio
import json

from vc import report as R
from vc.pyvc import api, lib, replay as RP

ORDER = [1, 2, 4, 8]


class ScriptEnd(Exception):
    pass


def run_real(target, reads):
    """the real coroutine against a scripted terminal; returns the trace"""
    from ebpfcat.ethercat import ECCmd, MachineState, Terminal
    trace = []
    script = list(reads)

    class EC:
        async def roundtrip(self, cmd, pos, offset, *args, data=None, idx=0):
            if cmd is ECCmd.FPRD and offset == 0x130:
                if not script:
                    raise ScriptEnd()
                st, err, status, rsv = script.pop(0)
                trace.append(("read", st, err))
                return (st | (16 if err else 0) | (rsv << 5), status)
            if cmd is ECCmd.FPWR and offset == 0x120:
                trace.append(("write", args[1]))
                return ()
            raise AssertionError((cmd, offset, args))
    t = object.__new__(Terminal)
    t.ec = EC()
    t.position = 7
    outcome = "return"
    try:
        asyncio.run(t.to_operational(MachineState(target)))
    except ScriptEnd:
        outcome = "script exhausted (still polling)"
    except Exception as e:
        outcome = "raise " + type(e).__name__
    return trace, outcome


def oracle(trace, outcome, target):
    """the property, evaluated on a finished trace; returns violated clauses"""
    bad = []
    reads = [e for e in trace if e[0] == "read"]
    if not reads:
        return ["no read"]
    first = trace[0]
    start, err0 = first[1], first[2]
    level, confirmed, acked = start, True, False
    err_walk = False
    seen_first = False
    for e in trace:
        if e[0] == "read":
            if seen_first:
                err_walk = err_walk or e[2]
                if e[1] == level:
                    confirmed = True
            seen_first = True
            last = e[1]
        else:
            v = e[1]
            if v == 0x11:
                if not (err0 and not acked and trace.index(e) == 1):
                    bad.append("ack only after a reported error, first")
                acked, level, confirmed = True, 1, True
            else:
                if err0 and not acked:
                    bad.append("error acknowledged first")
                if level not in ORDER[:-1] or v != ORDER[ORDER.index(level) + 1]:
                    bad.append("one step at a time, in order")
                if v > target:
                    bad.append("never above the target")
                if not confirmed:
                    bad.append("previous request was reported")
                level, confirmed = v, False
    if outcome == "return" and start != 3:
        if acked and not (level == target and last == target):
            bad.append("after_ack_returns_at_target")
        if not acked and not last >= target:
            bad.append("returns_only_at_or_above_target")
        if err_walk:
            bad.append("no_error_during_walk")
        if acked != err0:
            bad.append("error_was_acknowledged")
    if outcome.startswith("raise EtherCatError") and not err_walk:
        bad.append("only_on_error")
    if outcome.startswith("raise") and not outcome.startswith("raise EtherCatError"):
        bad.append("unexpected exception " + outcome)
    return bad


def native(name, conc, notes):
    reads = conc.get("__extra__") or []
    target = conc["target"].value
    trace, outcome = run_real(target, reads)
    bad = oracle(trace, outcome, target)
    return {"inputs": {"target": target, "terminal_answers(state,error,status,reserved)": reads},
            # an intermediate obligation (loop invariant) that fails has a
            # failing input only if the trace violates a clause of the property
            "reproduced": True if bad else (None if (".loop" in name or "still polling" in outcome) else False),
            "detail": f"real coroutine with scripted terminal: trace={trace} outcome={outcome}; "
                      f"violated clauses: {bad}"}


def run(tier, seed):
    from contracts import c14_state as S
    rep = R.Report("C14", tier, seed)
    for a in lib.ASSUMED:
        rep.assume(a)
    rep.assume("environment: every read of AL status (0x0130) returns a valid AL state code (1,2,3,4,8), "
               "any error flag, any status code; writes of AL control (0x0120) are always accepted")
    rep.assume("A-ASYNC: code between two awaits is atomic; to_operational shares no state with other tasks")
    rep.assume("termination of the polling loop depends on the terminal and is not claimed")
    api.verify(S.to_operational, rep, replay=native)
    from ebpfcat.ethercat import Terminal
    import inspect
    rep.function("ebpfcat.ethercat:Terminal.get_state (inlined)", inspect.getsource(Terminal.get_state))
    return rep.finish(
        explanation="pyvc: the real source of Terminal.to_operational (get_state inlined) is executed "
        "symbolically for every start state, error flag, target and any number of polls (loop invariant); "
        "the protocol clauses of the property are obligations at each bus write (ghost state in the bus "
        "contract) and postconditions at return/raise",
        trusted_base=["pyvc encoding (vc/pyvc)", "z3 5.1", "bus contract (environment)"])


def replay_file(path):
    d = json.load(open(path))
    inp = d["inputs"]
    trace, outcome = run_real(inp["target"], [tuple(r) for r in inp["terminal_answers(state,error,status,reserved)"]])
    bad = oracle(trace, outcome, inp["target"])
    print(trace, outcome, bad)
    return 1 if bad else 0
