"""C12 -- every datagram request gets exactly its own response"""
import asyncio
import json

from vc import report as R
from vc.pyvc import api, lib, replay as RP


def native_process(contract, name, conc, notes):
    """the real process_packet with real asyncio futures"""
    from ebpfcat.ethercat import EtherCat, EtherCatError
    reqs = conc["dgrams"]
    resp = conc["resp"]
    out = {}

    async def go():
        ec = object.__new__(EtherCat)
        futs = []
        for s, e, f in reqs:
            fu = asyncio.get_event_loop().create_future()
            if f["state"] == 1:
                fu.cancel()
            futs.append(fu)

        def rp(packet, index=None):
            r = asyncio.get_event_loop().create_future()
            r.set_result(resp)
            return r
        ec.roundtrip_packet = rp
        try:
            await ec.process_packet([(s, e, fu) for (s, e, f), fu in zip(reqs, futs)], None)
            out["outcome"] = "return"
        except Exception as ex:
            out["outcome"] = "raise " + type(ex).__name__
        bad = []
        for (s, e, f), fu in zip(reqs, futs):
            w = resp[e] + 256 * resp[e + 1]
            if f["state"] == 1:
                ok = fu.cancelled()
            elif w == 0:
                ok = fu.done() and not fu.cancelled() and isinstance(fu.exception(), EtherCatError)
            else:
                ok = fu.done() and not fu.cancelled() and fu.exception() is None and fu.result() == resp[s:e]
            if not ok:
                bad.append((s, e, "cancelled by owner" if f["state"] == 1 else "pending",
                            repr(fu)))
        out["bad"] = bad
    asyncio.run(go())
    return {"inputs": {"requests(start,stop,state)": [(s, e, f["state"]) for s, e, f in reqs], "response": resp},
            "reproduced": bool(out["bad"]) or out["outcome"] != "return",
            "detail": f"real process_packet: {out['outcome']}; requests with a wrong outcome: {out['bad']}"}


def native_fault(contract, name, conc, notes):
    """the real process_packet when the frame never comes back"""
    from ebpfcat.ethercat import EtherCat, EtherCatError
    out = {}

    async def go():
        ec = object.__new__(EtherCat)
        futs = [asyncio.get_event_loop().create_future() for _ in range(2)]
        futs[1].cancel()

        async def rp(packet, index=None):
            raise OSError("network is down")
        ec.roundtrip_packet = rp
        try:
            await ec.process_packet([(26, 28, futs[0]), (40, 42, futs[1])], None)
            out["outcome"] = "return"
        except Exception as ex:
            out["outcome"] = "raise " + type(ex).__name__
        e = futs[0].exception() if futs[0].done() and not futs[0].cancelled() else None
        out["exc"] = repr(e)
        out["bad"] = not isinstance(e, OSError) or isinstance(e, EtherCatError) or not futs[1].cancelled()
    import logging
    logging.disable(logging.CRITICAL)
    try:
        asyncio.run(go())
    finally:
        logging.disable(logging.NOTSET)
    return {"inputs": {"requests": "one pending, one cancelled by its owner", "bus": "OSError('network is down')"},
            "reproduced": out["bad"] or out["outcome"] != "raise OSError",
            "detail": f"real process_packet: {out['outcome']}; the pending request failed with {out['exc']} "
                      f"(EtherCatError means: the bus did not process the datagram)"}


def run(tier, seed):
    from contracts import c12_requests as S
    rep = R.Report("C12", tier, seed)
    for a in lib.ASSUMED:
        rep.assume(a)
    rep.assume("asyncio.Future contract: set_result/set_exception raise InvalidStateError unless pending; done() is "
               "true for cancelled futures")
    rep.assume("environment: the frame returns with the length it was sent with; working counters and data arbitrary")
    rep.bound("process_packet is proved for frames carrying 0..3 requests (bounded in the number of requests per "
              "frame); windows, response bytes and which requests were cancelled are unbounded")
    for c in S.PROCESS:
        api.verify(c, rep, replay=lambda n, i, nt, c=c: native_process(c, n, i, nt))
    S.verify_faults(api, rep, native_fault)
    from props import c12_sendloop
    c12_sendloop.verify(rep)
    return rep.finish(
        explanation="pyvc: the real source of EtherCat.process_packet against per-request outcome clauses with a "
        "ghost model of asyncio.Future (O3/O4 of DESIGN.md), and of sendloop against a progress invariant (O6)",
        trusted_base=["pyvc encoding (vc/pyvc)", "z3 5.1", "Future contract", "bus contract"], level="other")


def replay_file(path):
    print(json.dumps(json.load(open(path)), indent=1)[:3000])
    return 0
