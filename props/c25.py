"""C25 -- terminal addresses assigned by the master are unique"""
import asyncio
import json

from vc import report as R
from vc.pyvc import api, lib


def native(name, conc, notes):
    """the real coroutines on a simulated bus with scripted random draws: small
    address ranges, addresses already handed out or answered by a terminal at
    the edges of the range"""
    import asyncio
    import itertools
    import ebpfcat.ethercat as E
    bad = []

    def scenario(lo, hi, used, answering, draws):
        ec = object.__new__(E.EtherCat)
        ec.terminal_addr_range = (lo, hi)
        ec.used_addresses = set(used)
        seq = itertools.chain(draws, itertools.cycle(range(lo, hi + 1)))

        async def roundtrip(cmd, pos, offset, *a, **k):
            if cmd is E.ECCmd.FPRD and pos not in answering:
                raise E.EtherCatError("datagram was not processed")
            return (0,)
        ec.roundtrip = roundtrip
        saved = E.randint
        E.randint = lambda a, b: next(seq)
        try:
            before = set(ec.used_addresses)
            got = asyncio.run(asyncio.wait_for(ec.find_free_address(), 5))
        except Exception as e:      # noqa
            bad.append((lo, hi, sorted(used), sorted(answering), draws, f"{type(e).__name__}: {e}"))
            return
        finally:
            E.randint = saved
        why = []
        if not lo <= got <= hi:
            why.append("outside the configured range")
        if got in before:
            why.append("already handed out")
        if got in answering:
            why.append("a terminal answers there")
        if got not in ec.used_addresses:
            why.append("not recorded as used")
        if why:
            bad.append((lo, hi, sorted(used), sorted(answering), draws, f"returned {got}: " + ", ".join(why)))
    for lo, hi in ((1000, 1003), (5, 6)):
        span = list(range(lo, hi + 1))
        for used in ([], [hi], [lo], [hi - 1, hi]):
            for answering in ([], [hi], [lo]):
                if set(used) | set(answering) >= set(span):
                    continue
                for first in (lo, hi, hi - 1):
                    scenario(lo, hi, used, answering, [first])
    return {"inputs": {"scenarios": "ranges 1000..1003 and 5..6 x used/answering addresses at the edges x first draw"},
            "reproduced": True if bad else None,
            "detail": f"real EtherCat.find_free_address on a simulated bus, scripted randint; failing (lo, hi, used, "
                      f"answering, first draw, what): {bad[:3]} ({len(bad)} failing)"}


def run(tier, seed):
    from contracts import c25_addr as S
    rep = R.Report("C25", tier, seed)
    for a in lib.ASSUMED:
        rep.assume(a)
    rep.assume("bus contract: FPRD of register 0x10 at address a raises EtherCatError iff no terminal answers at a")
    rep.assume("A-ASYNC; rely: at an await other tasks may only add to used_addresses")
    rep.assume("random.randint(a, b) returns any integer in [a, b]; termination of the retry loop is not claimed")
    api.verify(S.find_free_address, rep, replay=native)
    api.verify(S.assigned_address, rep, replay=native)
    return rep.finish(
        explanation="pyvc: the real source of EtherCat.find_free_address with a loop invariant (the used set only "
        "grows) under the rely that concurrent callers only add addresses: the returned address is in range, was "
        "not in the used set when the call started, is recorded before the first await (so no later caller can "
        "pick it), and no terminal answered at it",
        trusted_base=["pyvc encoding (vc/pyvc)", "z3 5.1", "bus contract", "rely"])


def replay_file(path):
    print(json.dumps(json.load(open(path)), indent=1)[:3000])
    return 0
