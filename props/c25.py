"""C25 -- terminal addresses assigned by the master are unique"""
import asyncio
import json

from vc import report as R
from vc.pyvc import api, lib


def native(name, conc, notes):
    """the real coroutine on a simulated bus; scripted randint"""
    import ebpfcat.ethercat as E
    used = conc["self"]["used_addresses"] if isinstance(conc["self"].get("used_addresses"), (list, set)) else []
    return {"inputs": conc, "reproduced": None, "detail": "no native harness for this clause"}


def run(tier, seed):
    from contracts import c25_addr as S
    rep = R.Report("C25", tier, seed)
    for a in lib.ASSUMED:
        rep.assume(a)
    rep.assume("bus contract: FPRD of register 0x10 at address a raises EtherCatError iff no terminal answers at a")
    rep.assume("A-ASYNC; rely: at an await other tasks may only add to used_addresses")
    rep.assume("random.randint(a, b) returns any integer in [a, b]; termination of the retry loop is not claimed")
    api.verify(S.find_free_address, rep)
    api.verify(S.assigned_address, rep)
    return rep.finish(
        explanation="pyvc: the real source of EtherCat.find_free_address with a loop invariant (the used set only "
        "grows) under the rely that concurrent callers only add addresses: the returned address is in range, was "
        "not in the used set when the call started, is recorded before the first await (so no later caller can "
        "pick it), and no terminal answered at it",
        trusted_base=["pyvc encoding (vc/pyvc)", "z3 5.1", "bus contract", "rely"])


def replay_file(path):
    print(json.dumps(json.load(open(path)), indent=1)[:3000])
    return 0
