"""C25 -- terminal addresses assigned by the master are unique"""
import asyncio
import json

from vc import report as R
from vc.pyvc import api, lib


def native(name, conc, notes):
    """the real coroutines on a simulated bus with scripted random draws: small
    address ranges, addresses already handed out or answered by a terminal at
    the edges of the range"""
    import asyncio
    import itertools
    import ebpfcat.ethercat as E
    bad = []

    def scenario(lo, hi, used, answering, draws):
        ec = object.__new__(E.EtherCat)
        ec.terminal_addr_range = (lo, hi)
        ec.used_addresses = set(used)
        seq = itertools.chain(draws, itertools.cycle(range(lo, hi + 1)))

        async def roundtrip(cmd, pos, offset, *a, **k):
            if cmd is E.ECCmd.FPRD and pos not in answering:
                raise E.EtherCatError("datagram was not processed")
            return (0,)
        ec.roundtrip = roundtrip
        saved = E.randint
        E.randint = lambda a, b: next(seq)
        try:
            before = set(ec.used_addresses)
            got = asyncio.run(asyncio.wait_for(ec.find_free_address(), 5))
        except Exception as e:      # noqa
            bad.append((lo, hi, sorted(used), sorted(answering), draws, f"{type(e).__name__}: {e}"))
            return
        finally:
            E.randint = saved
        why = []
        if not lo <= got <= hi:
            why.append("outside the configured range")
        if got in before:
            why.append("already handed out")
        if got in answering:
            why.append("a terminal answers there")
        if got not in ec.used_addresses:
            why.append("not recorded as used")
        if why:
            bad.append((lo, hi, sorted(used), sorted(answering), draws, f"returned {got}: " + ", ".join(why)))
    for lo, hi in ((1000, 1003), (5, 6)):
        span = list(range(lo, hi + 1))
        for used in ([], [hi], [lo], [hi - 1, hi]):
            for answering in ([], [hi], [lo]):
                if set(used) | set(answering) >= set(span):
                    continue
                for first in (lo, hi, hi - 1):
                    scenario(lo, hi, used, answering, [first])
    return {"inputs": {"scenarios": "ranges 1000..1003 and 5..6 x used/answering addresses at the edges x first draw"},
            "reproduced": True if bad else None,
            "detail": f"real EtherCat.find_free_address on a simulated bus, scripted randint; failing (lo, hi, used, "
                      f"answering, first draw, what): {bad[:3]} ({len(bad)} failing)"}


def native_forget(where):
    """(in a child process with a time limit: the function under test may not return)"""
    import multiprocessing as mp
    ctx = mp.get_context("fork")
    q = ctx.Queue()
    p = ctx.Process(target=lambda: q.put(_native_forget(where)))
    p.start()
    p.join(20)
    if p.is_alive():
        p.kill()
        p.join()
        return {"inputs": list(where), "reproduced": None,
                "detail": f"{where[0]}:{where[2]} in {where[1]} assigns used_addresses (the native scenario did not "
                          f"finish within 20 s)"}
    return q.get() if not q.empty() else {"inputs": list(where), "reproduced": None, "detail": "replay died"}


def _native_forget(where):
    """a reservation made by find_free_address, then the unexpected writer runs,
    then the same address is drawn again"""
    import asyncio
    import ebpfcat.ethercat as E
    fname, qual, line = where
    detail = f"{fname}:{line} in {qual} assigns used_addresses"
    ec = object.__new__(E.EtherCat)
    ec.terminal_addr_range = (1000, 1003)
    ec.used_addresses = set()
    state = {"release": None}

    async def roundtrip(cmd, pos, offset, *a, **k):
        if cmd is E.ECCmd.FPRD:
            raise E.EtherCatError("datagram was not processed")
        if cmd is E.ECCmd.APRD and a and a[0] == "4xI":
            return (4711,)
        return (0,)
    ec.roundtrip = roundtrip

    async def count():
        return 1
    ec.count = count
    saved = E.randint
    E.randint = lambda a, b: 1002

    async def go():
        first = await ec.find_free_address()        # reserved, not yet written to a terminal
        meth = getattr(ec, qual.split(".")[-1])
        try:
            r = meth()
            if asyncio.iscoroutine(r):
                await r
        except Exception as e:      # noqa
            return first, None, f"{type(e).__name__}: {e}"
        E.randint = lambda a, b, seq=iter([1002, 1001, 1000, 1003]): next(seq)
        second = await ec.find_free_address()
        return first, second, ""
    try:
        first, second, err = asyncio.run(asyncio.wait_for(go(), 5))
    except Exception as e:      # noqa
        return {"inputs": list(where), "reproduced": None, "detail": detail + f"; replay failed: {e!r}"}
    finally:
        E.randint = saved
    return {"inputs": list(where), "reproduced": second == first,
            "detail": detail + f"; real master: find_free_address returned {first}; then {qual}() {err}; the next "
                      f"find_free_address (drawing the same number first) returned {second}"}


def run(tier, seed):
    from contracts import c25_addr as S
    rep = R.Report("C25", tier, seed)
    for a in lib.ASSUMED:
        rep.assume(a)
    rep.assume("bus contract: FPRD of register 0x10 at address a raises EtherCatError iff no terminal answers at a")
    rep.assume("A-ASYNC; rely: at an await other tasks may only add to used_addresses")
    rep.assume("random.randint(a, b) returns any integer in [a, b]; termination of the retry loop is not claimed")
    # the bus contract's "iff": a request fails with EtherCatError only when
    # its datagram came back unprocessed - a transport fault reaches the caller
    # as itself (C12's contract of process_packet, re-proved here)
    from contracts import c12_requests as S12
    from props import c12
    S12.verify_faults(api, rep, c12.native_fault)
    api.verify(S.find_free_address, rep, replay=native)
    api.verify(S.assigned_address, rep, replay=native)
    # "used only grows" is proved for find_free_address; that nothing else in
    # the package replaces the set is a frame condition over the source
    from props import c18
    from vc import smt
    ws = c18.field_writers("used_addresses")
    extra = [w for w in ws if w[1] not in ("EtherCat.__init__",)]
    rep.obligation("EtherCat.used_addresses.assigned_only_by[__init__]",
                   smt.Result(smt.PROVED if ws and not extra else smt.REFUTED, "ast-scan", 0.0, None,
                              f"assignments found: {ws}"),
                   func="ebpfcat package",
                   text="frame condition: the set of reserved addresses is created by EtherCat.__init__ and "
                        "afterwards only added to (find_free_address); no function assigns a new set - a "
                        "reservation that is not yet written to a terminal would be forgotten",
                   replay=(lambda m: native_forget(extra[0])) if extra else None)
    return rep.finish(
        explanation="pyvc: the real source of EtherCat.find_free_address with a loop invariant (the used set only "
        "grows) under the rely that concurrent callers only add addresses: the returned address is in range, was "
        "not in the used set when the call started, is recorded before the first await (so no later caller can "
        "pick it), and no terminal answered at it",
        trusted_base=["pyvc encoding (vc/pyvc)", "z3 5.1", "bus contract", "rely"])


def replay_file(path):
    print(json.dumps(json.load(open(path)), indent=1)[:3000])
    return 0
