"""C11 -- assembled EtherCAT frames are well-formed with exact positions"""
import json

from vc import report as R
from vc.pyvc import api, lib


def make_packet(d, cls):
    p = object.__new__(cls)
    for k, v in d.items():
        if k != "__class__":
            setattr(p, k, v)
    return p


def replay_clause(contract, name, conc, notes):
    """run the real function on the model's input and evaluate the failed
    clause natively"""
    return replay_concrete(contract, name, conc)


def replay_concrete(contract, name, conc):
    import copy
    from contracts import c11_packet as S
    from ebpfcat.ethercat import Packet
    args = dict(conc)
    if isinstance(args.get("self"), dict):
        args["self"] = make_packet(args["self"], Packet)
    old = copy.deepcopy(args)
    oldns = type("old", (), {})()
    for k, v in old.items():
        setattr(oldns, k, v)
    ghost = {k: args.pop(k) for k in list(args) if k in ("g",)}
    self = args.pop("self")
    fn = contract.target
    detail = ""
    try:
        if "address" in args:
            addr = args.pop("address")
            wkc = args.pop("wkc")
            result = fn(self, args["cmd"], args["data"], args["idx"], *addr, wkc=wkc)
            args["address"], args["wkc"] = addr, wkc
        else:
            result = fn(self, **args)
        outcome = "return"
    except Exception as e:
        result, outcome = e, "raise " + type(e).__name__
    env = dict(vars(S))
    env.update(args)
    env.update(ghost)
    env.update(self=self, old=oldns, result=result)
    if contract.ghost_post and outcome == "return":
        exec(contract.ghost_post, env)
    clause = None
    if ".ensures[" in name and outcome == "return":
        key = name.split(".ensures[")[1][:-1]
        clause = contract.ensures.get(key)
    holds = None
    if clause is not None:
        try:
            holds = bool(eval(clause, env))
        except Exception as e:
            holds = False
            detail = f"clause raised {e!r}; "
    elif "raises" in name:
        holds = outcome.startswith("raise") if "must_raise" in name else None
        if "unexpected" in name:
            holds = not outcome.startswith("raise")
    elif outcome == "return":
        # an intermediate obligation (loop invariant, call-site requires):
        # the input is a failing input iff some postcondition fails natively
        failed = []
        for k, c in contract.ensures.items():
            try:
                if not eval(c, env):
                    failed.append(k)
            except Exception as e:
                failed.append(f"{k} raised {e!r}")
        clause = "all ensures clauses"
        holds = None if not failed else False
        detail = f"postconditions failing natively: {failed}; "
    elif outcome.startswith("raise") and not any(
            isinstance(result, r.exc) for r in contract.raises):
        holds = False
        detail = "unexpected exception; "
    return {"inputs": {k: v for k, v in conc.items()},
            "reproduced": (None if holds is None else (not holds)),
            "detail": detail + f"real code outcome: {outcome}; clause `{clause}` -> {holds}"}


def append_grid(name):
    """no model from the solver: the real Packet.append on a small grid of
    calls (addresses and counters that include 0), first failing one wins"""
    from contracts import c11_packet as S
    from ebpfcat.ethercat import ECCmd
    last = None
    for address in ((3, 0), (0, 0), (0, 0x10), (7, 0x130), (0,), (0x10000,)):
        for wkc in (0, 1):
            for data in (b"", b"ab"):
                conc = {"self": {"data": [], "size": 16, "goff": [16]}, "cmd": ECCmd.FPRD, "data": data, "idx": 0,
                        "address": address, "wkc": wkc}
                last = replay_concrete(S.append, name, conc)
                if last["reproduced"]:
                    return last
    return {"inputs": "grid of 24 calls", "reproduced": None,
            "detail": "no call of the grid fails natively; " + (last or {}).get("detail", "")}


def run(tier, seed):
    from contracts import c11_packet as S
    rep = R.Report("C11", tier, seed)
    for a in lib.ASSUMED:
        rep.assume(a)
    for c in (S.append, S.full, S.assemble):
        rp = lambda n, i, nt, c=c: replay_clause(c, n, i, nt)      # noqa: E731
        if c is S.append:
            rp.fallback = append_grid
        api.verify(c, rep, replay=rp)
    # the last clause of the property: the sterile copy (SterilePacket.sterile
    # relative to the assembled frame; append_writer records exactly the
    # accepted write datagrams)
    from props import c21_user
    c21_user.verify(rep)
    api.REGISTRY[S.assemble.qualname] = S.assemble
    return rep.finish(
        explanation="pyvc: symbolic execution of the real source of "
        "Packet.append/full/assemble and SterilePacket.sterile/append_writer against sidecar contracts; one z3 "
        "query per clause per path; lists of any length via loop invariants",
        trusted_base=["pyvc encoding of the Python subset (vc/pyvc)", "z3 5.1 / cvc5 1.0",
                      "assumed contracts of struct and builtins (see assumptions)"])


def replay_file(path):
    from contracts import c11_packet as S
    d = json.load(open(path))
    print(json.dumps(d, indent=1)[:2000])
    return 0
