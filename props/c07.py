"""C07 -- packet variables access exactly their declared bytes and byte order"""
import json
import struct

import z3

from vc import parallel, smt, stagea as A
from vc import report as R
from vc.bpfvc import Env, run_concrete
from vc.bpfvc import run as bpf_run

PASS, TX = 2, 3


def run(tier, seed):
    from contracts import c07_packet as S
    rep = R.Report("C07", tier, seed)
    rep.assume("eBPF ISA model of vc/bpfvc; A-LE: the host is little endian (native formats = '<')")
    progs = S.programs(tier)
    rep.bound(f"Stage A: {len(progs)} programs (8 formats x 4 byte orders x read/write/update x "
              f"{len(progs) // 96} offset/guard pairs, plus explicit packetSize > / >= guards) built with the real DSL; each is proved for all packet "
              f"contents, all packet lengths and all source values; offsets are enumerated, not symbolic")
    pkt_len = z3.BitVec("pkt_len", 64)
    pkt0 = z3.Array("pkt0", z3.BitVecSort(64), z3.BitVecSort(8))
    stack0 = z3.Array("stack_init", z3.BitVecSort(64), z3.BitVecSort(8))
    k = z3.BitVec("k", 64)
    jobs, texts, meta = [], {}, {}
    rejected = 0
    for label, kind, fmt, p, guard in progs:
        try:
            code, lv_addr = S.build(kind, fmt, p, guard)
        except Exception as e:
            rejected += 1
            rep.sample({"program": label, "rejected_by_generator": repr(e)})
            continue
        kind = kind if kind.startswith("copy:") else kind.partition(":")[0]
        meta[label] = (code, kind, fmt, p, guard, lv_addr)
        env = Env(ctx="xdp", pkt_len=pkt_len, pkt_mem=pkt0)
        res = bpf_run(code, env)
        if res.aborted:
            rep.out_of_reach(f"{label}: aborted paths")
            continue
        n = A.FMT_SIZE[fmt[-1]]
        so = A.stack_off(lv_addr)

        def conc(m, label=label):
            ln = min(m.eval(pkt_len, model_completion=True).as_long(), 128)
            return {"program": label,
                    "packet": bytes(m.eval(A.sel(pkt0, j), model_completion=True).as_long() for j in range(ln)),
                    "stack": bytes(m.eval(A.sel(stack0, j), model_completion=True).as_long() for j in range(512))}

        def add(clause, hyps, goal, text):
            name = f"{clause} <{label}>"
            texts[name] = text
            jobs.append((name, list(hyps), goal, 30000, conc, False))
        for ob in res.obligations:
            cond = ob.cond if not isinstance(ob.cond, bool) else z3.BoolVal(ob.cond)
            add(f"access_in_bounds[{ob.kind}@slot{ob.slot}]", ob.pc, cond, ob.desc)
        for path in res.paths:
            pc = list(path.pc)
            fin = path.regions["pkt"].mem
            fst = path.regions["stack"].mem
            st0 = stack0
            long_ = z3.UGT(pkt_len, guard)
            r0 = path.r0
            add("guard[short packets untouched]", pc + [z3.Not(long_)],
                z3.And(r0 == PASS, A.sel(fin, k) == A.sel(pkt0, k)),
                "a packet not longer than the minimum size leaves with the default exit code, unchanged")
            add("guard[body runs on every longer packet]", pc + [long_], r0 == TX,
                "the guarded body runs (its exit code is returned) on every packet longer than the minimum size")
            if kind == "read":
                add("read[value of struct.unpack]", pc + [long_],
                    A.rd_le(fst, so, 8) == A.value_of(pkt0, p, fmt),
                    "the 8-byte local holds struct.unpack(fmt, packet[p:p+n])[0], extended by its signedness")
                add("read[packet unchanged]", pc + [long_], A.sel(fin, k) == A.sel(pkt0, k), "no packet byte changes")
            else:
                src = A.rd_le(st0, so, 8) if kind == "write" else \
                    A.value_of(pkt0, 24, kind[5:]) if kind.startswith("copy:") else A.value_of(pkt0, p, fmt) + 3
                want = A.bytes_of(src, fmt)
                kd = kind.partition(":")[0]
                add(f"{kd}[bytes of struct.pack]", pc + [long_],
                    z3.And(*[A.sel(fin, p + j) == want[j] for j in range(n)]),
                    "packet[p:p+n] == struct.pack(fmt, value mod 2**(8n))")
                add(f"{kd}[no other packet byte]", pc + [long_, z3.Or(z3.ULT(k, p), z3.UGE(k, p + n))],
                    A.sel(fin, k) == A.sel(pkt0, k), "every other packet byte is unchanged")
    rep.extra["programs"] = len(meta)
    rep.extra["rejected_by_generator"] = rejected
    merged = parallel.aggregate(parallel.discharge(jobs))
    rep.extra["vc_queries"] = len(jobs)
    # one obligation per clause kind; the per-program results are merged
    for name, m in merged.items():
        res = parallel.to_result(m)
        rp = None
        if res.verdict == smt.REFUTED and isinstance(m.get("data"), dict):
            rp = lambda _m, d=m["data"]: replay(meta, d)
        rep.obligation(name, res, func="generated XDP program", text=texts[name], replay=rp,
                       candidate=m.get("candidate", False))
    # canary: the read spec with the wrong byte order must be refuted
    code, kind, fmt, p, guard, lv_addr = meta["read >H @14 guard>40"]
    res = bpf_run(code, Env(ctx="xdp", pkt_len=pkt_len, pkt_mem=pkt0))
    path = [q for q in res.paths if smt.feasible(list(q.pc) + [z3.UGT(pkt_len, guard)])][0]
    rep.canary("CANARY[big endian variable read little endian]", smt.prove(
        list(path.pc) + [z3.UGT(pkt_len, guard)],
        A.rd_le(path.regions["stack"].mem, A.stack_off(lv_addr), 8) == A.value_of(pkt0, p, "<H")))
    return rep.finish(
        explanation="Stage A (bounded in program shape): each enumerated packet-variable program is built with the "
        "real DSL and its assembled bytes are proved by bpfvc against struct.pack/unpack semantics and the guard "
        "semantics for all packets and values",
        trusted_base=["eBPF ISA model vc/bpfvc", "z3 5.1", "A-LE"], level="other")


def native(kind, fmt, p, guard, pkt, src):
    n = struct.calcsize("<" + fmt[-1])
    f = fmt if fmt[0] in "<>!" else "<" + fmt
    if len(pkt) <= guard:
        return PASS, bytes(pkt), None
    if kind == "read":
        return TX, bytes(pkt), struct.unpack(f, pkt[p:p + n])[0]
    if kind == "write":
        v = src % (1 << 8 * n)
    elif kind.startswith("copy:"):
        sf = kind[5:] if kind[5] in "<>!" else "<" + kind[5:]
        v = struct.unpack(sf, pkt[24:24 + struct.calcsize(sf)])[0] % (1 << 8 * n)
    else:
        v = (struct.unpack(f, pkt[p:p + n])[0] + 3) % (1 << 8 * n)
    out = bytearray(pkt)
    out[p:p + n] = struct.pack(f.replace(fmt[-1], fmt[-1].upper()), v)
    return TX, bytes(out), None


def replay(meta, d):
    code, kind, fmt, p, guard, lv_addr = meta[d["program"]]
    pkt = d["packet"]
    if len(pkt) < 14:
        return {"inputs": d, "reproduced": None, "detail": "frame too short for XDP"}
    r = run_concrete(code, Env(ctx="xdp"), pkt=pkt, mem={"stack": d["stack"]})
    so = A.stack_off(lv_addr)
    src = struct.unpack_from("<q", d["stack"], so)[0]
    exp = native(kind, fmt, p, guard, pkt, src)
    got_local = struct.unpack_from("<q" if fmt[-1].islower() else "<Q", r[3]["stack"], so)[0]
    ok = r[1] == exp[0] and bytes(r[3]["pkt"]) == exp[1] and (exp[2] is None or got_local == exp[2])
    return {"inputs": d, "reproduced": not ok,
            "detail": f"ISA model on the real bytes: r0={r[1]}, local={got_local}; struct semantics: r0={exp[0]}, "
                      f"value={exp[2]}, packet equal: {bytes(r[3]['pkt']) == exp[1]}"}


def replay_file(path):
    print(json.dumps(json.load(open(path)), indent=1)[:3000])
    return 0
