"""C21 -- fast-group frames only write outputs computed in the same pass"""
import json
import struct

import z3

from vc import parallel, smt
from vc import report as R
from vc.bpfvc import Env, MapModel, run_concrete
from vc.bpfvc import run as bpf_run

TX = 3


def group_jobs(label, info, jobs, texts, rep):
    from contracts import c21_group as S
    from contracts.c22_dispatcher import b, u16le, u32le
    code = info["code"]
    pkt_len = z3.BitVec("pkt_len", 64)
    pkt0 = z3.Array("pkt0", z3.BitVecSort(64), z3.BitVecSort(8))
    map0 = z3.Array(f"map{S.MAP_FD}_init", z3.BitVecSort(64), z3.BitVecSort(8))
    env = Env(ctx="xdp", pkt_len=pkt_len, pkt_mem=pkt0,
              maps={S.MAP_FD: MapModel("array", 4, info["map_size"])})
    res = bpf_run(code, env)
    if res.aborted:
        rep.out_of_reach(f"{label}: {len(res.aborted)} aborted paths")
    woff = info["wkc_errors"]
    e0 = u32le(map0, woff)
    fs = info["frame_size"]
    k = z3.BitVec("k", 64)

    def conc(m, label=label):
        n = max(fs, 14) + 2
        return {"layout": label,
                "packet": bytes(m.eval(z3.Select(pkt0, z3.BitVecVal(j, 64)), model_completion=True).as_long() for j in range(n)),
                "map": bytes(m.eval(z3.Select(map0, z3.BitVecVal(j, 64)), model_completion=True).as_long() for j in range(info["map_size"])),
                "pkt_len": min(m.eval(pkt_len, model_completion=True).as_long(), 4000)}

    def add(name, hyps, goal, text):
        name = f"{name} <{label}>"
        texts[name] = text
        jobs.append((name, list(hyps), goal, 30000, conc, name.startswith("CANARY")))

    for ob in res.obligations:
        cond = ob.cond if not isinstance(ob.cond, bool) else z3.BoolVal(ob.cond)
        add(f"safety[{ob.kind}@slot{ob.slot}]", ob.pc, cond, ob.desc)
    writers = info["on_the_fly"]
    special = set()
    for start, stop, cmd in writers:
        special |= {14 + start, 14 + stop - 2, 14 + stop - 1}
    active = z3.And(z3.UGE(pkt_len, fs), e0 != 0)
    for path in res.paths:
        pc = list(path.pc)
        fin = path.regions["pkt"].mem
        finmap = path.regions[f"map{S.MAP_FD}"].mem if f"map{S.MAP_FD}" in path.regions else map0
        is_tx = z3.And(path.r0 == TX) if path.exit == "EXIT" else z3.BoolVal(False)
        add("always_TX", pc, is_tx, "the frame is always sent back to the bus")
        add("inactive_pass_leaves_frame_and_counter_untouched", pc + [z3.Not(active)],
            z3.And(z3.Select(fin, k) == z3.Select(pkt0, k),
                   z3.Select(finmap, k) == z3.Select(map0, k)),
            "too short a frame, or output disabled (wkc_errors == 0): nothing changes")
        nerr = z3.BitVecVal(0, 32)
        goals = []
        for start, stop, cmd in writers:
            expected = info["counters"][stop - 2]
            goals.append(b(fin, 14 + start) == cmd)
            goals.append(u16le(fin, 14 + stop - 2) == 0)
            nerr = nerr + z3.If(u16le(pkt0, 14 + stop - 2) != expected,
                                z3.BitVecVal(1, 32), z3.BitVecVal(0, 32))
        add("active_pass_enables_exactly_the_write_datagrams", pc + [active],
            z3.And(*goals) if goals else z3.BoolVal(True),
            "every write datagram gets its command back and its working counter cleared")
        add("active_pass_counts_one_error_per_wrong_counter", pc + [active],
            u32le(finmap, woff) == e0 + nerr,
            "wkc_errors increases by the number of write datagrams whose counter differed")
        add("active_pass_changes_nothing_else", pc + [active]
            + [k != z3.BitVecVal(p, 64) for p in sorted(special)],
            z3.Select(fin, k) == z3.Select(pkt0, k),
            "no other byte of the frame changes (devices of these layouts have empty programs)")
        add("active_pass_other_map_bytes", pc + [active, z3.Or(z3.ULT(k, woff), z3.UGE(k, woff + 4))],
            z3.Select(finmap, k) == z3.Select(map0, k), "no other map byte changes")
        if writers:
            add("CANARY[write datagrams are enabled even when output is disabled]",
                pc + [z3.UGE(pkt_len, fs), e0 == 0], b(fin, 14 + writers[0][0]) == writers[0][2],
                "wrong on purpose")
    return len(res.paths)


def native(info, pkt, mp):
    pkt, mp = bytearray(pkt), bytearray(mp)
    e, = struct.unpack_from("<I", mp, info["wkc_errors"])
    if len(pkt) >= info["frame_size"] and e != 0:
        for start, stop, cmd in info["on_the_fly"]:
            pkt[14 + start] = cmd
            w, = struct.unpack_from("<H", pkt, 14 + stop - 2)
            if w != info["counters"][stop - 2]:
                e = (e + 1) & 0xffffffff
            struct.pack_into("<H", pkt, 14 + stop - 2, 0)
        struct.pack_into("<I", mp, info["wkc_errors"], e)
    return bytes(pkt), bytes(mp)


def replay(infos, d):
    from contracts import c21_group as S
    info = infos[d["layout"]]
    n = d["pkt_len"]
    pkt = d["packet"][:n] if n <= len(d["packet"]) else d["packet"] + bytes(n - len(d["packet"]))
    if len(pkt) < 14:
        return {"inputs": d, "reproduced": None, "detail": "frame shorter than an Ethernet header"}
    r = run_concrete(info["code"], Env(ctx="xdp", maps={S.MAP_FD: MapModel("array", 4, info["map_size"])}),
                     pkt=bytes(pkt), mem={f"map{S.MAP_FD}": d["map"]})
    exp = native(info, pkt, d["map"])
    got = (bytes(r[3]["pkt"]), bytes(r[3][f"map{S.MAP_FD}"]))
    ok = r[0] == "EXIT" and r[1] == TX and got == exp
    return {"inputs": d, "reproduced": not ok,
            "detail": f"ISA model on the real bytes: {r[0]} r0={r[1]}; frame as the property says: {got[0] == exp[0]}; "
                      f"map as the property says: {got[1] == exp[1]}"}


def run(tier, seed):
    from contracts import c21_group as S
    rep = R.Report("C21", tier, seed)
    rep.assume("eBPF ISA model of vc/bpfvc; map_lookup_elem contract (array, key 0)")
    rep.assume("devices of the checked layouts have empty programs: the activation code is isolated "
               "(device code is decided by C26/C19)")
    rep.bound("the group program is proved for 5 datagram layouts built with the real allocators "
              "(0-3 write datagrams); the number of write datagrams is bounded by these layouts, "
              "packet contents/length and counters are unbounded")
    jobs, texts, infos = [], {}, {}
    npaths = 0
    for label, make in S.layouts().items():
        info = S.build(make)
        infos[label] = info
        rep.function(f"FastSyncGroup.assemble() bytes <{label}>", info["code"].hex())
        rep.sample({"layout": label, "instructions": len(info["code"]) // 8,
                    "write_datagrams(start,stop,cmd)": info["on_the_fly"],
                    "expected_counters": {str(k): v for k, v in info["counters"].items()}})
        npaths += group_jobs(label, info, jobs, texts, rep)
    rep.extra["program_paths"] = npaths
    rep.extra["programs"] = len(infos)
    merged = parallel.aggregate(parallel.discharge(jobs))
    rep.extra["vc_queries"] = len(jobs)
    for name, m in merged.items():
        res = parallel.to_result(m)
        if name.startswith("CANARY"):
            rep.canary(name, res)
            continue
        rp = None
        if res.verdict == smt.REFUTED and isinstance(m.get("data"), dict) and "packet" in m["data"]:
            rp = lambda _m, d=m["data"]: replay(infos, d)
        rep.obligation(name, res, func="FastSyncGroup program bytes", text=texts[name], replay=rp,
                       candidate=m.get("candidate", False))
    from props import c21_user
    c21_user.verify(rep)
    # "counts one error per write datagram whose counter differed from the
    # expected value": the expected value the program compares with comes from
    # packet.counters - append records the count it is given, append_fmmu
    # passes the number of reading / writing terminals (C18's contracts,
    # re-proved here)
    from contracts import c18_alloc as S18
    from props import c30
    from vc.pyvc import api
    api.verify(S18.s_append, rep, quiet=True)
    api.verify(S18.s_append_fmmu, rep, quiet=True, replay=c30.native_fmmu)
    # The last clause of the property - a frame goes back onto the bus with
    # enabled write datagrams only if the group's program processed it in that
    # pass - also rests on the dispatcher: only frames it hands to the group
    # program are activated, and the others leave through the identification
    # datagram / counter discipline.  Its step contract (C22) is re-proved here.
    from contracts import c22_dispatcher as S22
    from props import c22
    dinfo = S22.build()
    rep.function("EtherXDP.assemble() bytes", dinfo["code"].hex())
    djobs, dtexts, _ = c22.step_jobs(dinfo, rep)
    for name, m in parallel.aggregate(parallel.discharge(djobs)).items():
        res = parallel.to_result(m)
        if name.startswith("CANARY"):
            rep.canary("dispatcher " + name, res)
            continue
        rp = None
        if res.verdict == smt.REFUTED and isinstance(m.get("data"), dict) and "packet" in m["data"]:
            rp = lambda _m, d=m["data"]: c22.replay_step(dinfo, d)
        rep.obligation("dispatcher." + name, res, func="EtherXDP program bytes", text=dtexts[name], replay=rp,
                       candidate=m.get("candidate", False))
    rep.assume("dispatcher step contract of C22 (re-proved in this run on the assembled bytes of EtherXDP); the "
               "history argument over the step relation is C22's")
    return rep.finish(
        explanation="(b) bpfvc: the assembled bytes of real FastSyncGroup programs (5 layouts) are proved, on "
        "all paths and for all frames/counters, to re-enable exactly the write datagrams, clear their working "
        "counters and count one error per wrong counter, only when output is enabled; (a) pyvc: "
        "SterilePacket.sterile/append/append_writer against contracts (props/c21_user.py)",
        trusted_base=["eBPF ISA model vc/bpfvc", "map_lookup_elem contract", "pyvc encoding", "z3 5.1"])


def replay_file(path):
    d = json.load(open(path))
    print(json.dumps(d, indent=1)[:3000])
    return 0
