"""C04 -- writing one variable never changes another"""
import json

import z3

from vc import parallel, smt, stagea as A
from vc import report as R
from vc.pyvc import api, lib


def native_sub(name, conc, notes):
    """real subprogram classes: addresses of their locals and of a temporary"""
    from ebpfcat.ebpf import EBPF, LocalVar, SubProgram

    class Sub1(SubProgram):
        v = LocalVar("Q")

    class Sub2(SubProgram):
        w = LocalVar("Q")

    class Main(EBPF):
        a = LocalVar("I")

        def program(self):
            pass
    s1, s2 = Sub1(), Sub2()
    e = Main(subprograms=[s1, s2])
    a1, a2 = Sub1.v.fmt_addr(s1)[1], Sub2.w.fmt_addr(s2)[1]
    with e.get_stack(8) as t:
        inside = Sub1.v.fmt_addr(s1)[1]
    shared = not (a1 + 8 <= a2 or a2 + 8 <= a1)
    moved = inside != a1
    overlap_t = not (t + 8 <= a1 or a1 + 8 <= t)
    if "two_locals" in name:
        bad = shared
    else:
        bad = moved or overlap_t
    return {"inputs": "class Sub1(SubProgram): v = LocalVar('Q'); class Sub2(SubProgram): w = LocalVar('Q'); "
                      "class Main(EBPF): a = LocalVar('I'); Main(subprograms=[Sub1(), Sub2()])",
            "reproduced": bad,
            "detail": f"real objects: Sub1.v at r10{a1:+d}, Sub2.w at r10{a2:+d} (shared: {shared}); inside "
                      f"get_stack(8) the temporary is at r10{t:+d} and Sub1.v at r10{inside:+d} "
                      f"(moved: {moved}, overlaps the temporary: {overlap_t})"}


def replay_hash_dest(d):
    """the bytes the real generator emits for the statement, run on the
    counter-model's stack and hash cells (ISA model, concrete mode)"""
    from contracts import c04_frame as S
    from vc.bpfvc import Env, MapModel, run_concrete
    info = S.build(d["stmt"])
    ks, vs = info["dict_sizes"]
    maps = {77: MapModel("array", 4, info["map_size"]), 78: MapModel("hash", 1, 8), 79: MapModel("hash", ks, vs)}
    mem = {"stack": d["stack"]}
    for n, cell in d["cells"].items():
        mem[f"map78:{bytes([info['hashvars'][n][1]]).hex()}"] = cell
    present = {k: True for k in mem if k.startswith("map78:")}
    r = run_concrete(info["code"], Env(ctx=None, maps=maps), regs={1: 0}, mem=mem,
                     helper_script={"present": present})
    key = f"map78:{bytes([info['hashvars'][d['dest']][1]]).hex()}"
    got = int.from_bytes(bytes(r[3].get(key, b""))[:d["size"]], "little")
    return {"inputs": {"statement": d["stmt"], "stack": d["stack"][384:].hex(),
                       "cells": {k: v.hex() for k, v in d["cells"].items()}},
            "reproduced": got != d["expected"],
            "detail": f"ISA model (concrete) on the real bytes of `{d['stmt']}`: {d['dest']} received "
                      f"{got:#x}, the expression's value is {d['expected']:#x}"}


def frame_jobs(rep, tier):
    from contracts import c04_frame as S
    from vc.bpfvc import Env, MapModel
    from vc.bpfvc import run as bpf_run
    from vc.bpfvc.values import hash_region_name
    jobs, texts = [], {}
    stack0 = z3.Array("stack_init", z3.BitVecSort(64), z3.BitVecSort(8))
    map0 = z3.Array("map77_init", z3.BitVecSort(64), z3.BitVecSort(8))
    nprog = 0
    for stmt in S.statements():
        if stmt in S.C09_ONLY:
            continue
        try:
            info = S.build(stmt)
        except Exception as e:
            rep.obligation(f"statement_is_accepted <{stmt}>", smt.Result(smt.REFUTED, "cpython", 0, None, repr(e)),
                           func="generator", text="the generator compiles the statement",
                           replay=lambda m, e=e: {"inputs": stmt, "reproduced": None, "detail": repr(e)})
            continue
        nprog += 1
        rep.function(f"EBPF program `{stmt}`: assemble() bytes", info["code"].hex())
        import ebpfcat.hashmap as HM
        hfd = {"hmap": None, "table": None}
        # which fd the program class got for its HashMap / Dict (order of creation)
        hfd = dict(zip(info.get("map_order", ("hmap", "table")), (78, 79)))
        ks, vs = info["dict_sizes"]
        maps = {77: MapModel("array", 4, info["map_size"]),
                hfd.get("hmap", 78): MapModel("hash", 1, 8),
                hfd.get("table", 79): MapModel("hash", ks, vs)}
        ctx0 = z3.BitVec("r1_0", 64)
        env = Env(ctx=None, maps=maps, regs={1: ctx0})
        res = bpf_run(info["code"], env)
        if res.aborted:
            rep.out_of_reach(f"{stmt}: aborted paths")
            continue

        def add(clause, hyps, goal, text, canary=False, on_model=None):
            name = f"{clause} <{stmt}>"
            texts[name] = text
            jobs.append((name, list(hyps), goal, 20000, on_model, canary))
        for ob in res.obligations:
            cond = ob.cond if not isinstance(ob.cond, bool) else z3.BoolVal(ob.cond)
            add(f"safety[{ob.kind}@slot{ob.slot}]", ob.pc, cond, ob.desc)
        dest = info["dest"]
        for path in res.paths:
            if path.exit != "EXIT":
                continue
            # registers the program still owns keep their value: r1 (the
            # context pointer) is never assigned by these statements
            if path.ip != len(info["code"]) // 8 - 1:
                continue      # an early exit (map lookup returned NULL): nothing is read afterwards
            r1 = path.regs[1]
            add("saved_registers_are_restored[r1]", path.pc,
                z3.BoolVal(False) if r1 is None or not z3.is_bv(r1) else r1 == ctx0,
                "r1 (still owned by the program) has its value from before the statement")
            fstack = path.regions["stack"].mem
            for n, (fmt, rel) in info["locals"].items():
                off = A.stack_off(rel)
                size = 1 if isinstance(fmt, tuple) else A.FMT_SIZE[fmt]
                if n == dest:
                    if isinstance(fmt, tuple):
                        mask = 0xff ^ (((1 << fmt[1]) - 1) << fmt[0])
                        add("other_bits_of_the_destination_byte_kept", path.pc,
                            (A.sel(fstack, off) & mask) == (A.sel(stack0, off) & mask),
                            "a bit-field store changes only its own bits")
                    continue
                add(f"local_unchanged[{n}]", path.pc,
                    A.rd_le(fstack, off, size) == A.rd_le(stack0, off, size),
                    f"local {n} keeps its value")
            fmap = path.regions["map77"].mem if "map77" in path.regions else map0
            for n, (fmt, off) in info["mapvars"].items():
                if n == dest:
                    continue
                size = A.FMT_SIZE[fmt]
                add(f"map_variable_unchanged[{n}]", path.pc,
                    A.rd_le(fmap, off, size) == A.rd_le(map0, off, size), f"array-map variable {n} keeps its value")
            for n, (fmt, count) in info["hashvars"].items():
                if n == dest:
                    continue
                rname = hash_region_name(hfd.get("hmap", 78), bytes([count]))
                if rname in path.regions and path.regions[rname].mem is not None:
                    init = z3.Array(rname + "_init", z3.BitVecSort(64), z3.BitVecSort(8))
                    add(f"hash_variable_unchanged[{n}]", path.pc,
                        A.rd_le(path.regions[rname].mem, 0, 8) == A.rd_le(init, 0, 8),
                        f"hash-map variable {n} keeps its value")
            if stmt in S.HASH_VALUES and dest in info["hashvars"]:
                size, expected = S.HASH_VALUES[stmt]
                hf = hfd.get("hmap", 78)

                class St:
                    @staticmethod
                    def local(n):
                        fmt, rel = info["locals"][n]
                        return A.rd_le(stack0, A.stack_off(rel), A.FMT_SIZE[fmt])

                    @staticmethod
                    def hash(n, nbytes):
                        rn = hash_region_name(hf, bytes([info["hashvars"][n][1]]))
                        return A.rd_le(z3.Array(rn + "_init", z3.BitVecSort(64), z3.BitVecSort(8)), 0, nbytes)

                    @staticmethod
                    def zext(v, bits):
                        return z3.ZeroExt(bits - v.size(), v)

                    @staticmethod
                    def sext(v, bits):
                        return z3.SignExt(bits - v.size(), v)
                rname = hash_region_name(hf, bytes([info["hashvars"][dest][1]]))
                reg = path.regions.get(rname)
                exp = expected(St)
                goal = z3.BoolVal(False) if reg is None or reg.mem is None else \
                    A.rd_le(reg.mem, 0, size) == exp

                def on_model(m, exp=exp, hf=hf, info=info, size=size, dest=dest, stmt=stmt):
                    ev = lambda t: m.eval(t, model_completion=True).as_long()      # noqa: E731
                    stack = bytes(ev(z3.Select(stack0, z3.BitVecVal(k, 64))) for k in range(512))
                    cells = {}
                    for n, (f, count) in info["hashvars"].items():
                        rn = hash_region_name(hf, bytes([count]))
                        arr = z3.Array(rn + "_init", z3.BitVecSort(64), z3.BitVecSort(8))
                        cells[n] = bytes(ev(z3.Select(arr, z3.BitVecVal(k, 64))) for k in range(8))
                    return {"stack": stack, "cells": cells, "expected": ev(exp), "size": size, "dest": dest,
                            "stmt": stmt}
                add(f"hash_destination_receives_the_value[{dest}]", path.pc, goal,
                    "the value spilled to a temporary reaches the variable's cell: the key temporary of the "
                    "update does not overwrite it", on_model=on_model)
            # the statement does something: canary on the destination
        # scratch use stays below the declared frame
    return jobs, texts, nprog


def run(tier, seed):
    from contracts import c04_layout as S
    rep = R.Report("C04", tier, seed)
    for a in lib.ASSUMED:
        rep.assume(a)
    rep.assume("eBPF ISA model of vc/bpfvc; helper contracts map_lookup_elem / map_update_elem / ktime / prandom")
    rep.assume("the class body executes the declarations in order (each __set_name__ sees the `stack` left by the "
               "previous one): disjointness of all declared ranges is the induction over the declarations")
    rep.bound("layout contracts hold for any number and order of declarations (induction over the stack counter); "
              "frame: 10 generated programs (one statement each) over one program class with locals of all sizes, a "
              "bit field, two array-map and two hash-map variables; subprogram locals are a recorded finding")
    fmts = ("B", "H", "I", "Q", "x", (3, 1)) if tier != "thorough" else tuple(S.SIZES)
    for f in fmts:
        api.verify(S.localvar_set_name(f), rep, quiet=True)
    for f in ("B", "I", "q"):
        api.verify(S.member_set_name(f), rep, quiet=True)
    for c in (S.dict_set_name, S.get_stack_contract(4), S.get_stack_contract(8), S.localvar_fmt_addr):
        api.verify(c, rep, quiet=True)
    for c in S.sub_lemmas():
        api.verify(c, rep, replay=native_sub, quiet=True)
    jobs, texts, nprog = frame_jobs(rep, tier)
    merged = parallel.aggregate(parallel.discharge(jobs))
    rep.extra["programs"] = nprog
    rep.extra["vc_queries"] = rep.extra.get("vc_queries", 0) + len(jobs)
    for name, m in merged.items():
        rp = None
        if isinstance(m.get("data"), dict) and "cells" in m["data"]:
            rp = lambda _m, d=m["data"]: replay_hash_dest(d)      # noqa: E731
        rep.obligation(name, parallel.to_result(m), func="generated program bytes", text=texts[name],
                       candidate=m.get("candidate", False), replay=rp)
    x = z3.BitVec("x", 8)
    rep.canary("CANARY[every byte is zero]", smt.prove([], x == 0))
    return rep.finish(
        explanation="pyvc: stack-slot allocation (LocalVar/Member/Dict.__set_name__, EBPF.get_stack, "
        "LocalVar.fmt_addr) against the abstract view of disjoint ranges below the frame bottom; bpfvc: generated "
        "programs whose statements use hash-map key temporaries, spilled values and saved registers leave every "
        "other declared variable unchanged",
        trusted_base=["pyvc encoding (vc/pyvc)", "eBPF ISA model vc/bpfvc", "z3 5.1"], level="other")


def replay_file(path):
    d = json.load(open(path))
    r = native_sub(d["obligation"], None, None)
    print(r["detail"])
    return 1 if r["reproduced"] else 0
