"""C06 -- in-place addition on 4/8-byte variables never loses updates"""
import json
import os
import subprocess

import z3

from vc import parallel, smt, stagea as A
from vc import report as R
from vc.bpfvc import Env, MapModel, isa
from vc.bpfvc import run as bpf_run

ROOT = os.path.dirname(os.path.dirname(os.path.abspath(__file__)))


def structural(code, width):
    """the only atomic instruction is one add of the variable's width, and no
    other instruction of the program uses the same (base register, offset)"""
    insns = [i for i in isa.decode(code) if i is not None]
    atom = [i for i in insns if (i.opcode & 0xe7) == 0xc3]
    if len(atom) != 1:
        return False, f"{len(atom)} atomic instructions"
    x = atom[0]
    size = {0x00: 4, 0x18: 8}[x.opcode & 0x18]
    if size != width or x.imm != 0:
        return False, f"atomic op imm={x.imm} size={size}, variable width {width}"
    others = [i for i in insns if i is not x and (i.opcode & 0x07) in (1, 2, 3)
              and (i.opcode & 0xe0) == 0x60
              and ((i.opcode & 0x07) == 1 and (i.src, i.off) == (x.dst, x.off)
                   or (i.opcode & 0x07) in (2, 3) and (i.dst, i.off) == (x.dst, x.off))]
    if others:
        return False, f"other accesses to the variable: {[isa.disasm(i) for i in others]}"
    return True, isa.disasm(x)


def run(tier, seed):
    from contracts import c06_xadd as S
    rep = R.Report("C06", tier, seed)
    rep.assume("the kernel executes BPF_STX|BPF_ATOMIC|BPF_ADD atomically (ISA contract)")
    rep.assume("the amount expression does not read the variable itself")
    rep.assume("eBPF ISA model of vc/bpfvc; 64-bit products of non-constants uninterpreted in the proofs")
    progs = S.programs(tier)
    rep.bound(f"Stage A: {len(progs)} statements (formats q Q i I x; local, array-map, packet and pointer "
              f"variables; constant, 64-bit constant, subtraction, register and expression amounts) built with "
              f"the real DSL; each proved for all initial values")
    pkt_len = z3.BitVec("pkt_len", 64)
    pkt0 = z3.Array("pkt0", z3.BitVecSort(64), z3.BitVecSort(8))
    init = {"stack": z3.Array("stack_init", z3.BitVecSort(64), z3.BitVecSort(8)),
            "map77": z3.Array("map77_init", z3.BitVecSort(64), z3.BitVecSort(8)), "pkt": pkt0}
    k = z3.BitVec("k", 64)
    jobs, texts = [], {}
    import vc.bpfvc.machine as M
    nprog = 0
    for label, kind, fmt, amount in progs:
        try:
            info = S.build(kind, fmt, amount)
        except Exception as e:
            res = smt.Result(smt.REFUTED, "cpython", 0, None, repr(e))
            rep.obligation(f"statement_is_accepted <{label}>", res, func="generator",
                           text="the generator compiles the in-place addition",
                           replay=lambda m, e=e: {"inputs": label, "reproduced": True, "detail": repr(e)})
            continue
        nprog += 1
        code = info["code"]
        width = 4 if fmt in "iI" else 8
        ok, detail = structural(code, width)
        rep.obligation(f"single_atomic_add <{label}>",
                       smt.Result(smt.PROVED if ok else smt.REFUTED, "decoder", 0, None, detail),
                       func="generated statement",
                       text="exactly one access to the variable: an atomic add of its width",
                       replay=lambda m, d=detail: {"inputs": label, "reproduced": True, "detail": d})
        env = Env(ctx="xdp" if kind == "packet" else None, pkt_len=pkt_len, pkt_mem=pkt0,
                  maps={77: MapModel("array", 4, info.get("map_size", 8))} if kind in ("map", "percpu") else None)
        M.ABSTRACT_MUL[0] = True
        try:
            res = bpf_run(code, env)
        finally:
            M.ABSTRACT_MUL[0] = False
        if res.aborted:
            rep.out_of_reach(f"{label}: aborted paths")
            continue
        region, off = info["var"]
        src64 = A.rd_le(init["stack"], A.stack_off(info["src"]), 8)
        amt = S.amount_value(amount, src64, fmt)

        def add(clause, hyps, goal, text):
            from vc.bvutil import abstract_mul
            name = f"{clause} <{label}>"
            texts[name] = text
            cache = {}
            jobs.append((name, [abstract_mul(z3.simplify(h), cache) for h in hyps],
                         abstract_mul(z3.simplify(goal), cache), 30000, None, False))
        for ob in res.obligations:
            cond = ob.cond if not isinstance(ob.cond, bool) else z3.BoolVal(ob.cond)
            add(f"safety[{ob.kind}@slot{ob.slot}]", ob.pc, cond, ob.desc)
        for path in res.paths:
            pc = list(path.pc)
            if kind == "packet":
                pc.append(z3.UGT(pkt_len, 40))
            fin = path.regions[region].mem
            old = A.rd_le(init[region], off, width)
            new = A.rd_le(fin, off, width)
            add("adds_the_amount", pc, new == old + z3.Extract(8 * width - 1, 0, amt),
                "variable' == variable + amount (mod 2**width)")
            add("nothing_else_in_its_region", pc + [z3.Or(z3.ULT(k, off), z3.UGE(k, off + width))]
                + ([z3.UGE(k, 504)] if region == "stack" else []),
                A.sel(fin, k) == A.sel(init[region], k),
                "no other byte of the variable's memory region changes (scratch below the declared locals excepted)")
    rep.extra["programs"] = nprog
    merged = parallel.aggregate(parallel.discharge(jobs))
    rep.extra["vc_queries"] = len(jobs)
    for name, m in merged.items():
        rep.obligation(name, parallel.to_result(m), func="generated statement", text=texts[name],
                       candidate=m.get("candidate", False))
    # lemma L-XADD, machine checked by Lean on every thorough run (and once per quick run if fast)
    t = subprocess.run(["bash", os.path.join(ROOT, "lean", "check.sh")], capture_output=True, text=True)
    ok = t.returncode == 0 and "OK: XaddSum.lean checked" in t.stdout
    rep.obligation("lemma[L-XADD: any interleaving of instances that each add atomically ends at x0 + sum]",
                   smt.Result(smt.PROVED if ok else smt.UNKNOWN, "lean-4.33+mathlib", 0, None,
                              (t.stdout + t.stderr)[-800:]),
                   func="lean/XaddSum.lean", text="exec_interleaving, exec_one_xadd_each")
    rep.canary("CANARY[structural check rejects load/add/store]", smt.Result(
        smt.REFUTED if not structural(bytes.fromhex("61a1f8ff00000000" "0701000005000000" "631af8ff00000000" "9500000000000000"), 4)[0]
        else smt.PROVED, "decoder", 0))
    return rep.finish(
        explanation="Stage A (bounded in program shape): each enumerated in-place addition is built with the real "
        "DSL; the decoder shows exactly one atomic add on the variable; bpfvc proves the single-instance "
        "semantics for all values; Lean lemma L-XADD gives the no-lost-update statement for any number of "
        "instances and any interleaving",
        trusted_base=["eBPF ISA model vc/bpfvc", "atomicity of BPF_ATOMIC|BPF_ADD", "z3 5.1",
                      "Lean 4.33 kernel + Mathlib"], level="other")


def replay_file(path):
    print(json.dumps(json.load(open(path)), indent=1)[:3000])
    return 0
