"""C18 -- sync groups give each terminal disjoint, exactly-sized process data"""
import json

from vc import report as R
from vc.pyvc import api, lib


def build_group(conc):
    """real SyncGroupBase with real terminals from a counter-model"""
    from ebpfcat.ebpfcat import EBPFTerminal, SyncGroupBase
    from ebpfcat.ethercat import EtherCat
    from ebpfcat.terminals import AerotechBase
    classes = {"EBPFTerminal": EBPFTerminal, "AerotechBase": AerotechBase}
    g = object.__new__(SyncGroupBase)
    ec = object.__new__(EtherCat)
    ec.next_logical_addr = conc["self"]["ec"]["next_logical_addr"]
    g.ec = ec
    g.terminals = {}
    i = 0
    while f"t{i}" in conc:
        f = conc[f"t{i}"]
        t = object.__new__(classes[f["__class__"]])
        for k, v in f.items():
            if k != "__class__":
                setattr(t, k, v)
        g.terminals[t] = conc[f"rw{i}"]
        i += 1
    return g


def add_ghost(p):
    """the ghost offsets of C11's representation, computed from the real packet"""
    goff = [16]
    for d in p.data:
        goff.append(goff[-1] + 12 + len(d[1]))
    p.goff = goff


def native_group(contract, name, conc, notes):
    from contracts import c18_alloc as S
    g = build_group(conc)
    try:
        g.allocate()
        outcome = "return"
    except OverflowError as e:
        outcome = f"raise OverflowError({e})"
    except Exception as e:
        outcome = f"raise {type(e).__name__}({e})"
    detail = f"real SyncGroupBase.allocate: {outcome}; "
    if outcome != "return":
        bad = not outcome.startswith("raise OverflowError")
        return {"inputs": conc, "reproduced": True if bad else None, "detail": detail}
    add_ghost(g.packet)
    env = dict(vars(S))
    env.update(self=g)
    env.update({f"t{i}": t for i, t in enumerate(g.terminals)})
    failed = []
    for k, c in contract.ensures.items():
        try:
            ok = bool(eval(c, env))
        except Exception as e:
            ok = False
            detail += f"clause {k} raised {e!r}; "
        if not ok:
            failed.append(k)
    detail += (f"pdo_assign={ {str(i): {sm.name: v for sm, v in d.items()} for i, d in enumerate(g.pdo_assign.values())} } "
               f"frame datagrams={[(d[0].name, len(d[1])) + tuple(d[4:]) for d in g.packet.data]}; "
               f"clauses failing natively: {failed}")
    key = name.split(".ensures[", 1)[1][:-1] if ".ensures[" in name else None
    if key is not None:
        return {"inputs": conc, "reproduced": key in failed, "detail": detail}
    return {"inputs": conc, "reproduced": True if failed else None, "detail": detail}


def run(tier, seed):
    from contracts import c18_alloc as S
    rep = R.Report("C18", tier, seed)
    for a in lib.ASSUMED:
        rep.assume(a)
    rep.assume("Packet.append by its C11 contract (re-proved in this run); SterilePacket() by the state "
               "SterilePacket.__init__ is proved to establish (sp_init)")
    rep.assume("a terminal's process-data sizes are non-negative integers or None (no process data); the declared "
               "input size of an Aerotech-style terminal is positive")
    rep.assume("EtherCat.next_logical_addr is a non-negative multiple of 0x1000 (class invariant: set to 0 by "
               "__init__, written only by get_fmmu_addr, which preserves it - proved)")
    rep.assume("ParallelEtherCat.get_fmmu_addr (lock file based) is under C23, not here")
    groups = S.GROUPS_THOROUGH if tier == "thorough" else S.GROUPS_QUICK
    rep.bound("SyncGroupBase.allocate is proved for groups of " +
              ", ".join("(" + ",".join(c.__name__ for c in g) + ")" for g in groups) +
              " terminals - bounded in the number of terminals per group; all sizes, offsets, addresses, "
              "read/write flags and addressing modes are unbounded.  The per-terminal and per-packet method "
              "contracts (SterilePacket.append/append_writer/append_fmmu, EBPFTerminal.allocate, "
              "AerotechBase.allocate, EtherCat.get_fmmu_addr) hold for packets of any length")
    # the frame-limit and window clauses rest on Packet.append: its C11
    # contract is re-proved here, so that a change inside it fails this check too
    from contracts import c11_packet as P11
    from props.c11 import replay_clause
    api.verify(P11.append, rep, replay=lambda n, i, nt: replay_clause(P11.append, n, i, nt))
    for c in (S.sp_init, S.s_append, S.s_append_writer, S.s_append_fmmu, S.t_allocate,
              S.a_allocate, S.get_fmmu_addr):
        api.verify(c, rep)
    S.install()
    try:
        for classes in groups:
            c = S.group_contract(classes)
            api.verify(c, rep, replay=lambda n, i, nt, c=c: native_group(c, n, i, nt))
    finally:
        S.uninstall()
    import inspect
    from ebpfcat.ebpfcat import EBPFTerminal
    from ebpfcat.terminals import AerotechBase
    rep.function("ebpfcat.ebpfcat:EBPFTerminal.allocate (inlined in SyncGroupBase.allocate)",
                 inspect.getsource(EBPFTerminal.allocate))
    rep.function("ebpfcat.terminals:AerotechBase.allocate (inlined in SyncGroupBase.allocate)",
                 inspect.getsource(AerotechBase.allocate))
    return rep.finish(
        explanation="pyvc: the real source of SyncGroupBase.allocate (terminal allocators inlined, packet methods by "
        "contract) is executed symbolically for every combination of sizes, flags and addressing modes of the "
        "group's terminals; the region clauses of the property are postconditions over the whole frame layout",
        trusted_base=["pyvc encoding (vc/pyvc)", "z3 5.1", "C11 contract of Packet.append (proved under C11)"],
        level="other")


def replay_file(path):
    d = json.load(open(path))
    print(json.dumps(d, indent=1)[:3000])
    return 0
