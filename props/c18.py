"""C18 -- sync groups give each terminal disjoint, exactly-sized process data"""
import json

from vc import report as R
from vc.pyvc import api, lib


def build_group(conc):
    """real SyncGroupBase with real terminals from a counter-model"""
    from ebpfcat.ebpfcat import EBPFTerminal, SyncGroupBase
    from ebpfcat.ethercat import EtherCat
    from ebpfcat.terminals import AerotechBase
    classes = {"EBPFTerminal": EBPFTerminal, "AerotechBase": AerotechBase}
    g = object.__new__(SyncGroupBase)
    ec = object.__new__(EtherCat)
    ec.next_logical_addr = conc["self"]["ec"]["next_logical_addr"]
    g.ec = ec
    g.terminals = {}
    i = 0
    while f"t{i}" in conc:
        f = conc[f"t{i}"]
        t = object.__new__(classes[f["__class__"]])
        for k, v in f.items():
            if k != "__class__":
                setattr(t, k, v)
        g.terminals[t] = conc[f"rw{i}"]
        i += 1
    return g


def add_ghost(p):
    """the ghost offsets of C11's representation, computed from the real packet"""
    goff = [16]
    for d in p.data:
        goff.append(goff[-1] + 12 + len(d[1]))
    p.goff = goff


def native_group(contract, name, conc, notes):
    from contracts import c18_alloc as S
    g = build_group(conc)
    try:
        g.allocate()
        outcome = "return"
    except OverflowError as e:
        outcome = f"raise OverflowError({e})"
    except Exception as e:
        outcome = f"raise {type(e).__name__}({e})"
    detail = f"real SyncGroupBase.allocate: {outcome}; "
    if outcome != "return":
        bad = not outcome.startswith("raise OverflowError")
        return {"inputs": conc, "reproduced": True if bad else None, "detail": detail}
    add_ghost(g.packet)
    env = dict(vars(S))
    env.update(self=g)
    env.update({f"t{i}": t for i, t in enumerate(g.terminals)})
    failed = []
    for k, c in contract.ensures.items():
        try:
            ok = bool(eval(c, env))
        except Exception as e:
            ok = False
            detail += f"clause {k} raised {e!r}; "
        if not ok:
            failed.append(k)
    detail += (f"pdo_assign={ {str(i): {sm.name: v for sm, v in d.items()} for i, d in enumerate(g.pdo_assign.values())} } "
               f"frame datagrams={[(d[0].name, len(d[1])) + tuple(d[4:]) for d in g.packet.data]}; "
               f"clauses failing natively: {failed}")
    key = name.split(".ensures[", 1)[1][:-1] if ".ensures[" in name else None
    if key is not None:
        return {"inputs": conc, "reproduced": key in failed, "detail": detail}
    return {"inputs": conc, "reproduced": True if failed else None, "detail": detail}


# ---------------------------------------------------------------------------
# Ownership of EtherCat.next_logical_addr (a frame condition over the whole
# package): the class invariant "a multiple of 0x1000 that only grows" - on
# which the disjointness of the windows of different sync groups rests - is
# proved for __init__ and get_fmmu_addr; no other function may assign the field.
def is_master_class(module, cls):
    import importlib
    from ebpfcat.ethercat import EtherCat
    try:
        c = getattr(importlib.import_module("ebpfcat." + module), cls)
        return isinstance(c, type) and issubclass(c, EtherCat)
    except Exception:      # noqa
        return True


def field_writers(field):
    import ast
    import glob
    import os
    out = []
    for path in sorted(glob.glob(os.path.join(R.REPO, "ebpfcat", "*.py"))):
        if path.endswith("_test.py"):
            continue
        tree = ast.parse(open(path).read())

        def visit(node, ctx):
            for c in ast.iter_child_nodes(node):
                if isinstance(c, ast.ClassDef):
                    visit(c, ctx + [c.name])
                elif isinstance(c, (ast.FunctionDef, ast.AsyncFunctionDef)):
                    visit(c, ctx + [c.name])
                else:
                    targets = []
                    if isinstance(c, ast.Assign):
                        targets = c.targets
                    elif isinstance(c, (ast.AugAssign, ast.AnnAssign)):
                        targets = [c.target]
                    elif isinstance(c, ast.Call) and getattr(c.func, "id", None) == "setattr" and len(c.args) >= 2 \
                            and isinstance(c.args[1], ast.Constant) and c.args[1].value == field:
                        out.append((os.path.basename(path), ".".join(ctx), c.lineno))
                    for t in targets:
                        for n in ast.walk(t):
                            if isinstance(n, ast.Attribute) and n.attr == field:
                                if isinstance(n.value, ast.Name) and n.value.id == "self" and ctx \
                                        and not is_master_class(os.path.basename(path)[:-3], ctx[0]):
                                    continue      # a field of the same name of another class
                                out.append((os.path.basename(path), ".".join(ctx), c.lineno))
                    visit(c, ctx)
        visit(tree, [])
    return out


def native_writer(where):
    """call the unexpected writer on a real master that has handed out windows"""
    import asyncio
    import ebpfcat.ethercat as E
    fname, qual, line = where
    parts = qual.split(".")
    detail = f"{fname}:{line} in {qual} assigns next_logical_addr"
    if len(parts) != 2 or not hasattr(E, parts[0]):
        return {"inputs": list(where), "reproduced": None, "detail": detail + " (not replayed)"}
    cls = getattr(E, parts[0])
    ec = object.__new__(cls)
    ec.next_logical_addr = 0
    first = ec.get_fmmu_addr()
    second = ec.get_fmmu_addr()

    class Loop:
        def __getattr__(self, n):
            async def f(*a, **k):
                return None
            return f
    saved = E.get_event_loop
    E.get_event_loop = lambda: Loop()
    try:
        r = getattr(ec, parts[1])()
        if asyncio.iscoroutine(r):
            asyncio.run(r)
    except Exception as e:      # noqa
        detail += f"; calling it raised {type(e).__name__}: {e}"
    finally:
        E.get_event_loop = saved
    third = ec.get_fmmu_addr()
    bad = third <= second
    return {"inputs": list(where), "reproduced": bad,
            "detail": detail + f"; real master: windows {first:#x}, {second:#x} handed out, then {qual}(), then "
                      f"get_fmmu_addr() returns {third:#x}" + (" - a window already in use" if bad else "")}


def run(tier, seed):
    from contracts import c18_alloc as S
    rep = R.Report("C18", tier, seed)
    for a in lib.ASSUMED:
        rep.assume(a)
    rep.assume("Packet.append by its C11 contract (re-proved in this run); SterilePacket() by the state "
               "SterilePacket.__init__ is proved to establish (sp_init)")
    rep.assume("a terminal's process-data sizes are non-negative integers or None (no process data); the declared "
               "input size of an Aerotech-style terminal is positive")
    rep.assume("EtherCat.next_logical_addr is a non-negative multiple of 0x1000 (class invariant: set to 0 by "
               "__init__, written only by get_fmmu_addr, which preserves it - the preservation is proved, the "
               "'written only by' is a syntactic frame condition checked over the package's source; writes through "
               "__dict__ or from outside the package are not seen)")
    rep.assume("ParallelEtherCat.get_fmmu_addr (lock file based) is under C23, not here")
    groups = S.GROUPS_THOROUGH if tier == "thorough" else S.GROUPS_QUICK
    rep.bound("SyncGroupBase.allocate is proved for groups of " +
              ", ".join("(" + ",".join(c.__name__ for c in g) + ")" for g in groups) +
              " terminals - bounded in the number of terminals per group; all sizes, offsets, addresses, "
              "read/write flags and addressing modes are unbounded.  The per-terminal and per-packet method "
              "contracts (SterilePacket.append/append_writer/append_fmmu, EBPFTerminal.allocate, "
              "AerotechBase.allocate, EtherCat.get_fmmu_addr) hold for packets of any length")
    # the frame-limit and window clauses rest on Packet.append: its C11
    # contract is re-proved here, so that a change inside it fails this check too
    from contracts import c11_packet as P11
    from props.c11 import replay_clause
    api.verify(P11.append, rep, replay=lambda n, i, nt: replay_clause(P11.append, n, i, nt))
    for c in (S.sp_init, S.s_append, S.s_append_writer, S.s_append_fmmu, S.t_allocate,
              S.a_allocate, S.get_fmmu_addr):
        api.verify(c, rep)
    S.install()
    try:
        for classes in groups:
            c = S.group_contract(classes)
            api.verify(c, rep, replay=lambda n, i, nt, c=c: native_group(c, n, i, nt))
    finally:
        S.uninstall()
    from vc import smt
    allowed = {"EtherCat.__init__", "EtherCat.get_fmmu_addr"}
    ws = field_writers("next_logical_addr")
    extra = [w for w in ws if w[1] not in allowed]
    rep.obligation("EtherCat.next_logical_addr.written_only_by[__init__, get_fmmu_addr]",
                   smt.Result(smt.PROVED if not extra and ws else smt.REFUTED, "ast-scan", 0.0, None,
                              f"writers found: {ws}"),
                   func="ebpfcat package", text="frame condition: no function other than EtherCat.__init__ and "
                   "EtherCat.get_fmmu_addr assigns next_logical_addr (the windows of earlier sync groups stay "
                   "reserved)", replay=(lambda m: native_writer(extra[0])) if extra else None)
    import inspect
    from ebpfcat.ebpfcat import EBPFTerminal
    from ebpfcat.terminals import AerotechBase
    rep.function("ebpfcat.ebpfcat:EBPFTerminal.allocate (inlined in SyncGroupBase.allocate)",
                 inspect.getsource(EBPFTerminal.allocate))
    rep.function("ebpfcat.terminals:AerotechBase.allocate (inlined in SyncGroupBase.allocate)",
                 inspect.getsource(AerotechBase.allocate))
    return rep.finish(
        explanation="pyvc: the real source of SyncGroupBase.allocate (terminal allocators inlined, packet methods by "
        "contract) is executed symbolically for every combination of sizes, flags and addressing modes of the "
        "group's terminals; the region clauses of the property are postconditions over the whole frame layout",
        trusted_base=["pyvc encoding (vc/pyvc)", "z3 5.1", "C11 contract of Packet.append (proved under C11)"],
        level="other")


def replay_file(path):
    d = json.load(open(path))
    print(json.dumps(d, indent=1)[:3000])
    return 0
