"""C13 -- datagram field encoding and decoding round-trip"""
import asyncio
import json

from vc import report as R
from vc.pyvc import api, lib, replay as RP
from vc.pyvc.values import Obj


def options():
    from contracts import c13_roundtrip as S

    @lib.model(asyncio.Future)
    def m_future(ex, args, kw):
        return Obj(S.FutureModel, {}, "future")

    def aw(ex, v, frame, node):
        if isinstance(v, Obj) and v.cls is S.FutureModel:
            return ex.inputs["ret"]          # the bus answers with `ret`
        return NotImplemented
    return {"await": aw}


def native(name, conc, notes):
    from contracts import c13_roundtrip as S
    from ebpfcat.ethercat import EtherCat
    sent = []

    async def go(args):
        ec = object.__new__(EtherCat)
        ec.send_queue = asyncio.Queue()

        async def bus():
            *dg, fut = await ec.send_queue.get()
            sent.append(tuple(dg))
            fut.set_result(args["ret"])
        t = asyncio.ensure_future(bus())
        try:
            return await ec.roundtrip(args["cmd"], args["pos"], args["offset"], *args["args"],
                                      data=args["data"], idx=args["idx"])
        finally:
            t.cancel()

    def call(args):
        r = asyncio.run(go(args))
        ns = RP.NS(send_queue=RP.NS(items=[s + (None,) for s in sent]))
        args["self"] = ns
        return r
    conc = dict(conc)
    conc.pop("self", None)
    return RP.replay(S.roundtrip, name, conc, call, S)


def run(tier, seed):
    from contracts import c13_roundtrip as S
    rep = R.Report("C13", tier, seed)
    for a in lib.ASSUMED:
        rep.assume(a)
    rep.assume("asyncio.Queue.put_nowait appends to a FIFO; awaiting the request's future yields the response bytes "
               "the bus returned, which have the length of the request (environment)")
    rep.bound(f"bounded in the shape of *args: {len(S.SHAPES)} shapes with the concrete format strings used by the "
              "package (up to 4 positional arguments); values, raw data (bytes of any length or any count) and "
              "response bytes are unbounded")
    api.verify(S.roundtrip, rep, options=options(), replay=native)
    return rep.finish(
        explanation="pyvc: the real source of EtherCat.roundtrip is executed symbolically for each argument shape, "
        "all values, all raw data and all response bytes, against payload/decoding spec functions written from the "
        "property",
        trusted_base=["pyvc encoding (vc/pyvc)", "struct model", "z3 5.1"], level="other")


def replay_file(path):
    print(json.dumps(json.load(open(path)), indent=1)[:3000])
    return 0
