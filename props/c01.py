"""C01 -- integer DSL expressions compute the exact value (Stage A)"""
import json
import multiprocessing as mp
import os
import time

import z3

from vc import smt, stagea as A
from vc import report as R
from vc import dsl as D


def dest_value(dest, path, st, layout):
    """the destination read with its own size (BV of 8*size bits)"""
    if isinstance(dest, D.Reg):
        v = path.regs[dest.no]
        return z3.Extract(8 * dest.size - 1, 0, v)
    return A.rd_le(path.regions["stack"].mem, A.stack_off(layout[dest.name]), dest.size)


def klass(e):
    if isinstance(e, (D.Reg, D.Loc, D.Const)):
        c = e.cls()
        if c.startswith("mem:"):
            f = c[4:]
            if f == "x":
                return "memfx"
            return ("mem" + str(D.SIZE[f] * 8)) + ("s" if f.islower() else "u")
        if isinstance(e, D.Const) and isinstance(e.value, float):
            return "constfx"
        return c
    if isinstance(e, D.Un):
        return f"{e.op}({klass(e.x)})"
    return f"({klass(e.l)}{e.op}{klass(e.r)})"


def dclass(d):
    return klass(d)


def has_view(e):
    return any(isinstance(a, D.Reg) and a.kind in ("w", "sw") for a in e.atoms())


def nodes(e):
    yield e
    if isinstance(e, D.Un):
        yield from nodes(e.x)
    elif isinstance(e, D.Bin):
        yield from nodes(e.l)
        yield from nodes(e.r)


def region(expr, dest):
    """region predicates of the recorded findings (None = core: must hold)"""
    if has_view(expr):
        return "R-VIEW32: a 32-bit register view (w/sw) is an operand"
    for n in nodes(expr):
        if isinstance(n, D.Bin) and n.op in ("//", "%") and n.signed:
            return "R-SDIV: signed // or %"
        if isinstance(n, D.Un) and n.op == "abs" and n.x.signed and width_of(expr, dest) == 32:
            return "R-ABS32: abs of a signed value in a 32-bit computation (operand or destination of at most 4 bytes)"
        if isinstance(n, D.Un) and n.op == "neg" and D.min_size(n.x) <= 4 and dest.size == 8:
            return "R-NEG32: unary minus of an operand of at most 4 bytes into a 64-bit destination"
    return None


def shift_conditions(expr, st, W):
    """shift amounts are below the width involved (property's precondition)"""
    out = []
    for n in nodes(expr):
        if isinstance(n, D.Bin) and n.op in ("<<", ">>"):
            try:
                amt = D.math(n.r, st)
            except ValueError:
                continue
            out.append(z3.And(amt >= 0, amt < W))
    return out


def width_of(expr, dest):
    return 32 if min(D.min_size(expr), dest.size) <= 4 else 64


def div_spec(expr, st, W, real=False):
    """-> (alternatives: list of MW-bit result terms, FITS condition).
    Quotients and remainders are written with the uninterpreted unsigned
    operations UDIV64 / UREM64 on magnitudes (the same symbols the abstracted
    program uses): |a| // |b| = UDIV64(|a|, |b|) for operands that fit."""
    from vc.bvutil import udiv_uf, urem_uf
    MW = D.MW
    UD, UR = (z3.UDiv, z3.URem) if real else (udiv_uf(64), urem_uf(64))

    def lo(v):
        return z3.Extract(63, 0, v)

    def val(e):
        """-> ([alternative values], condition)"""
        if isinstance(e, (D.Reg, D.Loc, D.Const)):
            return [st.atom(e, MW)], z3.BoolVal(True)
        if isinstance(e, D.Un) and e.op == "neg":
            vs, c = val(e.x)
            return [-v for v in vs], c
        if isinstance(e, D.Bin) and e.op in "+-":
            la, ca = val(e.l)
            lb, cb = val(e.r)
            return [(a + b if e.op == "+" else a - b) for a in la for b in lb], z3.And(ca, cb)
        if isinstance(e, D.Un) and e.op == "abs":
            (v,), c = val(e.x)
            return [z3.If(v < 0, -v, v)], z3.And(c, D.fits(v, W, True))
        la, ca = val(e.l)
        lb, cb = val(e.r)
        outs, conds = [], [ca, cb]
        for a in la:
            for b in lb:
                vs, c = binop(e, a, b)
                outs += vs
                conds.append(c)
        return outs, z3.And(*conds)

    def binop(e, a, b):
        """one pair of operand alternatives (a nested signed // or % has two)"""
        ca = cb = z3.BoolVal(True)
        if e.op == ">>":
            cond = z3.And(ca, cb, D.fits(a, W, e.l.signed), b >= 0, b < W)
            return [a >> b], cond            # floor(a / 2**b) of the exact value
        sg = e.signed
        cond = z3.And(ca, cb, D.fits(a, W, sg), D.fits(b, W, sg), b != 0)
        ma, mb = z3.If(a < 0, -a, a), z3.If(b < 0, -b, b)
        uq = z3.ZeroExt(MW - 64, UD(lo(ma), lo(mb)))
        ur = z3.ZeroExt(MW - 64, UR(lo(ma), lo(mb)))
        if not sg:
            return [uq if e.op == "//" else ur], cond
        qt = z3.If((a < 0) != (b < 0), -uq, uq)          # truncated quotient
        rt = z3.If(a < 0, -ur, ur)                       # remainder has the dividend's sign
        adj = z3.And(rt != 0, (rt < 0) != (b < 0))
        if e.op == "//":
            return [qt, z3.If(adj, qt - 1, qt)], cond
        return [rt, z3.If(adj, rt + b, rt)], cond
    return val(expr)


def check_program(job):
    """worker: build, execute symbolically, discharge; returns plain dicts"""
    from contracts import c01_expr as S
    from vc.bpfvc import Env, run as bpf_run, run_concrete
    import vc.bpfvc.machine as M
    from vc.bvutil import abstract_mul
    family, expr, dest = job
    label = f"{dest.label()} = {expr.label()}"
    reg = region(expr, dest)
    name = f"{family}[{klass(expr)} -> {dclass(dest)}]" if reg is None else f"{family}[{reg}]"
    out = {"name": name, "label": label, "region": reg, "verdict": smt.PROVED, "backend": "z3-5.1(api)",
           "seconds": 0.0, "queries": 0, "data": None, "raw": "", "safety_failed": None}
    try:
        code, layout = S.build(expr, dest)
    except Exception as e:
        out.update(verdict="rejected", raw=repr(e))
        return out
    st = D.SymState(layout)
    env = Env(ctx=None, regs=dict(st.regs))
    M.ABSTRACT_MUL[0] = True
    try:
        res = bpf_run(code, env)
    finally:
        M.ABSTRACT_MUL[0] = False
    if res.aborted:
        bad = [o for o in res.obligations if z3.is_false(z3.simplify(o.cond) if not isinstance(o.cond, bool) else z3.BoolVal(o.cond))]
        out.update(verdict=smt.REFUTED, raw="generated code faults: " + "; ".join(f"{o.kind}@{o.slot}: {o.desc}" for o in bad[:3]),
                   data={"label": label, "fault": True})
        return out
    n = 8 * dest.size
    cache = {}

    def ab(t):
        return abstract_mul(z3.simplify(t), cache)
    for path in res.paths:
        got = dest_value(dest, path, st, layout)
        pc = [ab(p) for p in path.pc]
        if family == "ring":
            want = z3.Extract(n - 1, 0, D.ring(expr, st, 64))
            goals, hyps = [got == want], pc + shift_conditions(expr, st, width_of(expr, dest))
        else:
            W = width_of(expr, dest)
            vs, cond = div_spec(expr, st, W)
            goals = [z3.Or(*[got == z3.Extract(n - 1, 0, x) for x in vs])]
            hyps = pc + [cond]
        for g in goals:
            from vc.bvutil import narrow_axioms
            g = ab(g)
            hyps = [ab(h) for h in hyps]
            hyps = hyps + narrow_axioms(hyps + [g])
            r = smt.prove(hyps, g, 10000)
            out["queries"] += 1
            out["seconds"] += r.seconds
            if r.verdict != smt.PROVED:
                out["verdict"] = r.verdict
                out["backend"] = r.backend
                if r.model is not None:
                    m = r.model
                    regs = {k: m.eval(v, model_completion=True).as_long() for k, v in st.regs.items()}
                    stack = bytes(m.eval(A.sel(st.stack, j), model_completion=True).as_long() for j in range(512))
                    out["data"] = {"label": label, "regs": regs, "stack": stack}
                    if not replay_one(family, expr, dest, out["data"])["reproduced"]:
                        # the counter-model of the abstracted query is not one
                        # of the real program: decide with the real operations
                        out["data"] = None
                        if reg is not None:
                            # inside a recorded-finding region only replayable
                            # witnesses matter
                            out["verdict"] = smt.UNKNOWN
                            return out
                        return real_semantics(job, out)
                return out
    for ob in res.obligations:
        cond = ob.cond if not isinstance(ob.cond, bool) else z3.BoolVal(ob.cond)
        r = smt.prove([ab(p) for p in ob.pc], ab(cond), 10000)
        out["queries"] += 1
        if r.verdict != smt.PROVED:
            out["safety_failed"] = f"{ob.kind}@{ob.slot}: {ob.desc}"
    return out


def real_semantics(job, out):
    """second attempt without uninterpreted functions (real * / %)"""
    from contracts import c01_expr as S
    from vc.bpfvc import Env, run as bpf_run
    family, expr, dest = job
    code, layout = S.build(expr, dest)
    st = D.SymState(layout)
    res = bpf_run(code, Env(ctx=None, regs=dict(st.regs)))
    n = 8 * dest.size
    out.update(verdict=smt.PROVED, backend="z3-5.1(api,real-arith)")
    for path in res.paths:
        got = dest_value(dest, path, st, layout)
        if family == "ring":
            hyps = list(path.pc) + shift_conditions(expr, st, width_of(expr, dest))
            goal = got == z3.Extract(n - 1, 0, D.ring(expr, st, 64))
        else:
            vs, cond = div_spec(expr, st, width_of(expr, dest), real=True)
            hyps = list(path.pc) + [cond]
            goal = z3.Or(*[got == z3.Extract(n - 1, 0, x) for x in vs])
        r = smt.prove(hyps, goal, 6000)
        out["queries"] += 1
        out["seconds"] += r.seconds
        if r.verdict != smt.PROVED:
            out["verdict"], out["backend"] = r.verdict, r.backend
            if r.model is not None:
                m = r.model
                regs = {k: m.eval(v, model_completion=True).as_long() for k, v in st.regs.items()}
                stack = bytes(m.eval(A.sel(st.stack, j), model_completion=True).as_long() for j in range(512))
                out["data"] = {"label": out["label"], "regs": regs, "stack": stack}
            return out
    return out


def replay_one(family, expr, dest, data):
    from contracts import c01_expr as S
    from vc.bpfvc import Env, run_concrete
    code, layout = S.build(expr, dest)
    regs = {int(k): v for k, v in data["regs"].items()}
    r = run_concrete(code, Env(ctx=None), regs=regs, mem={"stack": data["stack"]})
    n = 8 * dest.size
    if isinstance(dest, D.Reg):
        got = r[2][dest.no] & ((1 << n) - 1)
    else:
        o = A.stack_off(layout[dest.name])
        got = int.from_bytes(r[3]["stack"][o:o + dest.size], "little")
    wants = {D.pyval(expr, regs, data["stack"], layout, floor=f) & ((1 << n) - 1) for f in (True, False)}
    ops = {a.label(): D.pyatom(a, regs, data["stack"], layout) for a in expr.atoms()}
    return {"inputs": {"statement": f"{dest.label()} = {expr.label()}", "operands": ops},
            "reproduced": got not in wants,
            "detail": f"ISA model on the real bytes: destination = {got}; exact value reduced to {n} bits: {sorted(wants)}"}


def run(tier, seed, pid="C01", families=("ring", "div")):
    from contracts import c01_expr as S
    rep = R.Report(pid, tier, seed)
    rep.assume("eBPF ISA model of vc/bpfvc; products of two non-constants are uninterpreted in the proofs")
    jobs = []
    if "ring" in families:
        jobs += [("ring", e, d) for e, d in S.ring_programs(tier)]
    if "div" in families:
        jobs += [("div", e, d) for e, d in S.div_programs(tier)]
    rep.bound(f"Stage A: {len(jobs)} statements `dest = expr` (operator trees of depth 1 over the operand alphabet "
              f"and a fixed list of depth-2 shapes), built with the real DSL; each proved for all register and "
              f"memory contents. Bounded in program shape.")
    procs = int(os.environ.get("VERIF_PROCS", "14"))
    with mp.get_context("fork").Pool(procs) as pool:
        results = pool.map(check_program, jobs, chunksize=8)
    merged = {}
    by_job = {}
    for job, r in zip(jobs, results):
        m = merged.setdefault(r["name"], {"n": 0, "seconds": 0.0, "queries": 0, "bad": None,
                                          "rejected": 0, "labels": []})
        m["n"] += 1
        m["seconds"] += r["seconds"]
        m["queries"] += r["queries"]
        if r["verdict"] == "rejected":
            m["rejected"] += 1
        elif r["verdict"] != smt.PROVED and (m["bad"] is None or (
                m["bad"][1]["verdict"] == smt.UNKNOWN and r["verdict"] == smt.REFUTED)):
            m["bad"] = (job, r)
        if r.get("safety_failed") and m["bad"] is None:
            m["bad"] = (job, dict(r, verdict=smt.REFUTED, raw="unsafe access: " + r["safety_failed"]))
        if len(m["labels"]) < 2:
            m["labels"].append(r["label"])
    rep.extra["programs"] = len(jobs)
    rep.extra["rejected_by_generator"] = sum(m["rejected"] for m in merged.values())
    rep.extra["vc_queries"] = sum(m["queries"] for m in merged.values())
    for name, m in sorted(merged.items()):
        if m["n"] == m["rejected"]:
            continue
        if m["bad"] is None:
            rep.obligation(name, smt.Result(smt.PROVED, "z3-5.1(api)", m["seconds"]),
                           func="generated statement", text="; ".join(m["labels"]))
            continue
        (family, expr, dest), r = m["bad"]
        res = smt.Result(r["verdict"], r["backend"], m["seconds"], r["data"], r["raw"])
        rp = None
        if r["data"] is not None and "regs" in r["data"]:
            rp = lambda _m, f=family, e=expr, d=dest, dd=r["data"]: replay_one(f, e, d, dd)
        elif r["data"] is not None and r["data"].get("fault"):
            rp = lambda _m, r=r: {"inputs": r["label"], "reproduced": True, "detail": r["raw"]}
        rep.obligation(name, res, func="generated statement", text=r["label"], replay=rp)
    rep.canary("CANARY[ring spec with the wrong operator]", canary())
    return rep.finish(
        explanation="Stage A (bounded in program shape): each enumerated statement is built with the real DSL and "
        "its assembled bytes are proved by bpfvc against the denotational spec for all register/memory contents; "
        "obligations are grouped by (operator, operand classes, destination class)",
        trusted_base=["eBPF ISA model vc/bpfvc", "z3 5.1"], level="other")


def canary():
    from contracts import c01_expr as S
    from vc.bpfvc import Env, run as bpf_run
    e, d = D.Bin("-", D.Reg("r", 2), D.Reg("sr", 3)), D.Reg("sr", 6)
    code, layout = S.build(e, d)
    st = D.SymState(layout)
    res = bpf_run(code, Env(ctx=None, regs=dict(st.regs)))
    p = res.paths[0]
    return smt.prove(list(p.pc), p.regs[6] == D.ring(D.Bin("+", e.l, e.r), st, 64))


def replay_file(path):
    print(json.dumps(json.load(open(path)), indent=1)[:3000])
    return 0
