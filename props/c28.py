"""C28 -- serial channels transfer bytes exactly once, in order"""
import json
import os

from vc import report as R
from vc.pyvc import api, lib, replay as RP
from props.c27 import options


def native(contract, name, conc, notes):
    """the real Serial.update on real non-blocking pipes; the ghost fields are
    reconstructed from what went through the pipes"""
    import ebpfcat.serial as SM
    from contracts import c28_serial as S
    cls = RP.plain_subclass(SM.Serial, S.FIELDS)
    choice = 1
    for n in notes or []:
        if n.startswith("os.read: chunk"):
            choice = int(n.rsplit(" ", 1)[1])
    # more bytes are waiting than any read takes: the read size is what the code under test asks for
    chunk = bytes(range(65, 65 + 60)) if choice == 0 else None

    def call(args):
        f = dict(args["self"])
        in_read, in_write = os.pipe2(os.O_NONBLOCK)
        out_read, out_write = os.pipe2(os.O_NONBLOCK)
        f["in_write"], f["out_read"] = in_write, out_read
        old_D = list(f.pop("g_D"))
        nread = f.pop("g_nread")
        f.pop("g_read")
        if chunk is not None:
            os.write(out_write, chunk)
        elif choice == 2:
            os.close(out_write)
        for k, v in S.prototype_fields().items():
            f.setdefault(k, v)
        self = RP.make_obj(cls, f)
        try:
            SM.Serial.update(self)
        finally:
            try:
                got = os.read(in_read, 4096)
            except BlockingIOError:
                got = b""
            try:
                left = os.read(out_read, 4096)
            except (BlockingIOError, OSError):
                left = b""
            for fd in (in_read, in_write, out_read) + (() if choice == 2 else (out_write,)):
                os.close(fd)
        taken = chunk[:len(chunk) - len(left)] if chunk is not None else b""
        consumed = bool(taken)
        self.g_D = old_D + ([got] if got else [])
        self.g_read = taken if consumed else None
        self.g_nread = nread + (1 if consumed else 0)
        self.in_write, self.out_read = 5, 6
        args["self"] = self
        return None
    conc = dict(conc)
    conc["self"] = dict(conc["self"], in_write=5, out_read=6)
    return RP.replay(contract, name, conc, call, S)


def run(tier, seed):
    from contracts import c28_serial as S
    rep = R.Report("C28", tier, seed)
    for a in lib.ASSUMED:
        rep.assume(a)
    rep.assume("TerminalVar attributes behave as plain fields of the device on the slow path (C19)")
    rep.assume("environment: the terminal may present any transmit_accept / receive_request / init_accept / "
               "in_string in any cycle; os.read of the non-blocking transmit pipe returns a chunk of 1..22 bytes, "
               "raises BlockingIOError, or returns b''; os.write to the receive pipe delivers the bytes")
    rep.assume("the outputs start at zero and are written only by this device (invariant inv at the first cycle)")
    opts = options(S)
    for c in (S.update, S.connect):
        api.verify(c, rep, options=opts, replay=lambda n, i, nt, c=c: native(c, n, i, nt))
    return rep.finish(
        explanation="pyvc: the real source of Serial.update against the step contract of the handshake written "
        "from the property (all terminal inputs and pipe outcomes symbolic, so every handshake timing is one of "
        "the steps); the exactly-once / in-order statements over a history are the induction over cycles with the "
        "step clauses and the invariant inv, which initialisation establishes",
        trusted_base=["pyvc encoding (vc/pyvc)", "z3 5.1", "descriptor contract (plain fields)",
                      "pipe contract (os.read / os.write)"], level="other")


def replay_file(path):
    print(json.dumps(json.load(open(path)), indent=1)[:3000])
    return 0
