"""C26 -- the fast Motor device commands exactly its limited control law"""
import json
import time

import z3

from vc import report as R
from vc import smt
from vc.bpfvc import Env, MapModel, run_concrete
from vc.bpfvc import run as bpf_run


def run_check(tier, seed, rep):
    from contracts import c26_motor as S
    info = S.build()
    code = info["code"]
    rep.function("ebpfcat.devices:Motor.program -> FastSyncGroup.assemble() bytes",
                 code.hex())
    rep.extra["program_instructions"] = len(code) // 8
    pkt_len = z3.BitVec("pkt_len", 64)
    pkt0 = z3.Array("pkt0", z3.BitVecSort(64), z3.BitVecSort(8))
    env = Env(ctx="xdp", pkt_len=pkt_len, pkt_mem=pkt0,
              maps={77: MapModel("array", 4, info["map_size"])})
    import vc.bpfvc.machine as M
    M.ABSTRACT_MUL[0] = True      # products of non-constants are uninterpreted
    try:
        res = bpf_run(code, env)
    finally:
        M.ABSTRACT_MUL[0] = False
    rep.assume("64-bit multiplication of two non-constant values is treated as an uninterpreted function "
               "in the proof (sound weakening); lemma L-MUL links it to the mathematical product")
    if res.aborted:
        rep.out_of_reach(f"aborted paths: {[str(o.desc) for p in res.aborted for o in res.obligations if o.cond is False][:3]}")
    rep.extra["paths"] = len(res.paths)
    jobs = []
    texts = {}
    # ---- memory safety of every access on every path
    for ob in res.obligations:
        cond = ob.cond if not isinstance(ob.cond, bool) else z3.BoolVal(ob.cond)
        name = f"safety[{ob.kind}@slot{ob.slot}]"
        texts[name] = ob.desc
        jobs.append((name, list(ob.pc), cond, 20000, None, False))
    # ---- functional postcondition
    map_name = "map77"
    sp = None
    A = S.W
    fs = info["frame_size"]
    vel_fmt, vel_off = info["packet_vars"]["velocity"]
    (en_bit, _), en_off = info["packet_vars"]["enable"]
    wfmt, woff = info["wkc_errors"]

    from vc.bvutil import abstract_mul

    def add(name, hyps, goal, text, abstract=True):
        texts[name] = text
        real_hyps, real_goal = list(hyps), goal
        hint = [sp["gain"] == 1] if sp is not None else []
        if abstract:
            cache = {}
            hyps = [abstract_mul(z3.simplify(h), cache) for h in hyps]
            goal = abstract_mul(z3.simplify(goal), cache)
        on_model = (lambda m: concretise(m, info, pkt0)) \
            if not name.startswith(("lemma", "corollary", "CANARY")) else None
        info.setdefault("real_jobs", {})[len(jobs)] = (real_hyps, real_goal, hint)
        jobs.append((name, hyps, goal, 60000, on_model, name.startswith("CANARY")))

    i = z3.BitVec("i", 64)
    npaths_active = 0
    for path in res.paths:
        map0 = env.initial_state().regions[map_name].mem if False else z3.Array(map_name + "_init", z3.BitVecSort(64), z3.BitVecSort(8))
        sp = S.spec(info, pkt0, map0)
        fin = path.regions["pkt"].mem
        finmap = path.regions[map_name].mem if map_name in path.regions else map0
        enabled = z3.And(z3.UGE(pkt_len, fs), S.field(map0, wfmt, woff) != 0)
        hyp = list(path.pc) + [enabled, sp["pre"]]
        if not smt.feasible(hyp, 5000):
            continue
        npaths_active += 1
        fits16 = z3.And(sp["a"] >= -32768, sp["a"] <= 32767)
        final_vel = S.field(fin, vel_fmt, vel_off)
        add("control_law[limited value fits the 16-bit output]", hyp + [fits16],
            final_vel == sp["out"],
            "velocity field after the program == clamp(clamp(gain*(target-pos), v0-acc, v0+acc), -vmax, vmax), or 0 at an active limit switch")
        add("control_law[limited value exceeds 16 bits]", hyp + [z3.Not(fits16)],
            final_vel == sp["out"], "same clause, region where the "
            "acceleration-limited value does not fit int16")
        add("exit_code_TX", hyp, z3.And(path.exit == "EXIT", path.r0 == 3)
            if path.exit == "EXIT" else z3.BoolVal(False), "the frame is sent back (XDP_TX)")
        en = z3.Extract(en_bit, en_bit, z3.Select(fin, z3.BitVecVal(en_off, 64)))
        add("enable_bit", hyp, (en == 1) == (sp["set_enable"] != 0),
            "enable bit == (set_enable != 0)")
        # frame: output region bytes other than velocity and the enable bit
        ro, rn = info["out_region"]
        keep = z3.And(z3.UGE(i, ro), z3.ULT(i, ro + rn),
                      i != vel_off, i != vel_off + 1, i != en_off)
        add("frame[other output bytes]", hyp + [keep],
            z3.Select(fin, i) == z3.Select(pkt0, i),
            "no other byte of the terminal's output region changes")
        mask = 0xff ^ (1 << en_bit)
        add("frame[other bits of the control byte]", hyp,
            (z3.Select(fin, z3.BitVecVal(en_off, 64)) & mask)
            == (z3.Select(pkt0, z3.BitVecVal(en_off, 64)) & mask),
            "only the enable bit of its byte changes")
    rep.extra["paths_with_output_enabled"] = npaths_active
    # ---- corollaries from the definition of `out` (pure lemmas)
    out, v0, acc, vmax = sp["out"], sp["v0"], sp["acc"], sp["vmax"]
    add("corollary[never exceeds the velocity limit]", [sp["pre"]],
        z3.And(out <= vmax, -vmax <= out), "|out| <= vmax")
    add("corollary[never drives into an active limit switch]", [sp["pre"]],
        z3.And(z3.Implies(sp["low"], out >= 0), z3.Implies(sp["high"], out <= 0)),
        "low switch => out >= 0, high switch => out <= 0")
    add("corollary[acceleration limit except to stop]", [sp["pre"], acc >= 0],
        z3.Or(out == 0, z3.And(out - v0 <= acc, v0 - out <= acc)),
        "|out - v0| <= acc unless out == 0")
    add("CANARY[velocity is always the unclamped value]", [sp["pre"]],
        out == sp["d"], "wrong on purpose")
    x, y = z3.BitVecs("x y", 64)
    P = z3.SignExt(64, x) * z3.SignExt(64, y)
    add("lemma[L-MUL: a product that fits 64 bits is the sign-extended 64-bit product]",
        [z3.SignExt(64, z3.Extract(63, 0, P)) == P], P == z3.SignExt(64, x * y),
        "links the property's mathematical product to the 64-bit MUL of the program",
        abstract=False)
    return info, texts, jobs


def concretise(model, info, pkt0):
    n = max(info["frame_size"], 64)
    pkt = bytes(model.eval(z3.Select(pkt0, z3.BitVecVal(k, 64)), model_completion=True).as_long()
                for k in range(n))
    map0 = z3.Array("map77_init", z3.BitVecSort(64), z3.BitVecSort(8))
    mp = bytes(model.eval(z3.Select(map0, z3.BitVecVal(k, 64)), model_completion=True).as_long()
               for k in range(info["map_size"]))
    return {"packet": pkt, "map": mp}


def native(info, pkt, mp):
    """the property's oracle in plain python integers"""
    import struct
    pv, dv = info["packet_vars"], info["device_vars"]
    g = {k: struct.unpack_from("<" + dv[k][0], mp, dv[k][1])[0] for k in dv}
    v0, = struct.unpack_from("<" + pv["velocity"][0], pkt, pv["velocity"][1])
    pos, = struct.unpack_from("<" + pv["encoder"][0], pkt, pv["encoder"][1])
    low = bool(pkt[pv["low_switch"][1]] >> pv["low_switch"][0][0] & 1)
    high = bool(pkt[pv["high_switch"][1]] >> pv["high_switch"][0][0] & 1)
    d = g["proportional"] * (g["target"] - pos)
    acc, vmax = g["max_acceleration"], g["max_velocity"]
    a = min(max(d, v0 - acc), v0 + acc)
    b = min(max(a, -vmax), vmax)
    out = 0 if (low and b < 0) or (high and b > 0) else b
    pre_ok = (0 <= vmax <= 32767 and -vmax <= v0 <= vmax
              and -2**63 <= d < 2**63)
    wfmt, woff = info["wkc_errors"]
    enabled = len(pkt) >= info["frame_size"] and \
        struct.unpack_from("<" + wfmt, mp, woff)[0] != 0
    return dict(g=g, v0=v0, pos=pos, low=low, high=high, d=d, a=a, b=b, out=out,
                pre_ok=pre_ok and enabled)


def replay_inputs(info, pkt, mp):
    import struct
    r = run_concrete(info["code"], Env(ctx="xdp", maps={77: MapModel("array", 4, info["map_size"])}),
                     pkt=pkt, mem={"map77": mp})
    fmt, off = info["packet_vars"]["velocity"]
    got, = struct.unpack_from("<" + fmt, r[3]["pkt"], off)
    nat = native(info, pkt, mp)
    return {"inputs": {"packet": pkt, "map": mp, "decoded": {k: v for k, v in nat.items()}},
            "reproduced": (got != nat["out"]) if nat["pre_ok"] else None,
            "detail": f"ISA model (concrete mode) on the real bytes: velocity field = {got}, "
                      f"property's value = {nat['out']} (d={nat['d']}, a={nat['a']}, b={nat['b']}, v0={nat['v0']})"}


def run(tier, seed):
    rep = R.Report("C26", tier, seed)
    rep.assume("eBPF ISA model of vc/bpfvc (cross-checked against the kernel by selftest/test_bpfvc.py)")
    rep.assume("map_lookup_elem contract: array map, key 0 -> pointer to the value, else NULL")
    rep.assume("PDO layout of the EL7041 as in contracts/c26_motor.py (control bit 0, velocity int16 at offset 2; "
               "switch bits 3/4 of status byte 1, step counter int32 at offset 2)")
    from vc import parallel
    info, texts, jobs = run_check(tier, seed, rep)
    results = parallel.discharge(jobs)
    # a counter-model of a query with abstracted multiplication need not be
    # one of the real program: validate it natively, and otherwise search a
    # real witness with the concrete multiplication and gain fixed to 1
    # (search heuristic only -- a witness counts only if it replays)
    retry = []
    for r in results:
        if r["verdict"] == smt.REFUTED and isinstance(r.get("data"), dict) \
                and "packet" in r["data"]:
            v = replay_inputs(info, r["data"]["packet"], r["data"]["map"])
            if v["reproduced"] is not True:
                retry.append(r["i"])
    if retry:
        rep.extra["witness_searches"] = len(retry)
        jobs2 = []
        for i in retry:
            name, hyps, goal, tmo, on_model, quick = jobs[i]
            from vc.bvutil import realize_axioms
            hint = info["real_jobs"][i][2]
            # same (abstracted) query plus: gain == 1 and every uninterpreted
            # product tied to the real multiplication
            jobs2.append((name, hyps + hint + realize_axioms(hyps + [goal]), goal, 30000, on_model, False))
        for i, r2 in zip(retry, parallel.discharge(jobs2)):
            if r2["verdict"] == smt.REFUTED and isinstance(r2.get("data"), dict):
                results[i] = dict(r2, i=i)
            else:
                results[i]["candidate"] = True
    merged = parallel.aggregate(results)
    rep.extra["vc_queries"] = len(jobs)
    for name, m in merged.items():
        res = parallel.to_result(m)
        if name.startswith("CANARY"):
            rep.canary(name, res)
            continue
        rp = None
        if res.verdict == smt.REFUTED and isinstance(m.get("data"), dict) \
                and "packet" in m["data"]:
            rp = lambda _m, d=m["data"]: replay_inputs(info, d["packet"], d["map"])
        rep.obligation(name, res, func="Motor program bytes", text=texts[name],
                       replay=rp, candidate=m.get("candidate", False))
    return rep.finish(
        explanation="bpfvc: the assembled bytes of the real FastSyncGroup(Motor+EL7041) program are "
        "executed symbolically on all paths over full-width bit-vector inputs (loop-free program: complete, "
        "no bound); the postcondition from the property text is discharged per path by z3",
        trusted_base=["eBPF ISA model vc/bpfvc", "map_lookup_elem helper contract", "z3 5.1"])


def replay_file(path):
    from contracts import c26_motor as S
    d = json.load(open(path))
    info = S.build()
    pkt = bytes.fromhex(d["inputs"]["packet"]["hex"])
    mp = bytes.fromhex(d["inputs"]["map"]["hex"])
    r = replay_inputs(info, pkt, mp)
    print(r["detail"])
    return 1 if r["reproduced"] else 0
