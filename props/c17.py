"""C17 -- EEPROM contents and derived layouts are decoded exactly"""
import asyncio
import json
import random
import struct

from vc import report as R
from vc.pyvc import api, lib


# ------------------------------ the ESC's EEPROM interface, executable (native)
class NativeEeprom:
    """register 0x502 of an ESC in front of an SII image: used to replay
    witnesses on the real Terminal._eeprom_read_one / read_eeprom"""

    def __init__(self, image, eight, busy=(0,), other_bits=0):
        self.image, self.eight = image, eight
        self.other = other_bits & 0x7fbf  # status bits the contract leaves open
        self.busy = list(busy)          # polls answered `busy` before each completion
        self.k = 0
        self.addr = None
        self.left = 0
        self.log = []

    def _next_busy(self):
        b = self.busy[self.k % len(self.busy)]
        self.k += 1
        return b

    async def roundtrip(self, cmd, pos, offset, *args, data=None, idx=0):
        from ebpfcat.ethercat import ECCmd
        assert offset == 0x502, f"register {offset:#x}"
        self.calls = getattr(self, "calls", 0) + 1
        if self.calls > 8 * len(self.image) + 1000:
            raise EOFError("the walk does not end: more register accesses than the image has bytes")
        if cmd is ECCmd.FPWR:
            fmt, (op, addr) = args[0], args[1:3]
            assert fmt == "HI" and op == 0x100, (fmt, op)
            self.addr = addr
            self.left = self._next_busy()
            self.log.append(addr)
            return ()
        fmt = args[0]
        if fmt == "H":
            return (self.other,)
        n = {"H4x8s": 8, "H4x4s": 4}[fmt]
        if self.left > 0:
            self.left -= 1
            return (0x8000 | self.other, bytes([0xEE] * n))
        chunk = self.image[2 * self.addr:2 * self.addr + (8 if self.eight else 4)]
        chunk = (chunk + bytes(8))[:n] if self.eight else (chunk + bytes([0xEE] * 8))[:n]
        return ((0x40 if self.eight else 0) | self.other, chunk)


def real_terminal(image, eight, busy=(0,), other_bits=0):
    from ebpfcat.ethercat import Terminal
    t = object.__new__(Terminal)
    t.position = 7
    t.ec = NativeEeprom(image, eight, busy, other_bits)
    t.g_E, t.g_eight = image, eight
    return t


def make_image(rng, ncat, sm_entries=None):
    """a well-formed SII image: 128 bytes of header, categories with distinct
    types, the end marker, padding for the last read"""
    img = bytearray(rng.randbytes(128))
    types = rng.sample(range(1, 0x7fff), ncat)
    cats = []
    for i, ty in enumerate(types):
        words = rng.randrange(0, 40)
        body = rng.randbytes(2 * words)
        cats.append((ty, body))
        img += struct.pack("<HH", ty, words) + body
    img += b"\xff\xff" + bytes(16)
    return bytes(img), cats


def native_read_one(name, conc, notes):
    from ebpfcat.ethercat import Terminal
    if conc is None or "self" not in conc:
        rng = random.Random(17)
        image, eight, start = rng.randbytes(256), False, 5
    else:
        image, eight, start = conc["self"]["g_E"], conc["self"]["g_eight"], conc["start"]
    bad = []
    for busy, other in (((0,), 0), ((3,), 0x7fbf), ((1, 0, 2), 0x0080), ((0,), 0x7fbf)):
        t = real_terminal(image, eight, busy, other)
        got = asyncio.run(t._eeprom_read_one(start))
        if got != image[2 * start:2 * start + 8]:
            bad.append((busy, hex(other), got.hex(), image[2 * start:2 * start + 8].hex()))
    return {"inputs": {"image": image.hex(), "eight": eight, "start": start},
            "reproduced": bool(bad),
            "detail": f"real Terminal._eeprom_read_one behind an executable EEPROM interface, busy for "
                      f"0/3/1,0,2 polls, the status bits the contract leaves open clear or set: wrong (busy, other "
                      f"status bits, returned, stored) = {bad[:2]}"}


def native_read_eeprom(name, conc, notes):
    """random well-formed images, 4/8-byte interface, busy durations (and the
    counter-model's image when there is one)"""
    rng = random.Random(1717)
    cases = []
    if conc and "self" in conc and isinstance(conc["self"].get("g_E"), (bytes, bytearray)):
        img = bytes(conc["self"]["g_E"])
        # a candidate counter-model is only an input if it satisfies the
        # precondition: a chain of categories that reaches the end marker
        p, ok, seen = 0x80, False, set()
        while p + 4 <= len(img):
            ty, ws = struct.unpack_from("<HH", img, p)
            if ty == 0xffff:
                ok = len(img) >= p + 16
                break
            if ty in seen:
                break
            seen.add(ty)
            p += 4 + 2 * ws
        if ok:
            cases.append((img, bool(conc["self"].get("g_eight")), None))
    for ncat in (0, 1, 2, 3, 5):
        for eight in (False, True):
            image, cats = make_image(rng, ncat)
            cases.append((image, eight, cats))
    bad = []
    for image, eight, cats in cases:
        for busy, other in (((0,), 0), ((2, 0, 1), 0x7fbf)):
            t = real_terminal(image, eight, busy, other)
            try:
                asyncio.run(asyncio.wait_for(t.read_eeprom(), 5))
            except Exception as e:      # noqa
                bad.append((len(image), eight, busy, f"{type(e).__name__}: {e}"))
                continue
            if cats is None:
                cats2, p = [], 0x80
                while image[p:p + 2] != b"\xff\xff" and p + 4 <= len(image):
                    ty, ws = struct.unpack_from("<HH", image, p)
                    cats2.append((ty, image[p + 4:p + 4 + 2 * ws]))
                    p += 4 + 2 * ws
                expected = cats2
            else:
                expected = cats
            ident = struct.unpack_from("<IIII", image, 16)
            got_ident = (t.vendorId, t.productCode, t.revisionNo, t.serialNo)
            if list(t.eeprom.items()) != expected or ident != got_ident:
                bad.append((len(image), eight, busy,
                            f"identity {got_ident} stored {ident}; categories "
                            f"{[(k, v.hex()[:16]) for k, v in t.eeprom.items()][:3]} stored "
                            f"{[(k, v.hex()[:16]) for k, v in expected][:3]}"))
    return {"inputs": {"cases": len(cases) * 2,
                       "first_failing_image": next((c[0].hex() for c in cases if bad and len(c[0]) == bad[0][0]), None)},
            "reproduced": True if bad else None,
            "detail": "real Terminal.read_eeprom behind an executable EEPROM interface, images with 0/1/2/3/5 "
                      f"categories, 4- and 8-byte reads, two busy schedules; failing (image bytes, eight, busy, what): "
                      f"{bad[:2]} ({len(bad)} of {len(cases) * 2})"}


def native_sync_managers(contract, name, conc, notes):
    from contracts import c17_eeprom as S
    from ebpfcat.ethercat import Terminal
    if not conc or not isinstance(conc.get("data"), (bytes, bytearray)):
        return {"inputs": conc, "reproduced": None, "detail": "no concrete input"}
    data, g = bytes(conc["data"]), conc["g"]
    t = object.__new__(Terminal)
    try:
        t.parse_sync_managers(data)
    except Exception as e:      # noqa
        return {"inputs": {"data": data.hex(), "g": g}, "reproduced": True,
                "detail": f"real Terminal.parse_sync_managers raised {type(e).__name__}: {e}"}
    env = dict(vars(S))
    env.update(self=t, data=data, g=g)
    failed = [k for k, c in contract.ensures.items() if not eval(c, env)]
    attrs = {f: getattr(t, f) for f in S.SM_FIELDS + ["pdo_in_addr", "pdo_out_addr"]}
    return {"inputs": {"data": data.hex(), "g": g}, "reproduced": bool(failed),
            "detail": f"real Terminal.parse_sync_managers: attributes {attrs}; entry {g} = "
                      f"{data[8 * g:8 * g + 8].hex()}; clauses failing natively: {failed}"}


class Padded(bytes):
    """the spec functions read slots beyond the category under a guard that
    is evaluated eagerly here: such reads give 0"""

    def __getitem__(self, i):
        if isinstance(i, int) and not -len(self) <= i < len(self):
            return 0
        return bytes.__getitem__(self, i)


def native_pdos(contract, name, conc, notes):
    from contracts import c17_eeprom as S
    from ebpfcat.ethercat import Terminal
    if not conc or not isinstance(conc.get("s_out"), (bytes, bytearray)):
        return {"inputs": None, "reproduced": None, "detail": "no concrete input"}
    s_out, s_in = bytes(conc["s_out"]), bytes(conc["s_in"])
    t = object.__new__(Terminal)
    t.mbx_out_off = t.mbx_in_off = None
    t.eeprom = {}
    if 51 in contract.keys:
        t.eeprom[51] = s_out
    if 50 in contract.keys:
        t.eeprom[50] = s_in
    inputs = {"s_out": s_out.hex(), "s_in": s_in.hex(), "categories": sorted(contract.keys)}
    env = dict(vars(S))
    env.update(self=t, s_out=Padded(s_out), s_in=Padded(s_in), entries=lambda d: list(d.items()))
    try:
        result = asyncio.run(t.parse_pdos())
    except RuntimeError as e:
        aligned = all(eval(f"byte_aligned({v}, 8)", env) for k, v in ((51, "s_out"), (50, "s_in")) if k in contract.keys)
        return {"inputs": inputs, "reproduced": bool(aligned),
                "detail": f"real Terminal.parse_pdos raised RuntimeError({e}); every mapped entry byte-aligned: {aligned}"}
    except Exception as e:      # noqa
        return {"inputs": inputs, "reproduced": True,
                "detail": f"real Terminal.parse_pdos raised {type(e).__name__}: {e}"}
    env["result"] = result
    failed = []
    for k, c in contract.ensures.items():
        try:
            if not eval(c, env):
                failed.append(k)
        except Exception as e:      # noqa
            failed.append(f"{k} ({type(e).__name__}: {e})")
    return {"inputs": inputs, "reproduced": bool(failed),
            "detail": f"real Terminal.parse_pdos returned {result}, pdos = "
                      f"{ {f'{k[0]:#x}:{k[1]}': (v[0].name,) + tuple(v[1:]) for k, v in t.pdos.items()} }; "
                      f"clauses failing natively: {failed}"}


def _nested(parent, name, closure):
    """the real nested function `name` of `parent`, bound to `closure`
    (compiled from the real source text, nothing re-written)"""
    import ast
    import inspect
    import textwrap
    import ebpfcat.ethercat as E
    src = textwrap.dedent(inspect.getsource(parent))
    tree = ast.parse(src)
    for n in ast.walk(tree):
        if isinstance(n, (ast.FunctionDef, ast.AsyncFunctionDef)) and n.name == name and n is not tree.body[0]:
            mod = ast.Module(body=[n], type_ignores=[])
            env = dict(vars(E))
            env.update(closure)
            exec(compile(mod, f"<{parent.__qualname__}.{name}>", "exec"), env)
            return env[name]
    raise LookupError(name)


def native_generator(name, conc, notes):
    from contracts import c17_eeprom as S
    from ebpfcat.ethercat import Terminal
    if not conc or not isinstance(conc.get("s"), (bytes, bytearray)):
        return {"inputs": None, "reproduced": None, "detail": "no concrete input"}
    s = bytes(conc["s"])
    gen = _nested(Terminal.parse_pdos, "parse_eeprom", {})

    async def collect():
        return [t async for t in gen(s)]
    try:
        got = asyncio.run(collect())
    except Exception as e:      # noqa
        return {"inputs": {"s": s.hex()}, "reproduced": True, "detail": f"real parse_eeprom raised {type(e).__name__}: {e}"}
    want, m, n = [], 0, len(s) // 8
    while m < n:
        e = s[8 * m + 2]
        for r in range(1, e + 1):
            want.append(S.triple(s, m + r))
        m += e + 1
    return {"inputs": {"s": s.hex()}, "reproduced": got != want,
            "detail": f"real nested generator parse_eeprom: yields {got[:6]}, the category stores {want[:6]}"}


def native_consumer(name, conc, notes):
    from contracts import c17_eeprom as S
    from ebpfcat.ethercat import SyncManager, Terminal
    if not conc or not isinstance(conc.get("func"), list):
        return {"inputs": None, "reproduced": None, "detail": "no concrete input"}
    func = [tuple(t) for t in conc["func"]]
    sm = conc["sm"] if isinstance(conc["sm"], SyncManager) else SyncManager(conc["sm"])
    t = object.__new__(Terminal)
    t.pdos = {}
    parse = _nested(Terminal.parse_pdos, "parse", {"self": t})

    async def gen():
        for x in func:
            yield x
    try:
        result = asyncio.run(parse(gen(), sm))
    except Exception as e:      # noqa
        return {"inputs": {"func": func}, "reproduced": True, "detail": f"real parse raised {type(e).__name__}: {e}"}
    pos, want = 0, {}
    for idx, sub, bits in func:
        if idx != 0:
            want[idx, sub] = (sm, pos // 8, S.where_of(bits, pos))
        pos += bits
    return {"inputs": {"func": func, "sm": sm.name}, "reproduced": result != pos or t.pdos != want,
            "detail": f"real nested consumer parse: returned {result} (sum of bits {pos}), pdos "
                      f"{ {f'{k[0]:#x}:{k[1]}': v[1:] for k, v in t.pdos.items()} }, stored layout "
                      f"{ {f'{k[0]:#x}:{k[1]}': v[1:] for k, v in want.items()} }"}


def run(tier, seed):
    from contracts import c17_eeprom as S
    rep = R.Report("C17", tier, seed)
    for a in lib.ASSUMED:
        rep.assume(a)
    rep.assume("the ESC's EEPROM interface (register 0x502) as stated in contracts/c17_eeprom.py: any number of busy "
               "polls; a completed read delivers the 4 (or, with status bit 6, 8) image bytes at the requested word "
               "address; EtherCat.roundtrip transports register values unchanged (C12/C11)")
    rep.assume("the SII image is well formed: every category header is followed by as many words as it declares, "
               "category types are distinct, the end marker 0xffff follows, and the image extends 16 bytes past it "
               "(the look-ahead of the 8-byte reads)")
    rep.assume("the sync-manager category holds whole 8-byte entries")
    cats = (0, 1, 2)    # three categories: the ground-instantiation prover leaves an obligation undecided
    rep.bound(f"Terminal.read_eeprom is proved for images with {', '.join(map(str, cats))} categories - bounded in "
              "the number of categories; category lengths, contents, types, the 4/8-byte mode and every busy "
              "duration are unbounded (loop invariants of _eeprom_read_one and get_data).  "
              "parse_sync_managers is proved for any number of entries.  parse_pdos: its nested generator (the "
              "sequence of yields of a category with any number of PDOs and entries) and its nested consumer "
              "(byte/bit positions and formats over any sequence) are proved unbounded; their composition in "
              "parse_pdos itself is checked end to end for categories of a bounded number of slots.")
    S.install()
    try:
        api.verify(S.read_one, rep, replay=native_read_one)
        api.REGISTRY["ebpfcat.ethercat:Terminal._eeprom_read_one"] = S.ReadOne()
        try:
            for n in cats:
                api.verify(S.read_eeprom_contract(n), rep, replay=native_read_eeprom)
        finally:
            del api.REGISTRY["ebpfcat.ethercat:Terminal._eeprom_read_one"]
        c = S.parse_sync_managers
        api.verify(c, rep, replay=lambda n, i, nt: native_sync_managers(c, n, i, nt))
        for c in S.pdo_contracts(tier):
            api.verify(c, rep, replay=lambda n, i, nt, c=c: native_pdos(c, n, i, nt))
        # the two halves of parse_pdos for categories of ANY size: the nested
        # generator as the sequence of its yields, the nested consumer over any
        # sequence (their composition is exercised by the bounded contracts above)
        # (registered only while they are verified: the bounded contracts above
        # run the real nested bodies, not these contracts)
        for make, rp in ((S.parse_eeprom, native_generator), (S.parse_consumer, native_consumer)):
            c = make()
            try:
                api.verify(c, rep, replay=rp)
            finally:
                api.REGISTRY.pop(c.qualname, None)
    finally:
        S.uninstall()
    return rep.finish(
        explanation="pyvc: the real source of Terminal._eeprom_read_one, read_eeprom (with its nested get_data), "
        "parse_sync_managers and parse_pdos is executed symbolically against the register-level contract of the "
        "EEPROM interface; the image is a ghost byte string and the postconditions compare the decoded dict and "
        "attributes with it",
        trusted_base=["pyvc encoding (vc/pyvc)", "z3 5.1", "EEPROM interface contract (ETG.1000.4 6.4)"],
        level="other")


def replay_file(path):
    d = json.load(open(path))
    print(json.dumps(d, indent=1)[:3000])
    return 0
