"""C16 -- SDO transfers carry values byte-for-byte"""
import asyncio
import json
import struct

from vc import report as R
from vc.pyvc import api, lib


# ------------------------------------------- an executable CoE server (native)
class NativeServer:
    """protocol-conformant SDO server behind a mailbox (ETG.1000.6), used to
    replay witnesses on the real Terminal.sdo_read / sdo_write"""

    def __init__(self, value=b"", in_sz=64):
        self.value, self.in_sz = value, in_sz
        self.pos, self.toggle = 0, 0
        self.received, self.declared, self.done = b"", None, False
        self.requests = []
        self.pending = None

    def request(self, payload):
        self.requests.append(payload)
        coe, cmd, idx, sub = struct.unpack("<HBHB", payload[:6])
        ccs = cmd >> 5
        hdr = struct.pack("<H", 3 << 12)
        if ccs == 2:                                    # upload initiate
            v = self.value
            if 1 <= len(v) <= 4:
                self.pending = hdr + struct.pack("<BHB4s", 0x43 | (4 - len(v)) << 2, idx, sub, v)
                self.pos = len(v)
            else:
                k = min(len(v), self.in_sz - 16)
                self.pending = hdr + struct.pack("<BHBI", 0x41, idx, sub, len(v)) + v[:k]
                self.pos, self.toggle = k, 0
        elif ccs == 3:                                  # upload segment
            assert (cmd >> 4) & 1 == self.toggle, "segment toggle"
            m = min(len(self.value) - self.pos, self.in_sz - 9)
            seg = self.value[self.pos:self.pos + m]
            last = self.pos + m == len(self.value)
            n = 7 - m if m < 7 else 0
            self.pending = hdr + bytes([self.toggle << 4 | n << 1 | last]) + seg + bytes(n)
            self.pos += m
            self.toggle ^= 1
        elif ccs == 1:                                  # download initiate
            if cmd & 2:
                n = (cmd >> 2) & 3
                self.received, self.declared, self.done = payload[6:10 - n], 4 - n, True
            else:
                self.declared, = struct.unpack("<I", payload[6:10])
                self.received = payload[10:10 + self.declared]
                self.done = len(self.received) >= self.declared
            self.toggle = 0
            self.pending = hdr + struct.pack("<BHB4x", 0x60, idx, sub)
        elif ccs == 0:                                  # download segment
            n = (cmd >> 1) & 7
            seg = payload[3:]
            self.received += seg[:len(seg) - n]
            self.done = bool(cmd & 1)
            self.pending = hdr + struct.pack("<BHB4x", 0x20 | self.toggle << 4, 0, 0)
            self.toggle ^= 1


def real_terminal(server, out_sz=64, in_sz=64):
    from ebpfcat.ethercat import MBXType, Terminal
    from ebpfcat.lock import MailboxLock
    t = object.__new__(Terminal)
    t.name = "t"
    t.mbx_out_sz, t.mbx_in_sz, t.mbx_out_off, t.mbx_in_off = out_sz, in_sz, 0x1000, 0x1100
    t.mbx_lock = MailboxLock()
    t.too_long = []

    async def mbx_send(type, *args, data=None, address=0, priority=0, channel=0):
        fmt, vals = args[0], args[1:]
        payload = struct.pack("<" + fmt, *vals) + (data or b"")
        if 6 + len(payload) > out_sz:
            t.too_long.append(len(payload))
        server.request(payload)

    async def mbx_recv():
        if getattr(server, "noise", 0):
            server.noise -= 1
            return MBXType.EOE, b"unrelated mail"
        return MBXType.COE, server.pending
    t.mbx_send, t.mbx_recv = mbx_send, mbx_recv
    return t


def witness_read_segmented():
    value = bytes(range(60))
    srv = NativeServer(value, in_sz=32)
    t = real_terminal(srv, in_sz=32)
    try:
        got = asyncio.run(t.sdo_read(0x8000, 1))
        out, bad = f"returned {len(got)} bytes", got != value
    except Exception as e:      # noqa
        out, bad = f"raised {type(e).__name__}: {e}", True
    return {"inputs": {"object value": "60 bytes", "mbx_in_sz": 32},
            "reproduced": bad,
            "detail": f"real Terminal.sdo_read against a conformant SDO server (segmented upload needed): {out}"}


def witness_write(data, sub, out_sz=64):
    srv = NativeServer(in_sz=64)
    t = real_terminal(srv, out_sz=out_sz)
    try:
        asyncio.run(t.sdo_write(data, 0x8000, sub))
        out = "returned"
    except Exception as e:      # noqa
        out = f"raised {type(e).__name__}: {e}"
    ok = srv.received == data and srv.done and out == "returned" and not t.too_long
    return {"inputs": {"data": f"{len(data)} bytes", "subindex": sub, "mbx_out_sz": out_sz},
            "reproduced": not ok,
            "detail": f"real Terminal.sdo_write against a conformant SDO server: {out}; declared complete size "
                      f"{srv.declared}, bytes that reached the object {len(srv.received)} of {len(data)}, "
                      f"transfer completed: {srv.done}, messages longer than the mailbox: {t.too_long}"}


def native_read(name, conc, notes):
    """the real sdo_read against the executable server: values of several
    lengths, with and without subindex, with and without unrelated mail"""
    bad = []
    # every length up to several segments: the boundary cases (a last segment
    # of exactly 7 bytes, a first mail that is exactly full) are among them
    for value in [bytes((7 * k + 1) % 256 for k in range(n)) for n in range(0, 81)]:
        for sub in (1, None):
            for noise in (0, 1):
                for in_sz in (32, 64):
                    srv = NativeServer(value, in_sz=in_sz)
                    srv.noise = noise
                    t = real_terminal(srv, in_sz=in_sz)
                    try:
                        got = asyncio.run(t.sdo_read(0x8000, sub))
                        if got != value:
                            bad.append((len(value), sub, noise, in_sz, f"returned {got!r}"))
                    except Exception as e:      # noqa
                        bad.append((len(value), sub, noise, in_sz, f"{type(e).__name__}: {e}"))
    return {"inputs": {"tried": "value lengths 0..80 x subindex 1/None x unrelated mail 0/1 x mbx_in_sz 32/64"},
            "reproduced": True if bad else None,
            "detail": f"real Terminal.sdo_read against a conformant SDO server; failing (len, subindex, unrelated "
                      f"mail, mbx_in_sz, outcome): {bad[:4]} ({len(bad)} of 648 cases)"}


def native(name, conc, notes):
    if "sdo_read" in name:
        return native_read(name, conc, notes)
    return {"inputs": conc, "reproduced": None, "detail": "no native harness for this clause"}


def native_mbx_recv(name, conc, notes):
    """the real mbx_recv against a simulated receive mailbox larger / smaller
    than the send mailbox: what it reads, what it returns"""
    from ebpfcat.ethercat import ECCmd, MBXType, Terminal
    bad = []
    for in_sz, out_sz in ((64, 64), (128, 48), (48, 128)):
        mail = struct.pack("<HHBB", in_sz - 6, 0, 0, MBXType.COE.value | 0x30) + bytes(range(in_sz - 6))
        reads = []

        class EC:
            async def roundtrip(self, cmd, pos, offset, *args, data=None, idx=0):
                if offset == 0x80D:
                    return (8,)
                reads.append((offset, struct.calcsize("<" + args[0]) + data))
                body = mail[6:6 + data] + bytes(max(0, data - (in_sz - 6)))
                return struct.unpack("<HHBB", mail[:6]) + (body,)
        t = object.__new__(Terminal)
        t.ec, t.position = EC(), 5
        t.mbx_in_off, t.mbx_in_sz, t.mbx_out_off, t.mbx_out_sz = 0x1100, in_sz, 0x1000, out_sz
        try:
            ty, data = asyncio.run(t.mbx_recv())
        except Exception as e:      # noqa
            bad.append(f"in {in_sz}/out {out_sz}: {type(e).__name__}: {e}")
            continue
        if reads != [(0x1100, in_sz)]:
            bad.append(f"in {in_sz}/out {out_sz}: read (offset, bytes) {reads}, the mailbox is (0x1100, {in_sz}): "
                       f"its last byte is {'not ' if reads[0][1] < in_sz else ''}read")
        if data != mail[6:] or ty is not MBXType.COE:
            bad.append(f"in {in_sz}/out {out_sz}: returned {len(data)} of {in_sz - 6} bytes of service data")
    return {"inputs": {"mailbox sizes (in, out)": [(64, 64), (128, 48), (48, 128)]}, "reproduced": bool(bad),
            "detail": f"real Terminal.mbx_recv on a full receive mailbox: {bad[:3]}"}


def native_mbx_send(name, conc, notes):
    """the real mbx_send against a simulated send mailbox (sync manager 0):
    mails of every length up to the mailbox's capacity"""
    from ebpfcat.ethercat import ECCmd, MBXType, Terminal
    from ebpfcat.lock import MailboxLock
    bad = []
    for sz in (32, 48):
        for n in range(0, sz - 12 + 1):
            mem, state = bytearray(sz), {"full": False}

            class EC:
                async def roundtrip(self, cmd, pos, offset, *args, data=None, idx=0):
                    if cmd is ECCmd.FPRD:
                        return (0,)
                    f = "<" + "".join(a for a in args if isinstance(a, str))
                    b = struct.pack(f, *[a for a in args if not isinstance(a, str)])
                    b += bytes(data) if isinstance(data, int) else (data or b"")
                    if state["full"]:
                        from ebpfcat.ethercat import EtherCatError
                        raise EtherCatError("datagram was not processed")      # working counter 0
                    o = offset - 0x1000
                    mem[o:o + len(b)] = b
                    state["full"] = o <= sz - 1 < o + len(b)
                    return ()
            t = object.__new__(Terminal)
            t.ec, t.position, t.name = EC(), 5, "t"
            t.mbx_in_off, t.mbx_in_sz, t.mbx_out_off, t.mbx_out_sz = 0x1100, sz, 0x1000, sz
            t.mbx_lock = MailboxLock()
            payload = bytes(range(1, n + 1))

            async def go():
                async with t.mbx_lock:
                    await t.mbx_send(MBXType.COE, "HBHB", 0x1234, 0x2f, 0x8000, 1, data=payload)
            try:
                asyncio.run(go())
            except Exception as e:      # noqa
                bad.append(f"mailbox {sz}, {n} data bytes: {type(e).__name__}: {e}")
                continue
            want = struct.pack("<HHBBHBHB", 6 + n, 0, 0, 3, 0x1234, 0x2f, 0x8000, 1) + payload
            if not state["full"]:
                bad.append(f"mailbox {sz}, {n} data bytes (mail ends {sz - 12 - n} bytes before the end): the last "
                           f"byte of the mailbox is never written, the terminal never takes the mail")
            elif bytes(mem[:len(want)]) != want:
                bad.append(f"mailbox {sz}, {n} data bytes: the mailbox holds {bytes(mem[:len(want)]).hex()}, "
                           f"sent {want.hex()}")
    return {"inputs": {"mailbox sizes": [32, 48], "data lengths": "0 .. capacity"}, "reproduced": bool(bad),
            "detail": f"real Terminal.mbx_send on a simulated send mailbox: {bad[:3]}"}


def run(tier, seed):
    from contracts import c16_sdo as S
    rep = R.Report("C16", tier, seed)
    for a in lib.ASSUMED:
        rep.assume(a)
    rep.assume("environment: a protocol-conformant CoE/SDO server behind the mailbox (ETG.1000.6) as the contract "
               "of Terminal.mbx_send / mbx_recv: upload expedited / normal / segmented with toggles from 0, "
               "download expedited / normal / segmented; at most one unrelated mail before the first response")
    rep.assume("asyncio.Lock contract (C15); mailbox sizes between 24 and 1486 bytes")
    saved = dict(api.REGISTRY)
    # the transport under the SDO exchanges: mbx_recv against the receive
    # mailbox (sync manager 1) - the server contract above stands on it
    api.REGISTRY[S.MbxInBus.qualname] = S.MbxInBus()
    try:
        api.verify(S.mbx_recv_contract(), rep, replay=native_mbx_recv)
    finally:
        api.REGISTRY.clear()
        api.REGISTRY.update(saved)
    api.REGISTRY[S.MbxOutBus.qualname] = S.MbxOutBus()
    try:
        api.verify(S.mbx_send_contract(), rep, replay=native_mbx_send)
    finally:
        api.REGISTRY.clear()
        api.REGISTRY.update(saved)
    rep.assume("send mailbox = memory of sync manager 0: the terminal takes the mail when the mailbox's last byte is "
               "written; a write to a full mailbox is rejected (working counter 0, EtherCatError); the mailbox is empty "
               "when mbx_send starts")
    rep.assume("receive mailbox = memory of sync manager 1, handed back when its last byte is read; a mail fits its "
               "mailbox (ETG.1000.4)")
    S.install()
    try:
        api.verify(S.read_contract(True), rep, replay=native)
        api.verify(S.read_contract(False), rep, replay=native)
        api.verify(S.write_contract("expedited"), rep, replay=native)
        for contract, region, witness in (
                (S.write_contract("normal"), "sdo_write: normal download (more than 4 bytes, or complete access)",
                 lambda: witness_write(b"abcdef", 1)),
                (S.write_contract("segmented"), "sdo_write: the value does not fit the initiate request (segmented download)",
                 lambda: witness_write(bytes(range(100)), 1, 32))):
            scratch = R.Report("C16", tier, seed)
            scratch.quiet = True
            api.verify(contract, scratch, replay=native, quiet=True)
            rep.fold_region(scratch, region, witness)
    finally:
        api.REGISTRY.clear()
        api.REGISTRY.update(saved)
    return rep.finish(
        explanation="pyvc: the real source of Terminal.sdo_read / sdo_write against the contract of a conformant SDO "
        "server; the input space is split by region predicates: single-message uploads and expedited downloads are "
        "proved for all values and mailbox sizes, the other regions are recorded findings; the transport under the "
        "server contract - Terminal.mbx_send and mbx_recv - is proved against the send / receive mailbox sync "
        "managers for mails of every length the mailbox holds",
        trusted_base=["pyvc encoding (vc/pyvc)", "z3 5.1", "SDO server contract (ETG.1000.6)",
                      "mailbox sync manager contract (ETG.1000.4)"], level="other")


def replay_file(path):
    d = json.load(open(path))
    ob = d["obligation"]
    w = witness_read_segmented() if "sdo_read" in ob else (
        witness_write(bytes(range(100)), 1, 32) if "segmented" in ob else witness_write(b"abcdef", 1))
    print(w["detail"])
    return 1 if w["reproduced"] else 0
