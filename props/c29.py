"""C29 -- process-based sync groups share device variables correctly"""
import json

from vc import report as R
from vc.pyvc import api, lib


def native(name, conc, notes):
    """a real ProcessSyncGroup with a real device class: construct the group,
    then access a DeviceVar from the controlling process"""
    from ebpfcat.ebpfcat import Device, DeviceVar, ProcessSyncGroup

    class Axis(Device):
        position = DeviceVar("i")
        target = DeviceVar("i", write=True)

    class EC:
        pass
    a, b = Axis(), Axis()
    try:
        g = ProcessSyncGroup(EC(), [a, b])
    except Exception as e:      # noqa
        return {"inputs": "ProcessSyncGroup(ec, [Axis(), Axis()])", "reproduced": True,
                "detail": f"constructing the group raised {type(e).__name__}: {e}"}
    out = {}
    try:
        a.target = 7
        b.target = -3
        out["read back"] = (a.target, b.target)
        bad = out["read back"] != (7, -3)
    except Exception as e:      # noqa
        out["access"] = f"{type(e).__name__}: {e}"
        bad = True
    out["storage assigned"] = {k: v for k, v in a.__dict__.items() if k in ("position", "target")}
    return {"inputs": "class Axis(Device): position = DeviceVar('i'); target = DeviceVar('i', write=True); "
                      "ProcessSyncGroup(ec, [Axis(), Axis()]); a.target = 7; b.target = -3",
            "reproduced": bad, "detail": f"real objects: {out}"}


def native_regrouped(name, conc, notes):
    """real devices that were in a group before are put into a new group with
    other devices; every variable must have bytes of its own in the new array"""
    from ebpfcat.ebpfcat import Device, DeviceVar, ProcessSyncGroup

    class Axis(Device):
        position = DeviceVar("i")
        target = DeviceVar("h", write=True)
        status = DeviceVar("B")

    class Gripper(Device):
        force = DeviceVar("I", write=True)
        width = DeviceVar("H")

    class EC:
        pass
    a, b, c, d = Axis(), Gripper(), Axis(), Gripper()
    try:
        ProcessSyncGroup(EC(), [a, b, c])
        g = ProcessSyncGroup(EC(), [b, c, d, a])
    except Exception as e:      # noqa
        return {"inputs": "two groups over shared devices", "reproduced": True,
                "detail": f"constructing the groups raised {type(e).__name__}: {e}"}
    size = {"i": 4, "h": 2, "B": 1, "I": 4, "H": 2}
    spans = []
    for k, dev in enumerate((b, c, d, a)):
        for n in dir(type(dev)):
            v = getattr(type(dev), n, None)
            if isinstance(v, DeviceVar):
                spans.append((dev.__dict__[n], dev.__dict__[n] + size[v.fmt], f"device{k}.{n}"))
    spans.sort()
    overlaps = [(x[2], y[2]) for x, y in zip(spans, spans[1:]) if y[0] < x[1]]
    return {"inputs": "ProcessSyncGroup(ec, [a, b, c]); then ProcessSyncGroup(ec, [b, c, d, a])",
            "reproduced": bool(overlaps),
            "detail": f"real objects, byte ranges in the second group's array: {spans}; overlapping: {overlaps}"}


def native_history(contract, conc):
    """the lemma's function on a real loaded ProcessSyncGroup; the 'other
    process' writes the shared array directly"""
    from contracts import c29_process as S
    from ebpfcat.ebpfcat import Device, DeviceVar, ProcessSyncGroup

    class Axis(Device):
        status = DeviceVar("i", write=True)

    class EC:
        pass
    a = Axis()
    g = ProcessSyncGroup(EC(), [a])
    v = conc["v"] if conc else 5
    w = conc["w"] if conc else 9
    import struct

    def other(dev, w):
        arr = g.__dict__[S.MAPNAME]
        o = dev.__dict__["status"]
        arr[o:o + 4] = struct.pack("i", w)
    saved = S.other_process_writes
    S.other_process_writes = other
    try:
        got = contract.target(a, v, w)
    except Exception as e:      # noqa
        return {"inputs": {"v": v, "w": w}, "reproduced": True, "detail": f"{type(e).__name__}: {e}"}
    finally:
        S.other_process_writes = saved
    want = w if contract.target.__name__ == "write_other_read" else v
    return {"inputs": {"v": v, "w": w}, "reproduced": got != want,
            "detail": f"real ProcessSyncGroup: {contract.target.__name__}(device, {v}, {w}) returned {got}, "
                      f"expected {want}"}


def run(tier, seed):
    from contracts import c29_process as S
    rep = R.Report("C29", tier, seed)
    for a in lib.ASSUMED:
        rep.assume(a)
    rep.assume("multiprocessing shared Array: bytes written by one process are read by the other; spawn pickling "
               "preserves the objects' __dict__ (offsets)")
    rep.assume("reading/writing a variable at its (format, address) is ArrayGlobalVarDesc's user-side contract, "
               "proved under C08")
    rep.bound("one generated configuration: three devices of two classes, three DeviceVars per class pair; all "
              "variable sizes symbolic")
    # the sizes collect() reserves are those the accessors touch (C08's
    # contract of ebpf.fmtsize, re-proved here)
    from props.c08 import verify_fmtsize
    verify_fmtsize(rep)
    saved = dict(api.REGISTRY)
    api.REGISTRY["ebpfcat.ebpfcat:ProcessSyncGroup.get_array"] = S.GetArray()
    try:
        api.verify(S.init_contract(), rep, replay=native)
        api.verify(S.init_contract(stale=True), rep, replay=native_regrouped)
        for c in S.history_lemmas():
            api.verify(c, rep, replay=lambda n, i, nt, c=c: native_history(c, i))
    finally:
        api.REGISTRY.clear()
        api.REGISTRY.update(saved)
    return rep.finish(
        explanation="pyvc: the real source of SimulatedEBPF.__init__ (EBPFBase.__init__ and ArrayMap.collect "
        "inlined) for a ProcessSyncGroup with devices that declare DeviceVars, sizes symbolic: every device "
        "variable has its own bytes inside the shared array of its map",
        trusted_base=["pyvc encoding (vc/pyvc)", "z3 5.1", "multiprocessing.Array contract"], level="other")


def replay_file(path):
    r = native("", None, None)
    print(r["detail"])
    return 1 if r["reproduced"] else 0
